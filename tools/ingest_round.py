#!/usr/bin/env python3
"""Confirm round-N seeded changes in their scratch worktrees (in parallel per property) and copy them to /verif/seeded/<id>-r<N>m<k>/."""
import sys, os, json, re, shutil, subprocess, concurrent.futures
N=sys.argv[1]
ids=sys.argv[2:] or [f"C{i:02d}" for i in range(1,21)]
def confirm(id):
    out=[]
    for k in (1,2):
        src=f"/tmp/wt/{id}-out/m{k}"
        if not os.path.exists(src+"/patch.diff"): continue
        subprocess.run(["/verif/tools/confirm_seeded.sh", id, str(k)], capture_output=True)
        conf=" ".join(open(src+"/confirm.txt").read().split())
        ok = "demo_clean_rc=0" in conf and "apply_rc=0" in conf and "42 passed" in conf and re.search(r"demo_patched_rc=[1-9]", conf)
        out.append((id,k,bool(ok),conf))
    return out
with concurrent.futures.ThreadPoolExecutor(max_workers=10) as ex:
    res=[r for rs in ex.map(confirm, ids) for r in rs]
for id,k,ok,conf in res:
    src=f"/tmp/wt/{id}-out/m{k}"
    print(id,k,"CONFIRMED" if ok else "NOT-CONFIRMED", conf[-120:])
    if not ok: continue
    dst=f"/verif/seeded/{id}-r{N}m{k}"
    os.makedirs(dst, exist_ok=True)
    for f in ("patch.diff","demo.rs","run_demo.sh","notes.md"):
        if os.path.exists(f"{src}/{f}"): shutil.copy(f"{src}/{f}", f"{dst}/{f}")
    notes=open(src+"/notes.md").read() if os.path.exists(src+"/notes.md") else ""
    m=re.search(r"(?is)(what is needed.*?|needs?[^\n]*manifest.*?|to manifest.*?)\n\n", notes)
    needs=" ".join((m.group(0) if m else notes[:400]).split())[:500]
    files=sorted(set(re.findall(r'^\+\+\+ b/(\S+)', open(src+"/patch.diff").read(), re.M)))
    meta={"property":id,"mutation":f"r{N}m{k}","origin":f"independent sub-agent, round {N}, given only the property text and a scratch worktree","files_changed":files,
          "needs_to_manifest":needs,
          "confirmed_by_me":{"how":"tools/confirm_seeded.sh in the scratch worktree: demo on clean tree, git apply, pinned 42 tests with the patch, demo with the patch","result":conf},
          "detection":{}}
    json.dump(meta, open(dst+"/meta.json","w"), indent=1)
