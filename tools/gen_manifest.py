#!/usr/bin/env python3
"""Generate /verif/MANIFEST.json from the table below (kept next to the checks it describes)."""
import json, os, sys

ROOT = os.path.dirname(os.path.dirname(os.path.abspath(__file__)))

# id -> (engine, category, technique, text, note, design_ref)
CHECKS = {}
def check(i, engine, category, technique, text, note, ref):
    CHECKS[i] = dict(engine=engine, category=category, technique=technique, text=text, note=note, ref=ref)

check("C01", "A", "exploration",
      "bounded exhaustive enumeration of header/lead/padding shapes (worker processes) against an independent codec",
      "Every point of a finite product of package shapes (lead fields, intro bytes, 1-3 index entries x all 10 types x every in-range offset x counts 0..3 x all 121 stores of <=4 bytes over {00,'a',FF}, every signature-store length mod 8, three payloads) is assembled by the harness's own encoder, parsed and re-written by the real code; the oracle compares bytes, allows only reserved/padding bytes to turn into zero, and checks the parse/write fixpoint. Plus the six assets (also truncated) and a corpus of built/signed/cleared packages.",
      "Trusted: the reference header codec (vlib::refhdr). Headers with more than 3 hand-enumerated entries are covered by assets and corpus only.", "DESIGN.md 3/C01")
check("C03", "A", "exploration",
      "bounded exhaustive enumeration of digest presence/correctness matrix and all single-bit flips against an independent recomputation",
      "10 base packages x every subset of the four digest tags x {correct, wrong first/middle/last} x 10 algorithm numbers, every single-bit flip of two digest-carrying packages (all regions), assets and corpus; oracle recomputes the digests with RustCrypto on byte ranges laid out by the harness and demands an iff.",
      "Trusted: RustCrypto md-5/sha1/sha2, the reference codec. Shapes the statement leaves undefined are not judged.", "DESIGN.md 3/C03")
check("C04", "A", "exploration",
      "bounded exhaustive enumeration of boundary-value headers, every truncation and single-byte substitution of valid packages, hostile cpio archives, in crash/hang-isolating worker processes",
      "Boundary product of intro fields and index entries (type 0..10, offsets/counts at the extremes) for both headers, every truncation and every byte position x 26 (quick) / 255 (thorough) values of four valid packages, two-deviation structural words (thorough), ~1400 hostile cpio archives; every public read-side API is called on each; oracle: no panic (overflow and debug assertions on), no abort, no 10 s stall, allocation <= 1 MiB + 512 x input.",
      "Aborts and hangs are observed via worker processes with a per-request allocation limit; inputs further than two deviations from a valid package are outside the bound.", "DESIGN.md 3/C04, 2.5")
check("C13", "A", "exploration",
      "exhaustive all-pairs enumeration over bounded alphabets against a byte-level port of rpmvercmp and the rank characterisation of a total preorder",
      "All ordered pairs of all strings up to length 3 (quick) / 4 (thorough) over a 12-symbol alphabet incl. a non-ASCII character, longer strings over reduced alphabets, EVR triples, rpm_evr_compare strings and NEVRAs; equality with the reference on every pair and cmp(a,b) == rank(a).cmp(rank(b)) on every pair (sound and complete for reflexive+antisymmetric+transitive, so all triples are decided).",
      "Trusted: the transcription of rpm's rpmvercmp in vlib::vercmp (cross-checked against rpm's own test expectations). Nothing is claimed beyond the length bounds.", "DESIGN.md 3/C13")
check("C15", "A", "exploration",
      "exhaustive enumeration of component tuples and short strings",
      "All 108 864 NEVRA tuples over a small component alphabet (names with '-' and '.'), all EVR tuples, the assets' own NEVRAs, all five compression types, and every string of length <= 6 (8) over {a,1,-,.,:} for the no-panic clause.",
      "Component values a real package can carry: name without ':' not starting with '-'; version/release without '-' and ':'; arch without '.' and '-'.", "DESIGN.md 3/C15")
check("C16", "A", "exploration",
      "exhaustive enumeration of header sizes (every signature padding residue) against the harness's layout and an independent scan",
      "Signature entries 0..3 x signature store length 0..=16 x main entries 0..3 x main store 0..8 x payload {0,1,9} (quick; larger in thorough), assets and corpus.",
      "Trusted: reference codec.", "DESIGN.md 3/C16")
check("C18", "A", "exploration",
      "complete enumeration of the domain",
      "All 65 536 16-bit words in both tiers; all 2^32 i32 values in the thorough tier (a dense window plus every power-of-two neighbourhood in the quick tier).",
      "Values in -32768..-1 are treated as the signed reading of a 16-bit word (the code documents the bit-pattern reading) and must be classified like the same word given as u16.", "DESIGN.md 3/C18")
check("C19", "A", "exploration",
      "exhaustive enumeration of token strings against a hand-written recogniser",
      "Every sequence of <= 6 (quick) / 7 (thorough) tokens over 13 tokens through all four entry points; accepted texts of <= 3/4 tokens also through a built package.",
      "Trusted: the recogniser in vlib::capsref implements the grammar of the statement (group = operator followed by zero or more flags).", "DESIGN.md 3/C19, A.4")
check("C20", "A", "exploration",
      "exhaustive enumeration of instants in windows (quick) and of every second of 0..2^32 (thorough)",
      "Windows of +-4096 s around 0, 2^31, 2^32 x four sub-second offsets x five fixed zones, extremes, and the builder path on real files with boundary mtimes; thorough: every whole second of the range x four sub-second offsets.",
      "Trusted: std SystemTime / chrono arithmetic.", "DESIGN.md 3/C20")

check("C02", "C+A", "fault_enumeration",
      "exhaustive exploration of all verifier accept/reject answer sequences over every enumerated signature-header shape, plus every single-bit flip of packages signed with real keys",
      "263 250 signature-header shapes (OpenPGP tag absent / 0-3 items good, malformed, empty / wrong types x RSA, DSA, PGP tags x four digests absent/correct/wrong x two payloads); for each shape the scripted verifier's answers are explored exhaustively (choice-point explorer, unbounded deviations) and the oracle checks the 'only if': at least one call, all accepted, right data with right signature bytes, digests match. Packages built and signed by the library with Ed25519 and ECDSA (thorough: all four keys): every single-bit flip of header and payload, raw and with all digests recomputed, must not verify unless it parses to the original value; the other keys must reject the intact package.",
      "Beyond 1-bit (selected 2-bit) modifications the claim rests on signature unforgeability / SHA-256. What the verifier is shown for malformed base64 is not judged.", "DESIGN.md 3/C02")
check("C05", "A", "exploration",
      "base header + all deviations up to a bound, accessors compared with an independent decoder (worker processes)",
      "A complete well-formed header with pairwise distinct byte-asymmetric values; every 0-, 1- and 2-deviation variant from per-group menus (drop, retype to each other type, count 0/n-1/n+1, empty/multibyte/invalid UTF-8 values, 1-3 locales, 32/64-bit sizes, out-of-range dir index, every digest algorithm, optional arrays) for scalars, 8 dependency kinds, changelog, 8 scriptlets, files; all nine typed getters on retyped tags; all accessors on the six assets.",
      "Trusted: vlib::refhdr::value. Undefined corners (arrays of unequal length, mistyped optional tags, digests that do not fit the algorithm) are not judged.", "DESIGN.md 3/C05, A.2")
check("C06", "A", "exploration",
      "exhaustive enumeration of builder configurations within k setter calls of the minimal one, reference = the supplied configuration itself",
      "Minimal configuration + every ordered pair (quick) / plus every triple a<b<c (thorough) from a menu of ~150 setter calls (all scalars x 4 texts, epochs, 9 scriptlets x 4 variants, 8 dependency kinds x 3 constructors, changelog, 31 with_file variants, compressions, signing, source dates); build -> write -> parse -> each supplied value compared with its accessor; plus the package corpus.",
      "Only supplied values are judged; user dependencies as an in-order subsequence; digest for regular files only.", "DESIGN.md 3/C06")
check("C07", "A", "exploration",
      "exhaustive enumeration of file sets x sizes x compressions x layouts, and of archive orders of hand-encoded packages",
      "1 800 (quick) / ~9 000 (thorough) library-built packages: 0-3 files, every size mod 4 up to 64 KiB (5 MiB thorough), compressible/incompressible, name lengths up to 4000, every compression type (every documented level in thorough), standard and stripped (large-file, via the verif hook) layout; 156 hand-encoded packages with every ordered selection of archive entries incl. %ghost omission, gzip, stripped entries as rpm writes them. Oracle: exact sequence, bytes, size, digest, pairing by name/index.",
      "The stripped layout is reached through the verif-hooks feature; > 4 GiB of real content is not exercised.", "DESIGN.md 3/C07")
check("C08", "C+A", "fault_enumeration",
      "exhaustive exploration of inner-writer answers under the hashing writer (bounded deviations), and independent recomputation of all recorded digests over the package corpus",
      "Sha256Writer over a scripted sink: all 84 scripts of 1-3 write_all calls x every answer sequence {all, 1 byte, len-1, Interrupted, error} with <= 3 (4) deviations; the four digests (header SHA-256, payload, alternate uncompressed payload, per-file) of ~2 000 corpus packages incl. sign/clear histories and of builds with 200 KB - 8 MiB files with every compressor recomputed after independent decompression.",
      "Decompressors and sha2 are the crates the library uses; cpio reader and header decoder are the harness's own.", "DESIGN.md 3/C08")
check("C09", "A", "exploration",
      "strict independent validator applied to every package of the enumerated corpus; validator cross-checked on rpmbuild assets and hand-broken packages",
      "LEAD/HDR/REG/ENT/SIG/PAY/LIB rules (rpm's header verification, cpio reader, rpmlib features) on ~2 000 emitted packages (all compression types, both layouts, sign/clear histories, setter enumeration, payload enumeration) and on the assets after library sign/clear histories. Self-check on every run: six assets pass, 35 hand-broken packages are each rejected by the intended rule.",
      "Only rules that the six rpmbuild-produced assets satisfy and that the statement lists are enforced.", "DESIGN.md 3/C09, A.5")
check("C10", "B", "model_checking",
      "explicit-state breadth-first search of the sign/clear/re-parse state graph whose transition function is the real API; closure reached",
      "From 5 (quick) / 11 (thorough) start packages, operations {sign(k,t) for 3 (4) keys x 2 timestamps, clear, write+parse}; states deduplicated by the SHA-256 of the full byte image plus the reference last-signer; the graph closes (fixpoint), so the invariant holds for histories of any length over the alphabet: verify matrix (4 keys) = last signer, reported key id, digests, header and payload byte-identical.",
      "Signers are deterministic for a fixed timestamp (this is what makes the graph finite); every transition is an implementation call.", "DESIGN.md 3/C10")
check("C11", "C", "fault_enumeration",
      "exhaustive enumeration of environment answers (hash seed x wall clock) on fresh threads and of fresh processes, with interposed getrandom/clock_gettime",
      "8 configurations (up to 5 distinct non-root users and groups, mtimes around the source date, signed/unsigned) x 64 (quick) / 2000 (thorough) hash seeds x 4 clock values, every build on a fresh thread whose RandomState seed and SystemTime::now() the harness decides; plus freshly started processes with OS randomness, 5 TZ values, 3 working directories. Oracle: one output per configuration; BUILDTIME, FILEMTIMES, signature creation time <= source date.",
      "Interposition self-test at start-up; S consecutive seeds, with the induced iteration orders of the owner set measured and reported.", "DESIGN.md 3/C11, 2.6")
check("C12", "A", "exploration",
      "exhaustive enumeration of hostile entry tuples, each extracted in a fresh jail by single-threaded worker processes; file-system model for benign packages",
      "All 315 single entries, all ordered pairs over a 75-entry (quick) / 315-entry (thorough) alphabet, triples over a 40-entry core (thorough): '..' in dir/base names, absolute base names, slashes in base names, symlinks to outside files/dirs followed by entries at or below them, duplicates, fifo modes; oracle: byte-exact snapshot of everything outside the target before/after, no panic. 20 benign packages (built, assets, hand-encoded): every listed entry exists with content, permission bits, link target.",
      "Escapes are observed inside a jail (<= 2 levels up, jail-internal absolute paths); Linux semantics; runs as the invoking user.", "DESIGN.md 3/C12")
check("C14", "C", "fault_enumeration",
      "choice-point exploration of sink/source answers with iterative deviation bounding, plus complete enumeration of failure offsets and chunk sizes",
      "5 (10) packages x Package/PackageMetadata write: failure at EVERY byte offset (three styles), every chunk size 1..=64, and all executions with <= 1 (2) deviating answers out of {1 byte, len-1, Interrupted, Ok(0), error} at any write call; reading: every chunk size, truncation at every offset, <= 1 (2) deviating fill_buf answers.",
      "Sinks/sources obey the Write/BufRead contracts.", "DESIGN.md 3/C14")
check("C17", "A", "exploration",
      "exhaustive enumeration of argument strings and levels",
      "All 1 365 (thorough 21 845) destination strings over {/, ., .., a}; 22 621 capability strings over 12 tokens incl. tab, non-ASCII, NUL; 35 (type, level) pairs across and beyond each encoder's range; hostile metadata strings and mode integers through every setter. Oracle: no panic; must-reject destinations and unknown capability text give errors; accepted levels give a readable package.",
      "Which in-between destinations are accepted is not specified.", "DESIGN.md 3/C17")

# Extensions added after the seeded rounds (appended to the texts above; the technique gets the part in the first slot).
MORE = {
 "C01": ("", "Also: size-like tags that disagree with the byte lengths, entries behind the immutable region, assets with appended bytes; the written bytes must not depend on the sink (plain and vectored partial writes). Unknown data-type numbers among valid entries; the path-based entry points (open on a regular file and on a named pipe, write_file over existing longer files) on assets and corpus. Headers without index entries but with a data section; every truncation of a region-less package. Round 6: padding between the headers removed / shortened / lengthened, every selection of sections on its own (no lead), clone writes the same bytes. Round 7: the geometry of one entry (offset and count to and beyond the edges of the data section, final NUL removed). Round 8: n index entries / items for n around 16, 256, 4096, 65 536. Round 9: every entry count from 0 to 1100."),
 "C02": ("; explicit-state exploration of operation sequences on one live Package (aged object versus freshly parsed object)", "Also: signature index sorted/reversed x the verifier's algorithm() answer (1.58 M shapes); recorded digests truncated / empty / extended; every sequence of <= 4 (5) operations {verify, clone, assignments to the public fields} on a long-lived object must answer like a freshly parsed object of the same bytes. GPG tag axis (absent / binary). Valid OpenPGP signatures made with the real secret keys in six subpacket layouts, by primary key or signing subkey, covering the header / the empty message / a changed header, verified with each real public key (found and fixed: subkey signature over the empty message with a repeated issuer verified for any data). Round 6: payload digest absent (judged by the flips). Round 7: rejections reported with three kinds of error; payload digest entries edited before the library signs (algorithm numbers 1, 2, 9, 10, 11, 12, 14, 0, 99) x every payload bit flip. Round 9: well-formed OpenPGP signature packets of other kinds (certification, subkey binding, standalone) as items."),
 "C03": ("; operation sequences on one live Package (aged versus fresh)", "Also: index orders reversed/rotated, digest length variants (truncated / empty / extended), aged-versus-fresh operation sequences judged on verify_digests. Two-item algorithm arrays ([8,8], [10,8], [8,10]). Tags that are none of the four digests (alternate payload digest, unknown compressor) must not change the verdict; a wrong digest must not pass because its entry has an unusual type. Round 6: a base with an entry of every index type; verify_signature must fail whenever the digests fail. Round 7: one digest replaced by every digest of the package's own bytes (six algorithms x four regions, both cases) and by the correct value changed alike in every pair of positions. Round 9: signature headers that record nothing x payload digest correct / wrong / absent x three algorithm numbers."),
 "C04": ("", "Also: header-declared file sizes that disagree with the archive; every oversized allocation is attributed to its innermost rpm:: call site (known finding: pgp packet parser reached from Verifier::parse_signature, thorough tier). Region-trailer boundary sweep (6 000 inputs); a two-locale i18n seed mutated in the default environment and in worker processes under a German locale. crc-flavoured cpio entries (byte sums passing 2^31 / 2^32), runs of 3 000 and 200 000 entries. An i18n table whose C locale is not first; every file declared huge with the package-level size tags missing. Round 6: files() iterator protocol (size_hint / count / collect); i18n seed with C first. Round 8: every word of the vocabulary of the tags that select a code path x three kinds of payload bytes. Round 9: cpio name fields of NUL bytes; payload digest entries with no, two or mistyped items behind recomputed header digests."),
 "C05": ("", "Also: index entries reversed/rotated, a tag's entry behind the immutable region, HEADERI18NTABLE variants, upper-case hex digests; two deviations in both tiers. Lead fields that contradict the header; the i18n-bearing group a second time in worker processes under a German locale; three deviations in the thorough tier (24.7 M headers). Contradictory entries (digest length vs algorithm) may give an error but never a value the header does not store. Round 7: file digests of the right length that are not hexadecimal (error or stored text). Round 8: 14 valid UTF-8 texts in each of 23 string-bearing tags of a header that declares its encoding (a rejection is a violation); lists of 255-257 members; unread look-alike tags. Round 9: changelog entries that repeat their neighbour."),
 "C06": ("", "Also: user/group owners with hand-given recommends, zoned chrono source dates, every configuration with files or a signature additionally under an interposed early wall clock. Every Dependency constructor; kernel-backed (stat size 0) and symlinked sources. Setters called twice drive the real builder through the same call sequence; sources named relative to the working directory. Special permission bits inherited from sources, link targets on non-links, capabilities on non-regular entries, dependency names colliding with generated ones (~190 setter calls). Round 6: verify flags, multi-clause capability texts with odd white space, scriptlets without a body. Round 7: every permission value 0..07777 for three entry kinds; each dependency kind x 14 constructors x 8 colliding names; a description holding every Unicode scalar value. Round 8: Dependency struct literals with every single flag bit; builders started from Default. Round 9: every subset of the scriptlet flag bits (Some(empty) is not None); names with runs of dots."),
 "C07": ("", "Also: file sets whose paths are prefixes/suffixes/case variants of one another; zstd levels 20-22. Dot-prefixed twins; kernel-backed and symlinked sources. 255 / 256 / 257 / 1000 (thorough 65 536, 65 537) files; relative './.hidden' spellings. Names that look like archive markers (TRAILER!!!); typed entries built from sources with content; destinations not in their shortest form. Round 6: upper-case hexadecimal foreign archives; size ladder 2^13..2^20 (2^24); payloads of 2^27 + 4096 bytes (thorough 2^26..2^30, five compressors). Round 7: a source package with bare, dot-leading entry names; ghost files whose path ends with the path of an archived file. Round 8: files() through nth / skip / step_by / last / count / size_hint agrees with the plain loop. Round 9: the six rpmbuild-made packages against an independent decoding."),
 "C08": ("; exhaustive enumeration of Signing implementations' read patterns and of same-source rewrite sequences", "Also: 3 packages x 4 keys x 7 ways a user-supplied Signing implementation consumes its reader (incl. detached signatures that never read) x {sign, sign_with_timestamp, build_and_sign}; one builder with 2-3 (4) with_file calls from one source path rewritten in between (4 contents x 2 mtimes, all sequences). An entry of each kind x sources with content x compressions x layouts (any recorded digest must match what is archived); signing objects whose recorded header digest is stale or foreign. Same destination for several with_file calls; flush() must reach the wrapped writer. Per-file arrays out of step, a wrong digest algorithm number or an archive entry count that differs from the file list are violations (no silent skips). Round 6: builder-made packages must carry all four digest kinds for every entry with content. Round 8: sources of 16 B .. 8 MiB rewritten, truncated, extended, removed or replaced between with_file and build."),
 "C10": ("", "Also: failed signing attempts (signer returns an error / garbage; protected key without or with a wrong passphrase) must leave the package unchanged; write+parse through 3-byte reads; five keys in the verify matrix. Start states also: foreign assets with each family of signature tags alone, and library-signed packages re-encoded to the header-only RSA/DSA tag layout (254 states quick). Signing operations with valid signatures in foreign subpacket layouts (by primary key or subkey). A sub-check signs with Ed25519 keys generated from fixed seeds (every id with a leading zero digit or a zero byte among them) and requires the full 16-digit key id. Round 6: generated keys with a five-year validity period; main headers of 64 KiB .. 32 MiB (128 MiB). Round 7: 30 payload layouts through one sign / write+parse / re-sign / clear history; every certificate of every key file as a signer. Round 8: 1 536 (8 192) signatures per elliptic-curve key and 24 (512) RSA signatures, incl. the shorter integer encodings. Round 9: state bound of the search (40 000 / 400 000): a history that leaves traces is reported, not run into the memory cap."),
 "C11": ("", "Also: 10 configurations incl. zoned chrono source dates; 256 seeds in the quick tier; cpio entry mtimes. Fresh processes under every single deviation from the default environment (TZ, SOURCE_DATE_EPOCH, locale, account variables, working directory, TMPDIR, umask); duplicate dependencies; 20 000 seeds in the thorough tier. Process history: earlier builds in the same process under a wall clock before / after the source date. Configurations with several optional rpmlib features (zstd + capabilities + large files). Round 7: a configuration with several members of everything (multi-clause capability texts, six dependencies per kind, all scriptlets). Round 8: a builder started from PackageBuilder::default()."),
 "C12": ("", "Current alphabet: 450 single entries (5 directory names x 10 base names x 9 kinds), pairs over 162 (quick) / all (thorough), each as newc and as stripped (large-file) archive; the snapshot compares content, type and permission bits. Dangling-link kind (500 singles, pairs over 189 / all), relative destinations, umask 022/077/000, hidden-name twins; scratch on a memory file system. Thorough: all ordered triples over the reduced alphabet (6.75 M) plus a 60-entry core in both layouts. Benign packages with destinations not in their shortest form, tail-related paths, case variants. Round 6: destination through a symbolic link above the target and a target that exists already and holds outward links; pairs into the relative destination; links outside the target under the alphabet's names; packaged directories that hold packaged entries. Round 7: each of 20 per-file tags of either header replaced by arrays of 0, 1, n-1, n+1, 2n+3 items (no panic, nothing outside). Round 9: entries of one path with contents of different lengths: the extracted file holds one of them."),
 "C13": ("", "Also: numeric segments at the u32/i64/u64/u128 boundaries x leading zeros, epochs with leading zeros. Unicode numerics/letters that rpm treats as separators; EVRs from components containing '-' and ':'. Operands borrowed from one buffer (all substrings of 8 buffers). rpm_evr_compare strings of <= 5 (6) characters. Round 6: runs of 1 000 / 30 000 / 300 000 markers, digits, letters and separators in worker processes (a stack overflow is the violation). Round 7: every Unicode scalar value except NUL in eight roles; NEVRA pairs with rpm-equal but textually different names and architectures. Round 8: runs of letters, digits and zeros of every length 1..40, 63..65, 127..129, 255..257."),
 "C14": ("", "Current bounds: <= 2 (3) deviating answers; plain and vectored writes; subjects whose stores end with each entry type. Refill (and Interrupted) at every byte offset of the metadata (1-, 3-, 8-byte default buffers); path-based I/O incl. named pipes. Sinks behind adapters (holding sinks, BufWriters, the public Sha256Writer): after write()+flush() the destination holds the canonical bytes. Inputs that are not well formed (an item running over its data section) must get the same verdict from a slice, a BufReader and sources delivering 1..1000 bytes per call. Round 6: sinks that are full after n bytes (Ok(0) for ever) must produce an error, not a loop. Round 8: subjects without a single payload byte. Round 9: three small rpmbuild-made subjects; sink-answer exploration also through Sha256Writer (digest = digest of what reached the sink)."),
 "C15": ("", "Also: epochs up to and beyond u32::MAX; texts of length 3..4096 with a multi-byte character straddling each power-of-two boundary. Names containing the package's own version / release / arch / '-V-R.A' text. The empty architecture; equality judged with == and cmp in both operand orders. Components given as owned and as borrowed strings. Round 6: rpm's compressor vocabulary as no-panic input; Display under width / precision / fill / alignment options still parses back. Round 7: zero-padded numeric segments, EVRs without a release, every Unicode scalar value inside the components. Round 8: values from Default::default()."),
 "C16": ("", "Also: the public Header API (clear, new_empty, clear_signatures); entries behind the immutable region; the bytes written to 1-, 3- and 4096-byte plain and vectored sinks equal those written to a Vec. Unknown type numbers; path-based entry points on assets and corpus. Every data type in two-entry indexes of both headers. Headers without index entries, truncations of a region-less package, every lead field. Round 6: section edges as for C01; 128 packages straight from the builder (ordinary and large-file layout): archive magic number at the reported payload offset, payload length equals the in-memory payload. Round 7: the geometry of one entry, as for C01. Round 8: entry counts as for C01; headers overwritten in place with another package's (clone_from). Round 9: every entry count from 0 to 1100."),
 "C17": ("", "Also: pairs of destinations naming the same payload path in two spellings; levels with high bits set (>= 256). Every ordered pair of 164 acceptable destinations; sources of every kind (mtimes 1901..9999, directories, missing paths, dangling / looping links, mode 000, kernel files). Every link-target string of <= 5 (7) tokens at links of three depths. Source names that are not valid UTF-8; FileMode values written with their public fields. Round 6: destinations of 4088..4100 and 255..65 536 bytes in both layouts. Round 7: every Unicode scalar value (quick: BMP) in destinations and metadata texts; scriptlet interpreter lists; 660 destinations around 22 specially treated directories. Round 8: capability tokens cap_, E, P, _v2 judged by the grammar; PackageBuilder::default() finished in five ways."),
 "C19": ("", "Also: every string of <= 6 (7) of 12 characters and <= 5 (6) of 16 characters incl. Unicode white space; long names and many clauses. All 41 capability names in three spellings with five near misses each; FileOptions::caps before / after / around 15 other setters. Letters replaced by characters whose Unicode case mapping is that letter (found and fixed: to_uppercase accepted cap_ſetuid). Round 6: line breaks in the alphabet; texts with leading / trailing white space through a built package. Round 7: every Unicode scalar value in nine roles of a capability text. Round 8: tokens cap_, E, P; near misses with doubled prefixes and extended names."),
 "C09": ("", "Also: in every state of the sign/clear histories, a signing attempt that fails (what the failed call leaves behind must still be a valid package); kernel-backed sources. Round 6: the public SignatureHeaderBuilder driven through every sequence of <= 4 (5) calls (no legacy tag twice; one OpenPGP string per live signature). Round 7: each scriptlet kind x every interpreter list of <= 3 words incl. empty words and the <lua> marker. Round 8: builders started from PackageBuilder::default(). Round 9: LEAD-6, the lead's package type agrees with the header's source marker."),
 "C18": ("", "Constructor results are compared as values (==, Debug, public fields), not only through accessors. Out-of-range results must not equal or hash like the valid mode sharing their low 16 bits. Mode words through the builder (16 type nibbles x 7 permission patterns x {alone, link target, capabilities}); special bits inherited from source files. Round 6: the word in the cpio entry equals the given word for all type nibbles; st_mode of extracted files and directories (incl. a directory that holds packaged entries) equals the packaged word. Round 8: the integer an Invalid value carries (field and error); i32 and u16 spellings of a word give the same value."),
 "C20": ("", "Also: chrono's leap-second representation (ordering clauses only); with_file on real files with 12 boundary mtimes x 4 sub-second offsets incl. error kinds and recorded values. with_file through build(), build_and_sign() and with a far-future source date configured first. Round 6: logarithmic far-future grid, sub-second parts that are multiples of 2^63 / 2^64 units, a zone with an offset transition. Round 7: changelog times x source dates and OpenPGP signature creation times x key creation (recorded-instants). Round 8: changelog sequences with a member outside the range. Round 9: the two kinds of failed conversion are told apart (value, Debug, text of rpm::Error); an out-of-range source date is not accepted silently."),
}

NOT_YET = {}

def main():
    props = [json.loads(l)["id"] for l in open(os.path.join(ROOT, "properties.jsonl"))]
    extra_na = {}
    na_file = os.path.join(ROOT, "tools", "not_applicable.json")
    if os.path.exists(na_file):
        extra_na = json.load(open(na_file))
    checks = []
    na = []
    for p in props:
        if p in CHECKS and p not in extra_na:
            c = dict(CHECKS[p])
            if p in MORE:
                c["technique"] += MORE[p][0]
                c["text"] += " " + MORE[p][1]
            checks.append({
                "property_id": p,
                "quick_cmd": f"./check {p} --tier quick",
                "thorough_cmd": f"./check {p} --tier thorough",
                "evidence_file": f"/verif/evidence/{p}.json",
                "replay_cmd_template": f"./check {p} --replay {{path}}",
                "engine": c["engine"],
                "level_claimed": {"category": c["category"], "text": c["text"], "design_ref": c["ref"]},
                "level_note": c["note"],
                "technique": "model checking: " + c["technique"],
            })
        else:
            na.append({"property_id": p, "reason": extra_na.get(p, "check not built yet in this session (in progress); no claim is made")})
    m = {
        "version": 1,
        "setup_cmd": "./check --build-only",
        "hooks": {
            "guard": "cargo feature `verif-hooks` of the rpm crate (off by default)",
            "enable": "vcheck/Cargo.toml depends on rpm = { path = \"/repo\", features = [\"verif-hooks\"] }; ./check rebuilds from /repo's working tree before every run",
            "baseline_off_cmd": "/verif/tools/repo-test.sh /repo",
            "source_commits": HOOK_COMMITS,
            "add_only": True,
        },
        "engines": [
            {"name": "A", "path": "vlib/src/par.rs, vlib/src/worker.rs, vcheck/src/sweep.rs", "kind_free_text": "exhaustive product / base+deviation enumerator, sharded over threads or crash-isolating worker processes", "serves_properties": [p for p in props if p in CHECKS and CHECKS[p]["engine"].startswith("A")]},
            {"name": "B", "path": "vlib/src/bfs.rs", "kind_free_text": "explicit-state breadth-first search whose transition function is the real API", "serves_properties": [p for p in props if p in CHECKS and "B" in CHECKS[p]["engine"]]},
            {"name": "C", "path": "vlib/src/explore.rs", "kind_free_text": "stateless choice-point explorer with iterative deviation bounding (environment answers)", "serves_properties": [p for p in props if p in CHECKS and "C" in CHECKS[p]["engine"]]},
        ],
        "checks": checks,
        "not_applicable": na,
        "notes": "All checks are bounded exhaustive explorations of the real code (no sampling in a deciding step). Exit 0 held / 1 violation / 2 machinery failure. known_findings.json is read-only at run time.",
    }
    json.dump(m, open(os.path.join(ROOT, "MANIFEST.json"), "w"), indent=1)
    print(f"{len(checks)} checks, {len(na)} not_applicable")

HOOK_COMMITS = []
try:
    import subprocess
    out = subprocess.check_output(["git", "-C", "/repo", "log", "--format=%H %s"]).decode().splitlines()
    HOOK_COMMITS = [l.split()[0] for l in out if l.split(" ", 1)[1].startswith("verif-hooks:")]
except Exception:
    pass

if __name__ == "__main__":
    main()
