#!/usr/bin/env python3
"""Generate /verif/MANIFEST.json from the table below (kept next to the checks it describes)."""
import json, os, sys

ROOT = os.path.dirname(os.path.dirname(os.path.abspath(__file__)))

# id -> (engine, category, technique, text, note, design_ref)
CHECKS = {}
def check(i, engine, category, technique, text, note, ref):
    CHECKS[i] = dict(engine=engine, category=category, technique=technique, text=text, note=note, ref=ref)

check("C01", "A", "exploration",
      "bounded exhaustive enumeration of header/lead/padding shapes (worker processes) against an independent codec",
      "Every point of a finite product of package shapes (lead fields, intro bytes, 1-3 index entries x all 10 types x every in-range offset x counts 0..3 x all 121 stores of <=4 bytes over {00,'a',FF}, every signature-store length mod 8, three payloads) is assembled by the harness's own encoder, parsed and re-written by the real code; the oracle compares bytes, allows only reserved/padding bytes to turn into zero, and checks the parse/write fixpoint. Plus the six assets (also truncated) and a corpus of built/signed/cleared packages.",
      "Trusted: the reference header codec (vlib::refhdr). Headers with more than 3 hand-enumerated entries are covered by assets and corpus only.", "DESIGN.md 3/C01")
check("C03", "A", "exploration",
      "bounded exhaustive enumeration of digest presence/correctness matrix and all single-bit flips against an independent recomputation",
      "10 base packages x every subset of the four digest tags x {correct, wrong first/middle/last} x 10 algorithm numbers, every single-bit flip of two digest-carrying packages (all regions), assets and corpus; oracle recomputes the digests with RustCrypto on byte ranges laid out by the harness and demands an iff.",
      "Trusted: RustCrypto md-5/sha1/sha2, the reference codec. Shapes the statement leaves undefined are not judged.", "DESIGN.md 3/C03")
check("C04", "A", "exploration",
      "bounded exhaustive enumeration of boundary-value headers, every truncation and single-byte substitution of valid packages, hostile cpio archives, in crash/hang-isolating worker processes",
      "Boundary product of intro fields and index entries (type 0..10, offsets/counts at the extremes) for both headers, every truncation and every byte position x 26 (quick) / 255 (thorough) values of four valid packages, two-deviation structural words (thorough), ~1400 hostile cpio archives; every public read-side API is called on each; oracle: no panic (overflow and debug assertions on), no abort, no 10 s stall, allocation <= 1 MiB + 512 x input.",
      "Aborts and hangs are observed via worker processes with a per-request allocation limit; inputs further than two deviations from a valid package are outside the bound.", "DESIGN.md 3/C04, 2.5")
check("C13", "A", "exploration",
      "exhaustive all-pairs enumeration over bounded alphabets against a byte-level port of rpmvercmp and the rank characterisation of a total preorder",
      "All ordered pairs of all strings up to length 3 (quick) / 4 (thorough) over a 12-symbol alphabet incl. a non-ASCII character, longer strings over reduced alphabets, EVR triples, rpm_evr_compare strings and NEVRAs; equality with the reference on every pair and cmp(a,b) == rank(a).cmp(rank(b)) on every pair (sound and complete for reflexive+antisymmetric+transitive, so all triples are decided).",
      "Trusted: the transcription of rpm's rpmvercmp in vlib::vercmp (cross-checked against rpm's own test expectations). Nothing is claimed beyond the length bounds.", "DESIGN.md 3/C13")
check("C15", "A", "exploration",
      "exhaustive enumeration of component tuples and short strings",
      "All 108 864 NEVRA tuples over a small component alphabet (names with '-' and '.'), all EVR tuples, the assets' own NEVRAs, all five compression types, and every string of length <= 6 (8) over {a,1,-,.,:} for the no-panic clause.",
      "Component values a real package can carry: name without ':' not starting with '-'; version/release without '-' and ':'; arch without '.' and '-'.", "DESIGN.md 3/C15")
check("C16", "A", "exploration",
      "exhaustive enumeration of header sizes (every signature padding residue) against the harness's layout and an independent scan",
      "Signature entries 0..3 x signature store length 0..=16 x main entries 0..3 x main store 0..8 x payload {0,1,9} (quick; larger in thorough), assets and corpus.",
      "Trusted: reference codec.", "DESIGN.md 3/C16")
check("C18", "A", "exploration",
      "complete enumeration of the domain",
      "All 65 536 16-bit words in both tiers; all 2^32 i32 values in the thorough tier (a dense window plus every power-of-two neighbourhood in the quick tier).",
      "For -32768..-1 either 'invalid' or the documented bit-pattern reading is accepted.", "DESIGN.md 3/C18")
check("C19", "A", "exploration",
      "exhaustive enumeration of token strings against a hand-written recogniser",
      "Every sequence of <= 6 (quick) / 7 (thorough) tokens over 13 tokens through all four entry points; accepted texts of <= 3/4 tokens also through a built package.",
      "Trusted: the recogniser in vlib::capsref implements the grammar of the statement (group = operator followed by zero or more flags).", "DESIGN.md 3/C19, A.4")
check("C20", "A", "exploration",
      "exhaustive enumeration of instants in windows (quick) and of every second of 0..2^32 (thorough)",
      "Windows of +-4096 s around 0, 2^31, 2^32 x four sub-second offsets x five fixed zones, extremes, and the builder path on real files with boundary mtimes; thorough: every whole second of the range x four sub-second offsets.",
      "Trusted: std SystemTime / chrono arithmetic.", "DESIGN.md 3/C20")

NOT_YET = {}

def main():
    props = [json.loads(l)["id"] for l in open(os.path.join(ROOT, "properties.jsonl"))]
    extra_na = {}
    na_file = os.path.join(ROOT, "tools", "not_applicable.json")
    if os.path.exists(na_file):
        extra_na = json.load(open(na_file))
    checks = []
    na = []
    for p in props:
        if p in CHECKS and p not in extra_na:
            c = CHECKS[p]
            checks.append({
                "property_id": p,
                "quick_cmd": f"./check {p} --tier quick",
                "thorough_cmd": f"./check {p} --tier thorough",
                "evidence_file": f"/verif/evidence/{p}.json",
                "replay_cmd_template": f"./check {p} --replay {{path}}",
                "engine": c["engine"],
                "level_claimed": {"category": c["category"], "text": c["text"], "design_ref": c["ref"]},
                "level_note": c["note"],
                "technique": "model checking: " + c["technique"],
            })
        else:
            na.append({"property_id": p, "reason": extra_na.get(p, "check not built yet in this session (in progress); no claim is made")})
    m = {
        "version": 1,
        "setup_cmd": "./check --build-only",
        "hooks": {
            "guard": "cargo feature `verif-hooks` of the rpm crate (off by default)",
            "enable": "vcheck/Cargo.toml depends on rpm = { path = \"/repo\", features = [\"verif-hooks\"] }; ./check rebuilds from /repo's working tree before every run",
            "baseline_off_cmd": "/verif/tools/repo-test.sh /repo",
            "source_commits": HOOK_COMMITS,
            "add_only": True,
        },
        "engines": [
            {"name": "A", "path": "vlib/src/par.rs, vlib/src/worker.rs, vcheck/src/sweep.rs", "kind_free_text": "exhaustive product / base+deviation enumerator, sharded over threads or crash-isolating worker processes", "serves_properties": [p for p in props if p in CHECKS and CHECKS[p]["engine"].startswith("A")]},
            {"name": "B", "path": "vlib/src/bfs.rs", "kind_free_text": "explicit-state breadth-first search whose transition function is the real API", "serves_properties": [p for p in props if p in CHECKS and "B" in CHECKS[p]["engine"]]},
            {"name": "C", "path": "vlib/src/explore.rs", "kind_free_text": "stateless choice-point explorer with iterative deviation bounding (environment answers)", "serves_properties": [p for p in props if p in CHECKS and "C" in CHECKS[p]["engine"]]},
        ],
        "checks": checks,
        "not_applicable": na,
        "notes": "All checks are bounded exhaustive explorations of the real code (no sampling in a deciding step). Exit 0 held / 1 violation / 2 machinery failure. known_findings.json is read-only at run time.",
    }
    json.dump(m, open(os.path.join(ROOT, "MANIFEST.json"), "w"), indent=1)
    print(f"{len(checks)} checks, {len(na)} not_applicable")

HOOK_COMMITS = []
try:
    import subprocess
    out = subprocess.check_output(["git", "-C", "/repo", "log", "--format=%H %s"]).decode().splitlines()
    HOOK_COMMITS = [l.split()[0] for l in out if l.split(" ", 1)[1].startswith("verif-hooks:")]
except Exception:
    pass

if __name__ == "__main__":
    main()
