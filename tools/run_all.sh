#!/bin/bash
# Run every check at the given tier, print one status line each. Usage: tools/run_all.sh [quick|thorough] [ids...]
cd "$(dirname "$0")/.." || exit 2
TIER=${1:-quick}; shift
IDS=${@:-C01 C02 C03 C04 C05 C06 C07 C08 C09 C10 C11 C12 C13 C14 C15 C16 C17 C18 C19 C20}
./check --build-only || exit 2
for c in $IDS; do
  s=$(date +%s.%N)
  out=$(./check $c --tier $TIER 2>&1); rc=$?
  e=$(date +%s.%N)
  printf "%s rc=%d %.1fs %s\n" $c $rc $(echo "$e - $s" | bc) "$(echo "$out" | grep -E "tier=" | sed 's/.*evaluations/evaluations/' | cut -c1-120)"
  echo "$out" | grep -E "^VIOLATION|^KNOWN-FINDING|MACHINERY" | head -5
done
