#!/usr/bin/env python3
"""(Re)generate /verif/mutants/*.diff from exact string replacements on /repo HEAD. Used by tools/selftest.sh."""
import subprocess, os, sys, json
REPO='/repo'; OUT='/verif/mutants'
M = [
 ("C01-count-from-data", "C01", "src/rpm/headers/header.rs",
  "        out.write_all(&self.num_items.to_be_bytes())?;\n        Ok(())",
  "        out.write_all(&self.data.num_items().to_be_bytes())?;\n        Ok(())",
  "write_index emits the number of decoded items instead of the stored count (differs for STRING entries with count != 1)"),
 ("C02-pgp-tag-header-only", "C02", "src/rpm/package.rs",
  "                verifier.verify(header_and_content_cursor, signature_header_and_content)?;",
  "                let _ = header_and_content_cursor;\n                verifier.verify(header_bytes.as_slice(), signature_header_and_content)?;",
  "the legacy header+payload signature is presented with the header only"),
 ("C02-skip-digests", "C02", "src/rpm/package.rs",
  "        self.metadata.header.write(&mut header_bytes)?;\n        self.verify_digests()?;\n",
  "        self.metadata.header.write(&mut header_bytes)?;\n",
  "verify_signature no longer checks the recorded digests"),
 ("C03-sha1-ignored", "C03", "src/rpm/package.rs",
  "            if sha1_declared != header_digest_sha1 {",
  "            if sha1_declared.len() != header_digest_sha1.len() {",
  "SHA-1 header digest compared by length only"),
 ("C04-as-u32-index", "C04", "src/rpm/headers/header.rs",
  "            IndexData::Int32(s) => s.first().copied(),",
  "            IndexData::Int32(s) => Some(s[0]),",
  "as_u32 indexes the first item of a possibly empty INT32 entry"),
 ("C05-size-truncated", "C05", "src/rpm/package.rs",
  "                            size: size as usize,",
  "                            size: size as u32 as usize,",
  "64-bit file sizes truncated to 32 bits in get_file_entries"),
 ("C06-cookie-as-buildhost", "C06", "src/rpm/builder.rs",
  "            actual_records.push(IndexEntry::new(\n                IndexTag::RPMTAG_COOKIE,",
  "            actual_records.push(IndexEntry::new(\n                IndexTag::RPMTAG_BUILDHOST,",
  "cookie emitted under the BUILDHOST tag"),
 ("C07-pairing-ignores-case", "C07", "src/rpm/payload.rs",
  "                    e.path.strip_prefix(\"/\").unwrap_or(&e.path) == std::path::Path::new(name)",
  "                    e.path.strip_prefix(\"/\").unwrap_or(&e.path).to_string_lossy().eq_ignore_ascii_case(name)",
  "archive entries are paired with header entries by a case-insensitive name comparison"),
 ("C08-digest-first-64k", "C08", "src/rpm/builder.rs",
  "        hasher.update(&content);\n        let hash_result = hasher.finalize();",
  "        hasher.update(&content[..content.len().min(1 << 16)]);\n        let hash_result = hasher.finalize();",
  "file digest computed over the first 64 KiB only"),
 ("C09-sort-after-layout", "C09", "src/rpm/headers/header.rs",
  "        actual_records.sort_by(|e1, e2| e1.tag.cmp(&e2.tag));\n\n        let mut store = Vec::new();\n        for record in &mut actual_records {\n            record.offset = store.len() as i32;\n            let alignment = record.data.append(&mut store);\n            record.offset += alignment as i32;\n        }\n",
  "        let mut store = Vec::new();\n        for record in &mut actual_records {\n            record.offset = store.len() as i32;\n            let alignment = record.data.append(&mut store);\n            record.offset += alignment as i32;\n        }\n        actual_records.sort_by(|e1, e2| e1.tag.cmp(&e2.tag));\n",
  "records sorted by tag after their offsets were assigned (data no longer in index order)"),
 ("C10-resign-appends", "C10", "src/rpm/package.rs",
  "        let sig_header = SignatureHeaderBuilder::new()\n            .set_sha256_digest(&header_digest_sha256)\n            .add_openpgp_signature(header_signature)\n            .build()?;",
  "        let mut sig_builder = SignatureHeaderBuilder::new().set_sha256_digest(&header_digest_sha256);\n        if let Ok(old) = self\n            .metadata\n            .signature\n            .get_entry_data_as_string_array(IndexSignatureTag::RPMSIGTAG_OPENPGP)\n        {\n            for s in old {\n                if let Ok(raw) = decode_sig(s) {\n                    sig_builder = sig_builder.add_openpgp_signature(raw);\n                }\n            }\n        }\n        let sig_header = sig_builder.add_openpgp_signature(header_signature).build()?;",
  "re-signing keeps the previous OpenPGP signatures and appends the new one"),
 ("C11-mtime-not-clamped", "C11", "src/rpm/builder.rs",
  "                Some(d) if d < entry.modified_at => d,\n                _ => entry.modified_at,",
  "                Some(d) if d < entry.modified_at && false => d,\n                _ => entry.modified_at,",
  "file mtimes are never clamped to the source date"),
 ("C12-only-parent-checked", "C12", "src/rpm/package.rs",
  "        current.push(component);\n        if is_symlink(&current) {",
  "        current.push(component);\n        if current == path && is_symlink(&current) {",
  "only the last component is tested for being a symbolic link, not every ancestor"),
 ("C13-case-insensitive-alpha", "C13", "src/version.rs",
  "                    let ordering = prefix1.cmp(prefix2);\n                    if ordering != Ordering::Equal {\n                        return ordering;\n                    }\n                }\n                (Some(_), None) => return Ordering::Less,",
  "                    let ordering = prefix1.to_ascii_lowercase().cmp(&prefix2.to_ascii_lowercase());\n                    if ordering != Ordering::Equal {\n                        return ordering;\n                    }\n                }\n                (Some(_), None) => return Ordering::Less,",
  "alphabetic segments compared case-insensitively"),
 ("C14-store-write", "C14", "src/rpm/headers/header.rs",
  "        out.write_all(&self.store)?;\n        Ok(())",
  "        let _ = out.write(&self.store)?;\n        Ok(())",
  "the header store is written with write() instead of write_all()"),
 ("C15-bzip2-short-name", "C15", "src/rpm/compressor.rs",
  "            Self::Bzip2 => write!(f, \"bzip2\"),\n        }\n    }\n}\n\nimpl std::str::FromStr",
  "            Self::Bzip2 => write!(f, \"bz2\"),\n        }\n    }\n}\n\nimpl std::str::FromStr",
  "CompressionType::Bzip2 prints as 'bz2', which does not parse back"),
 ("C17-filename-unwrap", "C17", "src/rpm/builder.rs",
  "        let base_name = pb\n            .file_name()\n            .ok_or_else(|| Error::InvalidDestinationPath {\n                path: dest.clone(),\n                desc: \"no file name found\",\n            })?\n            .to_string_lossy()\n            .to_string();",
  "        let base_name = pb.file_name().unwrap().to_string_lossy().to_string();",
  "destination without a file name hits unwrap()"),
 ("C18-65535-out-of-range", "C18", "src/rpm/headers/types.rs",
  "        if raw_mode > u16::MAX.into() || raw_mode < i16::MIN.into() {",
  "        if raw_mode >= u16::MAX.into() || raw_mode < i16::MIN.into() {",
  "65535 classified as out of the 16-bit range"),
 ("C19-split-on-space-only", "C19", "src/rpm/filecaps.rs",
  "    for part in s.split_whitespace() {",
  "    for part in s.split(' ').filter(|p| !p.is_empty()) {",
  "clauses are split at spaces only: tab-separated clauses are rejected"),
 ("C20-secs-as-u32", "C20", "src/rpm/timestamp.rs",
  "            .and_then(|t| t.as_secs().try_into().map_err(|_| TimestampError::Overflow))",
  "            .map(|t| t.as_secs() as u32)",
  "SystemTime seconds narrowed with `as u32` (wraps past 2106 instead of reporting overflow)"),
]
def run(*a, **k): return subprocess.run(a, check=True, capture_output=True, text=True, **k)
def main():
    st = run('git','-C',REPO,'status','--porcelain','--untracked-files=no').stdout
    if st.strip(): sys.exit('refusing: /repo has uncommitted changes')
    os.makedirs(OUT, exist_ok=True)
    meta = {}
    for name, prop, f, old, new, what in M:
        p = os.path.join(REPO, f)
        s = open(p).read()
        if s.count(old) != 1:
            print(f"!! {name}: anchor found {s.count(old)} times"); continue
        open(p,'w').write(s.replace(old,new))
        d = run('git','-C',REPO,'diff').stdout
        run('git','-C',REPO,'checkout','--','.')
        open(os.path.join(OUT, name+'.diff'),'w').write(d)
        meta[name] = {"property": prop, "what": what, "file": f}
    json.dump(meta, open(os.path.join(OUT,'mutants.json'),'w'), indent=1)
    print(len(meta),'mutants written')
main()
