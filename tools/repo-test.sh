#!/bin/bash
# Run the pinned test suite (42 tests) of rpm-rs/rpm in DIR (default /repo), hooks OFF.
DIR=${1:-/repo}
cd "$DIR" || exit 2
export CARGO_NET_OFFLINE=true
[ -f Cargo.lock ] || cp /repo/Cargo.lock . 
if [ -f /w/lib/nextest.toml ] && command -v cargo-nextest >/dev/null; then
  cargo nextest run --workspace --no-fail-fast --tool-config-file pb:/w/lib/nextest.toml --profile pb --test-threads 8 --offline 2>&1 | tail -15
  exit ${PIPESTATUS[0]}
else
  cargo test --workspace --no-fail-fast --offline 2>&1 | grep -E "^test result|FAILED|failed" ; exit ${PIPESTATUS[0]}
fi
