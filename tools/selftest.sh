#!/bin/bash
# Demonstrate detection: apply each mutant of /verif/mutants to /repo's working tree, (optionally) run the
# pinned tests, run the property's quick check, expect exit 1, restore the tree.
#   tools/selftest.sh [--tests] [name-filter]
cd /verif || exit 2
TESTS=""; if [ "$1" = "--tests" ]; then TESTS="--tests"; shift; fi
F=${1:-}
pass=0; fail=0
for d in mutants/*.diff; do
  n=$(basename $d .diff)
  [[ -n "$F" && "$n" != *$F* ]] && continue
  prop=${n%%-*}
  res=$(tools/try_patch.sh $d $TESTS $prop 2>&1)
  if echo "$res" | grep -q "^$prop rc=1"; then pass=$((pass+1)); s=DETECTED; else fail=$((fail+1)); s=MISSED; fi
  echo "$s $n :: $(echo "$res" | grep -E "pinned tests|^$prop rc" | tr '\n' ' ' | cut -c1-300)"
done
echo "selftest: $pass detected, $fail missed"
[ $fail = 0 ]
