#!/usr/bin/env python3
"""Regenerate the 'fixed' entries of known_findings.json from /repo's fix: commits.
'known' entries are kept as they are."""
import json, subprocess, os
ROOT = os.path.dirname(os.path.dirname(os.path.abspath(__file__)))
# (subject substring, [(property, what failed)])
MAP = [
 ("validate the leading operator of a capability clause", [("C19", "leading-operator rule tested the whole text instead of the clause ('= +' accepted, 'cap_chown= =' rejected)")]),
 ('parse "none" as CompressionType::None', [("C15", "CompressionType::None prints as \"none\" but \"none\" did not parse")]),
 ("split NEVRA strings from the right", [("C15", "Nevra::parse split at the first '-' (name '389-ds-base-devel' parsed as '389')")]),
 ("check all three bytes of the header intro magic", [("C01", "header intro with a wrong third magic byte was accepted and rewritten on write")]),
 ("do not trust the header intro sizes", [("C04", "intro sizes summed in u32 and a buffer of that size allocated up front (overflow panic / 4 GiB allocation from a 16 byte intro)")]),
 ("offset lies outside the data section", [("C04", "store sliced at a negative / too large entry offset (panic)")]),
 ("skip (and require) the terminator", [("C04", "string array without terminator panics; i18n count loop never advances (hang, unbounded memory)"), ("C05", "second and later strings of an i18n entry were returned empty")]),
 ("check the item count of numeric entries", [("C04", "reserve_exact(count) for numeric entries aborts on huge counts")]),
 ("an i18n entry without items is an error", [("C04", "get_summary / get_description / get_group index [0] of an empty i18n entry"), ("C05", "i18n accessor on an entry with zero items panicked instead of returning an error")]),
 ("verify_digests returns an error for unknown payload digest", [("C03", "unknown payload digest algorithm number panics (expect); empty payload digest array indexed at [0]"), ("C04", "verify_digests panics on unknown algorithm / empty digest array")]),
 ("echo_signature no longer indexes", [("C04", "debug-log helper indexes the first five bytes of short signatures (verify_signature panics with logging enabled)")]),
 ("cpio reader validates the name length", [("C04", "cpio name buffer allocated before the 4096 check; stripped file index used unchecked")]),
 ("SHA-224 file digest has 56 hex digits", [("C05", "get_file_entries failed for SHA-224 file digests (length check 60 instead of 56 hex digits)")]),
 ("verify_signature fails when the OpenPGP tag holds no signature", [("C02", "an OpenPGP signature tag with zero entries made verify_signature succeed without consulting the verifier")]),
 ("the builder writes the packager, the group and the verify scriptlet", [("C06", "packager, group and verify scriptlet given to the builder were silently dropped")]),
 ('get the directory "/" instead of "//"', [("C06", "a file placed directly below the root came back as '//name'")]),
 ("stripped (large file) cpio entries are aligned", [("C07", "stripped entries: reader did not skip the 2 alignment bytes, builder did not pad file data (no large-file package could be read)"), ("C09", "large-file payload data not padded to 4 bytes")]),
 ("files() pairs archive entries with their header entry by name", [("C07", "files() paired the i-th archive entry with the i-th header file (wrong metadata for archives without %ghost entries or in another order)")]),
 ("Sha256Writer hashes only the bytes the inner writer accepted", [("C08", "alternate (uncompressed) payload digest wrong when the encoder accepts only part of a buffer")]),
 ("declare rpmlib(PayloadIsXz)", [("C09", "xz payload without the rpmlib(PayloadIsXz) requirement")]),
 ("empty interpreter list does not emit an empty PROG tag", [("C09", "Scriptlet::prog(vec![]) emitted a header entry with count 0")]),
 ("destinations without a directory or file name part are rejected", [("C17", "destinations such as './', '/usr/..', './..' panicked on unwrap")]),
 ("an xz compression level the encoder refuses is an error", [("C17", "CompressionWithLevel::Xz(10) panicked inside liblzma")]),
 ("a gzip compression level above 9 is an error", [("C17", "CompressionWithLevel::Gzip(level > 10) panicked in flate2 (debug assertion) when the package was built")]),
 ("signature_key_ids checks the issuer count of each signature", [("C10", "signature_key_ids failed on every package signed by this library (tested the accumulated list instead of the new ids)")]),
 ("user and group recommends in a stable order", [("C11", "user()/group() recommends emitted in hash-set iteration order: rebuilds of the same configuration differed")]),
 ("write_all for the index entries", [("C14", "index entries written with write() instead of write_all(): short writes were dropped (truncated output reported as success)")]),
 ("extract refuses paths that leave the target", [("C12", "'..' components in directory or base names wrote outside the target directory; relative (source package) paths made extraction fail")]),
 ("extract does not write through symbolic links", [("C12", "a symbolic link followed by a file of the same path or below it wrote outside the target directory")]),
 ("special files are an error instead of unreachable", [("C12", "file types other than regular/dir/symlink hit unreachable!()")]),
 ("the pgp verifier reads the signed data once", [("C02", "a signature made by a subkey over the EMPTY message whose issuer is named twice verified for any header: the second verification attempt read from the already exhausted reader")]),
 ("capability names are matched ASCII-case-insensitively", [("C19", "names upper-cased with str::to_uppercase: 'cap_ſetuid=p' (long s) and 'cap_dac_overrıde=ep' (dotless i) were accepted and stored verbatim")]),
 ("files() also pairs archive names that start with several slashes", [("C07", "a destination starting with two slashes ('//ns2/y') was accepted by the builder but files() / extract() failed on the resulting package (archive name './/ns2/y' never matched the header path)")]),
 ("extract works for packages without files", [("C12", "extract failed for packages without files (directory names tag absent)")]),
]
def main():
    log = subprocess.check_output(["git", "-C", "/repo", "log", "--format=%h %s"]).decode().splitlines()
    fixes = [(l.split()[0], l.split(" ", 1)[1]) for l in log if l.split(" ", 1)[1].startswith("fix:")]
    path = os.path.join(ROOT, "known_findings.json")
    kf = json.load(open(path)) if os.path.exists(path) else {"findings": []}
    known = [f for f in kf["findings"] if f.get("status") == "known"]
    out = []
    unmatched = []
    for h, subj in reversed(fixes):
        hit = False
        for sub, props in MAP:
            if sub in subj:
                hit = True
                for prop, what in props:
                    out.append({"status": "fixed", "property": prop, "commit": h, "what": f"fixed: property={prop} {h} {what}"})
        if not hit:
            unmatched.append((h, subj))
    kf = {"_comment": "Read-only at run time. 'known' entries suppress exactly the violations whose signature fields equal 'match' and are printed as KNOWN-FINDING lines; 'fixed' entries are documentation and suppress nothing.",
          "findings": known + out}
    json.dump(kf, open(path, "w"), indent=1)
    print(f"{len(out)} fixed entries, {len(known)} known entries; unmatched fix commits: {unmatched}")
main()
