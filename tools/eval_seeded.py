#!/usr/bin/env python3
"""Run the property's own check (quick; thorough if quick misses) against every seeded change and
every own mutant; record the outcome in seeded/<id>/meta.json and print a table."""
import json, os, subprocess, sys, glob
ROOT='/verif'
def run(patch, prop, tier):
    env=dict(os.environ, TIER=tier)
    out=subprocess.run([f'{ROOT}/tools/try_patch.sh', patch, prop], capture_output=True, text=True, env=env).stdout
    line=[l for l in out.splitlines() if l.startswith(prop+' rc=')]
    rc=int(line[0].split('rc=')[1].split()[0]) if line else -1
    first=line[0].split('::',1)[1].strip()[:300] if line and '::' in line[0] else ''
    return rc, first
only=sys.argv[1:] 
rows=[]
for d in sorted(glob.glob(f'{ROOT}/seeded/*/')):
    name=os.path.basename(d.rstrip('/'))
    if only and not any(o in name for o in only): continue
    meta=json.load(open(d+'meta.json'))
    prop=meta['property']
    rc,first=run(d+'patch.diff', prop, 'quick')
    tier='quick'
    if rc!=1 and not os.environ.get('QUICK_ONLY'):
        rc2,first2=run(d+'patch.diff', prop, 'thorough')
        if rc2==1: rc,first,tier=rc2,first2,'thorough'
    meta['detection']={"check":prop,"detected":rc==1,"tier":tier if rc==1 else None,"first_violation":first,
                       "command":f"git -C /repo apply seeded/{name}/patch.diff && ./check {prop} --tier {tier}; git -C /repo checkout -- ."}
    json.dump(meta, open(d+'meta.json','w'), indent=1)
    rows.append((name, rc==1, tier, first[:110]))
    print(name, 'DETECTED' if rc==1 else 'MISSED', tier, first[:140], flush=True)
print(sum(1 for r in rows if r[1]),'of',len(rows),'detected')
