#!/usr/bin/env python3
"""Write the sub-agent prompt of a seeding round for every property to /tmp/wt/<id>-out/PROMPT.txt.

The prompt gives the agent the text of ONE property and its own scratch worktree (/tmp/wt/<id>) and nothing from /verif.
usage: make_prompts.py   (the worktrees /tmp/wt/Cxx and the directories /tmp/wt/Cxx-out must exist)"""
import json
USED_UP = '''boundary values or widths of single integer fields; unsorted / reordered / duplicated / unknown-typed / NULL-typed / CHAR-typed index entries, entries behind the region, region trailer contents, headers without entries, lead fields, padding between the sections, header blobs without a lead; short reads or writes, Interrupted, vectored writes, flush, retry loops, adapters, malformed input read in chunks, named pipes, truncation; values cached on an object or in process-global state, earlier builds in the same process, stale sizes after clear(); multi-byte characters at buffer boundaries, Unicode digits / white space / case-mapping look-alikes, NUL characters, upper-case hexadecimal digits, line breaks and odd white space in texts; locale, i18n table order, SOURCE_DATE_EPOCH, TZ, time zones with offsets or transitions, umask, cargo feature sets; /proc, FIFO, symlinked, relative or non-UTF-8 source files, odd modification times, pre-existing temporary files; the order or repetition of setter calls, the same destination twice, duplicate or colliding dependencies; legacy signature tag layouts, GPG tag, failing or non-draining signers, unusual OpenPGP subpacket layouts, subkeys, key ids with leading zeros, certified or expiring keys, the public SignatureHeaderBuilder used directly, missing payload digest tags; leap seconds, far-future times, sub-second parts; path pairs that are prefixes / suffixes / case variants / hidden twins, non-normalised destinations, very long destinations, marker-like names (TRAILER!!!); many files, very long strings, headers beyond 16 MiB, payloads beyond 128 MiB, file sizes around powers of two; aliased string slices; owned vs borrowed strings; width / precision / alignment format options; Eq/Ord/Hash disagreements; digest or algorithm arrays with several items, digests of the wrong length or type, alternate payload digest; crc cpio entries, long runs of cpio entries, the mode word in the cpio entry; sizes declared by one tag and contradicted elsewhere; 64-bit size tags and their alignment; capabilities or link targets on non-regular entries, typed entries with content, ghost files, special permission bits, verify flags, scriptlets without a body; several rpmlib features at once; rpm's I/O-mode spellings of compressor names; struct-literal file modes; extraction into a destination reached through a symbolic link, given relatively or existing already, directories that hold other packaged entries, links outside the target'''
T = '''You are working in an offline sandbox on a scratch git worktree of the Rust crate rpm-rs/rpm (a pure-Rust library for parsing, building, signing and verifying RPM package files) at /tmp/wt/@ID@. Work ONLY inside /tmp/wt/@ID@ and /tmp/wt/@ID@-out. Do NOT read or use anything under /verif or /repo, and do not touch other /tmp/wt/* directories. There is no network; `cargo` must be used with --offline (a Cargo.lock and a warm target/ directory are already in the worktree).

TASK. Craft TWO independent source changes ("mutations") to the library (files under src/) that each BREAK the semantic property below while
 (a) still compiling,
 (b) passing the existing test suite unchanged: `cd /tmp/wt/@ID@ && cargo nextest run --workspace --no-fail-fast --offline` (42 tests; `cargo test --workspace --offline` is equivalent), and
 (c) looking like a plausible, realistic regression, optimisation, hardening, dependency-API migration or refactoring mistake a maintainer could make (not obvious sabotage, no dead "if input == magic" special cases).
The changes must need something SPECIFIC to manifest and must NOT be exposed by ordinary use. Six earlier rounds of reviewers have used up a great deal, so do NOT rely on any of the following: ''' + USED_UP + '''. Find something genuinely different. Read the code the property is anchored in line by line; good places are: a combination of TWO ordinary features that interact only in one code path (each alone is harmless); a value that is computed twice in two places which must agree; a loop whose body is correct for the first and the last element but not for one in between; an early return or `?` that skips a later step; a conversion between two of the crate's own types that is not the identity for one variant; handling that differs between packages made by this crate's builder and packages made by rpmbuild (the files under tests/assets and test_assets); a public entry point or trait implementation (look at the full public API in src/lib.rs and the re-exports, including Debug/Display/From/TryFrom/Default/Clone/PartialEq impls) that almost nobody calls; what the documentation comments promise. The two mutations must use different mechanisms and different code sites.

@PROPERTY@

DELIVERABLES, for each mutation k in {1,2}, in /tmp/wt/@ID@-out/m<k>/ :
 - patch.diff : `git diff` of the source change only; it must apply with `git apply` to a clean checkout of this worktree's HEAD.
 - demo.rs    : a self-contained Rust integration test (to be copied to tests/demo_@ID@_m<k>.rs; it may use the crate's public API, the files under test_assets/ and tests/assets/, and std only; if it needs the cargo feature `verif-hooks`, say so in run_demo.sh) that PASSES on the unmodified tree and FAILS with the patch applied, thereby demonstrating the property violation.
 - run_demo.sh: `run_demo.sh <worktree-dir>` copies demo.rs into <worktree-dir>/tests/, runs just that test offline, removes it again, and exits 0 if the test passed (property holds) and non-zero if it failed.
 - notes.md   : what was changed, why the 42 existing tests still pass, and a section "## What is needed for the violation to manifest" stating exactly that in 2-6 lines.
You MUST verify yourself, for each mutation: the patch applies; the crate builds; all 42 existing tests pass with the patch; the demo fails with the patch and passes without it.
At the end leave the worktree source clean (`git checkout -- .`, remove demo test files; keep target/ for speed). Temporary files your demo creates must be removed by the demo; do not write anywhere else under /tmp.
Your final answer: a short summary (3-6 lines per mutation) of what each mutation does and what it needs to manifest.
'''
for l in open('/verif/properties.jsonl'):
    p = json.loads(l)
    txt = f"""PROPERTY {p['id']}: {p['title']}

Statement: {p['statement']}

Quantified over: {p['quantifier']['text']}

Code anchors (files): {', '.join(p['anchors']['files'])}
"""
    open(f"/tmp/wt/{p['id']}-out/PROMPT.txt", 'w').write(T.replace('@ID@', p['id']).replace('@PROPERTY@', txt))
print('ok')
