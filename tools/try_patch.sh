#!/bin/bash
# Apply a patch to /repo's working tree, run the given checks (quick unless TIER=thorough), undo the patch.
#   tools/try_patch.sh <patch.diff> [--tests] <Cxx> [<Cyy> ...]
# Prints one line per check: id, exit code (1 = violation reported = detected).
P=$(readlink -f "$1"); shift
TESTS=0; if [ "$1" = "--tests" ]; then TESTS=1; shift; fi
cd /verif || exit 2
if [ -n "$(git -C /repo status --porcelain --untracked-files=no)" ]; then echo "refusing: /repo has uncommitted changes"; exit 2; fi
if ! git -C /repo apply "$P"; then echo "patch does not apply"; exit 2; fi
trap 'git -C /repo checkout -q -- . ; git -C /repo clean -fdq src tests' EXIT
if [ $TESTS = 1 ]; then
  echo "pinned tests: $(/verif/tools/repo-test.sh /repo 2>&1 | grep -E 'Summary|error(\[|:)' | head -3 | tr '\n' ' ')"
fi
for c in "$@"; do
  out=$(./check $c --tier ${TIER:-quick} 2>&1); rc=$?
  echo "$c rc=$rc $(echo "$out" | grep -E '^VIOLATION' | wc -l) violation line(s) :: $(echo "$out" | grep -E '^  subcheck' | head -2 | cut -c1-220 | tr '\n' '|')"
  [ $rc = 2 ] && echo "$out" | grep MACHINERY | head -3
done
