#!/bin/bash
# Step 1 of keeping a seeded change: confirm in its scratch worktree that the patch applies, the pinned
# tests still pass with it, and the demonstration passes without it and fails with it.
#   tools/confirm_seeded.sh <Cxx> <k>        (uses /tmp/wt/<Cxx> and /tmp/wt/<Cxx>-out/m<k>)
ID=$1; K=$2; WT=/tmp/wt/$ID; SRC=/tmp/wt/$ID-out/m$K
OUT=/tmp/wt/$ID-out/m$K/confirm.txt
cd $WT || exit 2
git checkout -q -- . ; git clean -fdq src tests
{
echo "== demo on clean tree"; bash $SRC/run_demo.sh $WT >/tmp/wt/$ID-out/m$K/demo_clean.log 2>&1; echo "demo_clean_rc=$?"
git checkout -q -- . ; git clean -fdq src tests
echo "== apply"; git apply $SRC/patch.diff; echo "apply_rc=$?"
echo "== pinned tests with patch"; /verif/tools/repo-test.sh $WT 2>&1 | grep -E "Summary|error" | head -3
echo "== demo with patch"; bash $SRC/run_demo.sh $WT >/tmp/wt/$ID-out/m$K/demo_patched.log 2>&1; echo "demo_patched_rc=$?"
git checkout -q -- . ; git clean -fdq src tests
} > $OUT 2>&1
cat $OUT | tr '\n' ' '; echo
