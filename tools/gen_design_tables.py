#!/usr/bin/env python3
"""Fill the generated tables of DESIGN.md (fix list from known_findings.json, seeded-change table from seeded/*/meta.json)."""
import json, glob, os, re, subprocess
ROOT=os.path.dirname(os.path.dirname(os.path.abspath(__file__)))
d=open(f'{ROOT}/DESIGN.md').read()
kf=json.load(open(f'{ROOT}/known_findings.json'))
subj={l.split()[0]:l.split(' ',1)[1] for l in subprocess.check_output(['git','-C','/repo','log','--format=%h %s']).decode().splitlines()}
rows=["| property | commit | what failed |","|---|---|---|"]
for f in kf['findings']:
    if f['status']!='fixed': continue
    what=f['what'].split(' ',3)[3] if f['what'].startswith('fixed:') else f['what']
    rows.append(f"| {f['property']} | `{f['commit']}` {subj.get(f['commit'],'')[:70]} | {what} |")
known=[f for f in kf['findings'] if f['status']=='known']
rows.append("")
rows.append(f"Known (unrepaired) findings: {len(known)}.")
_t='<!-- BEGIN:FIXES -->\n'+"\n".join(rows)+'\n<!-- END:FIXES -->'
d=re.sub(r'<!-- BEGIN:FIXES -->.*?<!-- END:FIXES -->',lambda m:_t,d,flags=re.S)
rows=["| change | needs, to manifest | detected by | first violation reported |","|---|---|---|---|"]
for p in sorted(glob.glob(f'{ROOT}/seeded/*/meta.json')):
    m=json.load(open(p)); n=os.path.basename(os.path.dirname(p))
    det=m.get('detection',{})
    by=f"{det.get('check')} {det.get('tier')}" if det.get('detected') else "**missed**"
    fv=det.get('first_violation','')
    fv=fv.split('::')[0].replace('subcheck=','').replace('|',' / ')[:90]
    rows.append(f"| {n} | {m.get('needs_to_manifest','')} | {by} | {fv} |")
_t2='<!-- BEGIN:SEEDED -->\n'+"\n".join(rows)+'\n<!-- END:SEEDED -->'
d=re.sub(r'<!-- BEGIN:SEEDED -->.*?<!-- END:SEEDED -->',lambda m:_t2,d,flags=re.S)
open(f'{ROOT}/DESIGN.md','w').write(d)
print("tables written")
