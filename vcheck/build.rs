fn main() {
    // std looks `getrandom` up with dlsym; exporting our definition makes the
    // lookup find it (std documents this path as allowing interposition).
    println!("cargo:rustc-link-arg-bins=-Wl,--export-dynamic-symbol=getrandom");
    println!("cargo:rustc-link-arg-bins=-Wl,--export-dynamic-symbol=clock_gettime");
}
