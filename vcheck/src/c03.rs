//! C03 — digest verification succeeds exactly when all recorded digests match (engine A).
use crate::common::*;
use crate::common_assets::ASSETS;
use crate::ctx::Ctx;
use crate::oracles::*;
use crate::pkgtool::*;
use crate::spec::*;
use serde_json::{json, Value};
use crate::sweep::{run_sweep, Sweep};
use std::sync::Arc;
use vlib::refhdr::Val;
use vlib::par::{decode, product};
use vlib::report::{Acc, SubReport, Violation};

/// first item in the low half; a non-zero high half adds a second array item (value + 1): [8,8], [10,8], [8,10]
const ALGOS: [u32; 13] = [8, 1, 9, 10, 11, 12, 14, 0, 7, 99, 8 | (9 << 16), 10 | (9 << 16), 8 | (11 << 16)];

fn judge(sub: &str, x: &[u8], rank: u64, case: &dyn Fn() -> Value, acc: &mut Acc) -> Option<DigestVerdict> {
    match parse_pkg(x) {
        Ok(Ok(p)) => {
            let v = oracle_digests(sub, x, &p, rank, case, acc);
            Some(v)
        }
        Ok(Err(k)) => {
            acc.count(&format!("rejected by parser: {}", k));
            None
        }
        Err(_) => {
            acc.count("parse: panic (C04's business)");
            None
        }
    }
}

fn bases(ctx: &Ctx, env: &Env) -> Vec<(String, Parts)> {
    let mut v = vec![("hand-encoded".to_string(), hand_encoded(b"payload!!"))];
    v.push(("hand-encoded-empty-payload".to_string(), hand_encoded(b"")));
    // entries of every data type in the main header (the digests cover the header as it is stored)
    {
        let mut p = hand_encoded(b"typed");
        p.main.push((1029, Val::Char(vec![0, 1, 2])));
        p.main.push((5100, Val::Int8(vec![7, 200])));
        p.main.push((1030, Val::Int16(vec![0o100644, 0o40755])));
        p.main.push((1034, Val::Int32(vec![1, 2])));
        p.main.push((5008, Val::Int64(vec![u64::MAX, 3])));
        p.main.push((1043, Val::Bin(vec![9, 8, 7, 6, 5])));
        p.main.push((1117, Val::strs(&["a", "bc"])));
        p.main.push((1016, Val::i18n(&["g", "gruppe"])));
        p.main.push((5101, Val::Null));
        v.push(("hand-encoded-every-type".to_string(), p));
    }
    let (_, b) = BuildSpec::minimal().build_bytes(env).unwrap_or_else(|e| crate::ctx::machinery(&format!("cannot build base: {}", e)));
    v.push(("built-empty".into(), split(&b).unwrap_or_else(|| crate::ctx::machinery("cannot split built package"))));
    let (_, b) = crate::corpus::one_file().build_bytes(env).unwrap_or_else(|e| crate::ctx::machinery(&format!("cannot build base: {}", e)));
    v.push(("built-one-file".into(), split(&b).unwrap_or_else(|| crate::ctx::machinery("cannot split built package"))));
    for rel in ASSETS {
        let x = std::fs::read(ctx.asset(rel)).unwrap_or_else(|e| crate::ctx::machinery(&format!("{}: {}", rel, e)));
        v.push((rel.to_string(), split(&x).unwrap_or_else(|| crate::ctx::machinery(&format!("cannot split asset {}", rel)))));
    }
    v
}

pub fn sweeps(ctx: &Ctx) -> Vec<Sweep> {
    let env = Env::new(&ctx.repo, "c03");
    let bases = Arc::new(bases(ctx, &env));
    let mut v = vec![];
    // (0) tags that are none of the four standard digests must not change the verdict
    {
        let b0 = bases.clone();
        let rad0 = [bases.len() as u64, 2, 2, 2, 2, 6];
        let n0 = product(&rad0);
        v.push(Sweep::new("unrelated-tags", format!("{} base packages × each of the four digests ∈ {{absent, correct}} × one change to a tag that is none of them: none / alternate (uncompressed) payload digest wrong / absent / payload compressor set to a name this build cannot unpack / payload digest stored as I18NSTRING, right / wrong ({} packages): the first four must verify, a wrong digest must not pass whatever its entry's type", bases.len(), n0), n0, move |i, acc| {
            let d = decode(i, &rad0);
            let pick = |x: u64| if x == 0 { D::Absent } else { D::Correct };
            let plan = DigestPlan { md5: pick(d[1]), sha1: pick(d[2]), sha256: pick(d[3]), payload: pick(d[4]), algo: 8 };
            let mut parts = b0[d[0] as usize].1.clone();
            let what = ["none", "alternate payload digest wrong", "alternate payload digest absent", "payload compressor 'lzma'", "payload digest as I18NSTRING (right)", "payload digest as I18NSTRING (wrong)"][d[5] as usize];
            match d[5] {
                1 => set(&mut parts.main, 5097, Some(Val::strs(&["00000000000000000000000000000000000000000000000000000000deadbeef"]))),
                2 => set(&mut parts.main, 5097, None),
                3 => set(&mut parts.main, 1125, Some(Val::str("lzma"))),
                _ => {}
            }
            acc.evals += 1;
            let (mut x, _) = with_digests(&parts, &plan);
            if d[5] >= 4 {
                if plan.payload == D::Absent {
                    return;
                }
                // re-type the payload digest entry (and falsify it for variant 5), then let the header digests follow
                let mut p2 = split(&x).unwrap_or_else(|| crate::ctx::machinery("c03: cannot split"));
                let cur = get(&p2.main, TAG_PAYLOADDIGEST).cloned();
                if let Some(Val::StrArray(a)) = cur {
                    let mut item = a[0].clone();
                    if d[5] == 5 {
                        item[0] = if item[0] == b'0' { b'1' } else { b'0' };
                    }
                    set(&mut p2.main, TAG_PAYLOADDIGEST, Some(Val::I18n(vec![item])));
                    let plan2 = DigestPlan { md5: plan.md5, sha1: plan.sha1, sha256: plan.sha256, payload: D::Absent, algo: 8 };
                    // payload: D::Absent would drop the tag: keep ours by re-adding it after the header digests are planned
                    let keep = get(&p2.main, TAG_PAYLOADDIGEST).cloned();
                    let keep_algo = Some(Val::Int32(vec![8]));
                    let (y, _) = with_digests_keep(&p2, &plan2, keep, keep_algo);
                    x = y;
                }
            }
            let case = || json!({"bytes_hex": vlib::hex(&x), "base": b0[d[0] as usize].0, "digests(md5,sha1,sha256,payload) 0=absent 1=correct": [d[1], d[2], d[3], d[4]], "changed": what});
            if let Some(vd) = judge("unrelated-tags", &x, i, &case, acc) {
                if !matches!(vd, DigestVerdict::Undefined(_)) {
                    acc.nontrivial += 1;
                }
            }
        }));
    }
    // (a) matrix
    // last axis: index order of (signature, main) header: sorted / reversed / first entry moved last
    const ORDERS: [(u8, u8); 6] = [(0, 0), (1, 0), (2, 0), (0, 1), (1, 1), (2, 2)];
    let rad = [bases.len() as u64, 5, 5, 5, 5, ALGOS.len() as u64, ORDERS.len() as u64];
    let n = product(&rad);
    let rule = format!("{} base packages (2 hand-encoded, built empty, built with a file, 6 assets) × each of MD5 / SHA-1 / SHA-256 / payload SHA-256 ∈ {{absent, correct, wrong in first / middle / last position}} × payload digest algorithm ∈ {:?} (values above 65535 encode two-item arrays [8,8], [10,8], [8,10]: the first item counts); for every third base also with the index entries of either header reversed / rotated (the format does not prescribe an order); oracle: independent recomputation, Ok ⇔ all recorded digests match, mismatch ⇒ DigestMismatchError, algorithm ≠ 8 ⇒ error; non-trivial = reference verdict is not Ok", bases.len(), ALGOS);
    let b2 = bases.clone();
    v.push(Sweep::new("matrix", rule, n, move |i, acc| {
        let bases = &b2;
        let d = decode(i, &rad);
        let plan = DigestPlan { md5: D::from_digit(d[1]), sha1: D::from_digit(d[2]), sha256: D::from_digit(d[3]), payload: D::from_digit(d[4]), algo: ALGOS[d[5] as usize] };
        if plan.payload == D::Absent && d[5] != 0 {
            return; // the algorithm axis only exists when a payload digest is recorded
        }
        let order = ORDERS[d[6] as usize];
        if order != (0, 0) && (d[1] > 2 || d[2] > 2 || d[3] > 2 || d[4] > 2 || d[0] % 3 != 0) {
            return; // unsorted index orders: every third base, digests ∈ {absent, correct, wrong}
        }
        acc.evals += 1;
        let (name, parts) = &bases[d[0] as usize];
        let mut parts = parts.clone();
        parts.order = order;
        let (x, _) = with_digests(&parts, &plan);
        let case = || {
            let mut c = json!({"base": name, "plan": format!("{:?}", plan), "index_order(sig,main: 0 sorted, 1 reversed, 2 rotated)": [order.0, order.1]});
            if x.len() < 4096 {
                c["bytes_hex"] = json!(vlib::hex(&x));
            }
            c
        };
        match judge("matrix", &x, i, &case, acc) {
            Some(DigestVerdict::Undefined(w)) => crate::ctx::machinery(&format!("matrix produced an undefined shape: {}", w)),
            Some(v) => {
                if v != DigestVerdict::Ok {
                    acc.nontrivial += 1;
                }
                acc.sample(i.wrapping_mul(0x9e3779b97f4a7c15), || json!({"base": name, "plan": format!("{:?}", plan), "reference": format!("{:?}", v)}));
            }
            None => acc.viol(Violation::new("matrix", "re-assembled package rejected by the parser", case()).sig("clause", "parse").rank(i)),
        }
    }));

    // (a2) digests of another length than the computed one
    {
        let rad2 = [4u64, 8, 8, 8, 8];
        let n2 = product(&rad2);
        let b3 = bases.clone();
        v.push(Sweep::new("matrix-lengths", "four bases × each digest ∈ {absent, correct, wrong ×3, truncated to half, empty, extended by two characters} (combinations with at least one digest of another length): a recorded digest of a different length never matches".into(), n2, move |i, acc| {
            let d = decode(i, &rad2);
            if d[1..5].iter().all(|x| *x < 5) {
                return;
            }
            acc.evals += 1;
            let plan = DigestPlan { md5: D::from_digit(d[1]), sha1: D::from_digit(d[2]), sha256: D::from_digit(d[3]), payload: D::from_digit(d[4]), algo: 8 };
            let (name, parts) = &b3[d[0] as usize];
            let (x, _) = with_digests(parts, &plan);
            let case = || json!({"base": name, "plan": format!("{:?}", plan), "bytes_hex": if x.len() < 4096 { vlib::hex(&x) } else { String::new() }});
            if let Some(v) = judge("matrix-lengths", &x, i, &case, acc) {
                if v != DigestVerdict::Ok {
                    acc.nontrivial += 1;
                }
                if i % 211 == 0 {
                    acc.sample(i, || json!({"base": name, "plan": format!("{:?}", plan), "reference": format!("{:?}", v)}));
                }
            }
        }));
    }

    // (a2') signature headers that record nothing: no entries at all / only the region entry / only entries that are no digests —
    // the payload digest lives in the main header and must be judged all the same
    {
        use vlib::refhdr::{assemble, RawHeader};
        let b6 = bases.clone();
        const SIGS: [&str; 4] = ["no entries at all (not even a region)", "only the region entry", "only a size entry", "only an unknown entry"];
        let pay = [D::Correct, D::from_digit(2), D::from_digit(3), D::Absent];
        let n = (b6.len().min(5) * SIGS.len() * pay.len() * 3) as u64;
        v.push(Sweep::new("bare-signature-headers", format!("five bases × signature header with {:?} × payload digest ∈ {{correct, wrong in the first / in the middle position, absent}} × payload digest algorithm ∈ {{8, 10 (no support), 1}}: the reference verdict computed from the bytes", SIGS), n, move |i, acc| {
            let algo = [8u32, 10, 1][(i % 3) as usize];
            let p = pay[(i / 3 % 4) as usize];
            let sg = (i / 12 % 4) as usize;
            let (name, parts) = &b6[(i / 48) as usize];
            if p == D::Absent && algo != 8 {
                return;
            }
            acc.evals += 1;
            let (planned, _) = with_digests(parts, &DigestPlan { md5: D::Absent, sha1: D::Absent, sha256: D::Absent, payload: p, algo });
            let Some(q) = split(&planned) else { return };
            let sig = match sg {
                0 => RawHeader::new(vec![], vec![]),
                1 => RawHeader::layout_region(62, &[]),
                2 => RawHeader::layout_region(62, &[(1000, Val::Int32(vec![(q.main_header().encode().len() + q.payload.len()) as u32]))]),
                _ => RawHeader::layout_region(62, &[(999, Val::str("x"))]),
            };
            let (x, _) = assemble(&q.lead, &sig, 0, &q.main_header(), &q.payload);
            let case = || json!({"base": name, "signature_header": SIGS[sg], "payload_digest": format!("{:?}", p), "payload_digest_algorithm": algo, "bytes_hex": if x.len() < 4096 { vlib::hex(&x) } else { String::new() }});
            if let Some(vd) = judge("bare-signature-headers", &x, i, &case, acc) {
                if vd != DigestVerdict::Ok {
                    acc.nontrivial += 1;
                }
                if i % 17 == 0 {
                    acc.sample(i, || json!({"base": name, "signature_header": SIGS[sg], "reference": format!("{:?}", vd)}));
                }
            }
        }));
    }

    // (a3) the value of one digest: every other digest one could compute from the package's own bytes, and the correct
    // value changed in two positions by the same amount
    {
        use sha2::Digest;
        let hx = |b: &[u8]| hex::encode(b);
        let mut cases: Vec<(usize, u32, Val, String)> = vec![];
        for (bi, (_, parts)) in bases.iter().enumerate().take(4) {
            let (good, _) = with_digests(parts, &DigestPlan { md5: D::Correct, sha1: D::Correct, sha256: D::Correct, payload: D::Correct, algo: 8 });
            let Some(g) = split(&good) else { continue };
            let hbytes = g.main_header().encode();
            let both: Vec<u8> = [&hbytes[..], &g.payload[..]].concat();
            let regions: [(&str, &[u8]); 4] = [("the header", &hbytes), ("the payload", &g.payload), ("header + payload", &both), ("nothing", &[])];
            let mut values: Vec<(String, Vec<u8>)> = vec![];
            for (rn, r) in regions {
                values.push((format!("MD5 of {}", rn), md5_raw(&[r])));
                values.push((format!("SHA-1 of {}", rn), sha1::Sha1::digest(r).to_vec()));
                values.push((format!("SHA-224 of {}", rn), sha2::Sha224::digest(r).to_vec()));
                values.push((format!("SHA-256 of {}", rn), sha2::Sha256::digest(r).to_vec()));
                values.push((format!("SHA-384 of {}", rn), sha2::Sha384::digest(r).to_vec()));
                values.push((format!("SHA-512 of {}", rn), sha2::Sha512::digest(r).to_vec()));
            }
            for target in [SIGTAG_MD5, SIGTAG_SHA1, SIGTAG_SHA256, TAG_PAYLOADDIGEST] {
                for (what, raw) in &values {
                    if target == SIGTAG_MD5 {
                        cases.push((bi, target, Val::Bin(raw.clone()), what.clone()));
                        cases.push((bi, target, Val::Bin(hx(raw).into_bytes()), format!("{} as hexadecimal text", what)));
                    } else {
                        for (enc, t) in [("lower-case", hx(raw)), ("upper-case", hx(raw).to_uppercase())] {
                            let v = if target == TAG_PAYLOADDIGEST { Val::strs(&[&t]) } else { Val::str(&t) };
                            cases.push((bi, target, v, format!("{} in {} hexadecimal", what, enc)));
                        }
                    }
                }
                // the correct value with positions i < j changed by the same amount
                let correct: Vec<u8> = match target {
                    SIGTAG_MD5 => md5_raw(&[&hbytes, &g.payload]),
                    SIGTAG_SHA1 => sha1_hex(&hbytes).into_bytes(),
                    SIGTAG_SHA256 => sha256_hex(&hbytes).into_bytes(),
                    _ => sha256_hex(&g.payload).into_bytes(),
                };
                for i in 0..correct.len() {
                    for j in i + 1..correct.len() {
                        for delta in [1u8, 0x80] {
                            // keep texts ASCII
                            if target != SIGTAG_MD5 && delta == 0x80 {
                                continue;
                            }
                            let mut c = correct.clone();
                            c[i] ^= delta;
                            c[j] ^= delta;
                            let v = match target {
                                SIGTAG_MD5 => Val::Bin(c),
                                TAG_PAYLOADDIGEST => Val::strs(&[&String::from_utf8_lossy(&c)]),
                                _ => Val::str(&String::from_utf8_lossy(&c)),
                            };
                            cases.push((bi, target, v, format!("the correct value with positions {} and {} changed by {:#x}", i, j, delta)));
                        }
                    }
                }
            }
        }
        let b5 = bases.clone();
        let n = cases.len() as u64;
        v.push(Sweep::new("digest-values", format!("four bases × one of the four digests replaced ({} packages) by: the MD5 / SHA-1 / SHA-224 / SHA-256 / SHA-384 / SHA-512 of the header, of the payload, of both, of nothing (lower- and upper-case hexadecimal; for the MD5 tag raw and as text) — so also by the right digest of the wrong algorithm or region — and by the correct value changed in every pair of positions by the same amount; the other three digests are correct", n), n, move |i, acc| {
            acc.evals += 1;
            let (bi, target, val, what) = &cases[i as usize];
            let (name, parts) = &b5[*bi];
            let all = DigestPlan { md5: D::Correct, sha1: D::Correct, sha256: D::Correct, payload: D::Correct, algo: 8 };
            let x = if *target == TAG_PAYLOADDIGEST {
                with_digests_keep(parts, &all, Some(val.clone()), Some(Val::Int32(vec![8]))).0
            } else {
                let (good, _) = with_digests(parts, &all);
                let Some(mut g) = split(&good) else { return };
                set(&mut g.sig, *target, Some(val.clone()));
                g.join().0
            };
            let case = || json!({"base": name, "digest_tag": target, "value": what, "bytes_hex": if x.len() < 4096 { vlib::hex(&x) } else { String::new() }});
            if let Some(vd) = judge("digest-values", &x, i, &case, acc) {
                if vd != DigestVerdict::Ok {
                    acc.nontrivial += 1;
                }
                if i % 499 == 0 {
                    acc.sample(i, || json!({"base": name, "digest_tag": target, "value": what, "reference": format!("{:?}", vd)}));
                }
            }
        }));
    }

    // (b) every single-bit flip of two packages carrying digests (all regions)
    let all4 = with_digests(&bases[0].1, &DigestPlan { md5: D::Correct, sha1: D::Correct, sha256: D::Correct, payload: D::Correct, algo: 8 }).0;
    let built = { crate::corpus::one_file().build_bytes(&env).unwrap().1 };
    for (nm, pkg) in [("flips-all-four", all4), ("flips-built", built)] {
        if expected_digest_verdict(&pkg) != DigestVerdict::Ok {
            crate::ctx::machinery("flip seed does not verify by the reference");
        }
        let nbits = (pkg.len() * 8) as u64;
        let rule = format!("every single-bit flip ({} bits) of {}: lead, signature header, padding, main header, payload; oracle: the reference verdict computed from the mutated bytes; non-trivial = accepted by the parser with a reference verdict of mismatch/unsupported", nbits, if nm == "flips-all-four" { "a hand-encoded package recording all four digests" } else { "a library-built package with one file" });
        v.push(Sweep::new(nm, rule, nbits, move |i, acc| {
            acc.evals += 1;
            let mut x = pkg.clone();
            x[(i / 8) as usize] ^= 1 << (i % 8);
            let case = || json!({"bytes_hex": vlib::hex(&x), "flipped_bit": i, "byte": i / 8});
            if let Some(v) = judge(nm, &x, i, &case, acc) {
                if v == DigestVerdict::Mismatch || v == DigestVerdict::Unsupported || v == DigestVerdict::MismatchOrUnsupported {
                    acc.nontrivial += 1;
                }
                if i % 997 == 0 {
                    acc.sample(i, || json!({"flipped_bit": i, "reference": format!("{:?}", v)}));
                }
            }
        }));
    }
    v
}

pub fn run(ctx: &Ctx) -> i32 {
    let mut subs = vec![];
    for s in sweeps(ctx) {
        let (sub, _events) = run_sweep(ctx, &s); // parser crashes on mutated bytes are C04's business (counted in the histogram)
        subs.push(sub);
    }
    subs.push(crate::aging::run(ctx, "object-histories", &["digests"]));
    // digest verification is also the first step of signature verification: a package whose digests do not verify
    // must not verify its signature either, whichever signature tags it carries
    {
        use crate::keys::Key;
        let env = Env::new(&ctx.repo, "c03s");
        let mut acc = Acc::new();
        let mut idx = 0u64;
        for (key, comp) in [(Key::Ed25519, Comp::None), (Key::Ed25519, Comp::Gzip(6)), (Key::Rsa4096, Comp::None)] {
            let mut spec = crate::corpus::one_file();
            spec.sign = Some(key);
            spec.compression = comp;
            let bytes = spec.build_bytes(&env).unwrap_or_else(|e| crate::ctx::machinery(&format!("c03 signed base: {}", e))).1;
            let verifier = key.verifier(&ctx.repo);
            let parts0 = split(&bytes).unwrap_or_else(|| crate::ctx::machinery("c03: cannot split signed base"));
            let l = vlib::refhdr::scan(&bytes).expect("scans").3;
            // (a) the signature header's digests falsified / added wrong (the signed main header is untouched)
            let mut variants: Vec<(String, Vec<u8>)> = vec![("as signed".into(), bytes.clone())];
            for (what, tag, val) in [
                ("header SHA-256 wrong", SIGTAG_SHA256, Val::str("00000000000000000000000000000000000000000000000000000000deadbeef")),
                ("header SHA-1 added, wrong", SIGTAG_SHA1, Val::str("00000000000000000000000000000000deadbeef")),
                ("MD5 added, wrong", SIGTAG_MD5, Val::Bin(vec![0xab; 16])),
            ] {
                let mut p = parts0.clone();
                set(&mut p.sig, tag, Some(val));
                variants.push((what.into(), p.join().0));
            }
            // (b) payload bytes changed behind the signed header (first, middle, last byte)
            let plen = bytes.len() - l.payload_off;
            for pos in [0usize, plen / 2, plen.saturating_sub(1)] {
                if plen == 0 {
                    continue;
                }
                let mut y = bytes.clone();
                y[l.payload_off + pos] ^= 0x01;
                variants.push((format!("payload byte {} of {} changed", pos, plen), y));
            }
            for (what, x) in variants {
                idx += 1;
                acc.evals += 1;
                let case = || json!({"signed_with": key.name(), "compression": format!("{:?}", comp), "modification": what, "bytes_hex": vlib::hex(&x)});
                let Ok(Ok(p)) = parse_pkg(&x) else {
                    acc.count("rejected by the parser");
                    continue;
                };
                let vd = vlib::report::catch(|| p.verify_digests());
                let vs = vlib::report::catch(|| p.verify_signature(&verifier));
                acc.nontrivial += 1;
                acc.count(&format!("verify_digests {} / verify_signature {}", if matches!(vd, Ok(Ok(()))) { "Ok" } else { "Err" }, if matches!(vs, Ok(Ok(()))) { "Ok" } else { "Err" }));
                let want_ok = what == "as signed";
                if matches!(vd, Ok(Ok(()))) != want_ok {
                    acc.viol(Violation::new("signature-path", format!("{}: verify_digests gives {}", what, if want_ok { "an error" } else { "Ok" }), case()).sig("clause", "digest-verdict").rank(idx));
                }
                if matches!(vs, Ok(Ok(()))) != want_ok {
                    acc.viol(Violation::new("signature-path", format!("{}: verify_signature with the signer's key gives {}", what, if want_ok { "an error" } else { "Ok although the digests do not verify" }), case()).sig("clause", if want_ok { "intact-package-rejected" } else { "signature-verifies-despite-digest-mismatch" }).rank(idx));
                }
            }
        }
        subs.push(SubReport::new("signature-path", "A", "packages built and signed by the library (Ed25519 uncompressed / gzip, RSA-4096) with the signature header's digests falsified or added wrong and with payload bytes changed behind the signed header: verify_digests must fail, and verify_signature with the signer's real key must fail too (digest verification is its first step); the untouched package passes both", acc));
    }
    // (c) corpus and assets verify
    let c = crate::corpus::run_corpus(ctx, "corpus", "oracle: reference digest verdict (must be Ok and agree with verify_digests)", &|sub, it, rank, acc| {
        let case = || it.desc.clone();
        match judge(sub, &it.bytes, rank, &case, acc) {
            Some(DigestVerdict::Ok) => {
                acc.nontrivial += 1;
                acc.sample(rank, || json!({"corpus_item": it.desc["spec"]["name"], "history": it.desc["history"]}));
            }
            Some(v) => acc.viol(Violation::new(sub, format!("an emitted package has reference digest verdict {:?}", v), case()).sig("clause", "emitted-digests").rank(rank)),
            None => {}
        }
    });
    subs.push(c);
    let mut d = Acc::new();
    for (k, rel) in ASSETS.iter().enumerate() {
        let x = std::fs::read(ctx.asset(rel)).unwrap();
        d.evals += 1;
        if let Some(v) = judge("assets", &x, k as u64, &|| json!({"asset": rel}), &mut d) {
            if v != DigestVerdict::Ok {
                crate::ctx::machinery(&format!("reference says asset {} has digest verdict {:?}: oracle self-check failed", rel, v));
            }
            d.nontrivial += 1;
            d.sample(k as u64, || json!({"asset": rel, "reference": "Ok"}));
        }
    }
    subs.push(SubReport::new("assets", "A", "the six rpmbuild-produced assets: the reference says Ok (oracle self-check) and verify_digests agrees", d));
    for s in &subs {
        if s.acc.nontrivial == 0 {
            crate::ctx::machinery(&format!("sub-check {} judged nothing: vacuous", s.name));
        }
    }
    ctx.finish(
        "exploration",
        subs,
        &[
            "RustCrypto md-5 / sha1 / sha2 (also used by the library) compute the standard digests",
            "digests are computed over the canonical header serialisation (reserved intro bytes zero), see C01",
            "shapes the statement does not define (digest tag of a non-standard type, payload digest without algorithm tag, zero-length arrays) are not judged here; C04 requires only that they do not crash",
        ],
        vec![],
    )
}

pub fn replay(_ctx: &Ctx, v: &Value) -> i32 {
    replay_bytes(v, &|x, acc| {
        judge("replay", x, 0, &|| json!({}), acc);
    })
}
