//! "Aged versus fresh" histories: every sequence of in-memory operations up to a depth on a
//! long-lived `Package` object (verifications, clone, assignments to its public fields), and after
//! every step the object must answer exactly like a freshly parsed object of the same bytes.
//! The reference model is the implementation itself started from the initial state (the brief's
//! "compare the state reached from the initial state with the state reached from elsewhere"):
//! anything carried between calls — caches, memoised digests — shows up as a difference.
use crate::ctx::Ctx;
use crate::keys::Key;
use crate::oracles::*;
use crate::spec::*;
use rpm::signature::pgp::Verifier;
use serde_json::json;
use vlib::par::par_fold;
use vlib::report::{catch, Acc, SubReport, Violation};

#[derive(Clone, Copy, Debug, PartialEq)]
pub enum Op {
    VerifyDigests,
    VerifySignature,
    Clone,
    ToggleContentByte,
    ToggleHeader,
    ToggleSignatureHeader,
    ToggleContent,
    ToggleWholeMetadata,
}

pub const OPS: [Op; 8] = [Op::VerifyDigests, Op::VerifySignature, Op::Clone, Op::ToggleContentByte, Op::ToggleHeader, Op::ToggleSignatureHeader, Op::ToggleContent, Op::ToggleWholeMetadata];

#[derive(Debug, PartialEq, Clone)]
pub struct Obs {
    digests: String,
    sig_own: String,
    sig_other: String,
    key_ids: String,
}

fn class<T>(r: Result<Result<T, rpm::Error>, vlib::report::Panic>) -> String {
    match r {
        Err(p) => format!("panic at {}", p.location()),
        Ok(Ok(_)) => "Ok".into(),
        Ok(Err(e)) => format!("Err({})", err_kind(&e)),
    }
}

fn observe(p: &rpm::Package, own: &Verifier, other: &Verifier) -> Obs {
    Obs {
        digests: class(catch(|| p.verify_digests())),
        sig_own: class(catch(|| p.verify_signature(own))),
        sig_other: class(catch(|| p.verify_signature(other))),
        key_ids: match catch(|| p.signature_key_ids()) {
            Ok(Ok(v)) => format!("{:?}", v),
            other => class(other),
        },
    }
}

struct Start {
    name: &'static str,
    p: rpm::Package,
    q: rpm::Package,
    own: Verifier,
    other: Verifier,
}

fn apply(op: Op, aged: &mut rpm::Package, s: &Start, toggles: &mut [bool; 5]) {
    match op {
        Op::VerifyDigests => {
            let _ = catch(|| aged.verify_digests());
        }
        Op::VerifySignature => {
            let _ = catch(|| aged.verify_signature(&s.own));
        }
        Op::Clone => {
            let c = aged.clone();
            *aged = c;
        }
        Op::ToggleContentByte => {
            if let Some(b) = aged.content.get_mut(0) {
                *b ^= 1;
            } else {
                aged.content.push(7);
            }
            toggles[0] = !toggles[0];
        }
        Op::ToggleHeader => {
            toggles[1] = !toggles[1];
            aged.metadata.header = if toggles[1] { s.q.metadata.header.clone() } else { s.p.metadata.header.clone() };
        }
        Op::ToggleSignatureHeader => {
            toggles[2] = !toggles[2];
            aged.metadata.signature = if toggles[2] { s.q.metadata.signature.clone() } else { s.p.metadata.signature.clone() };
        }
        Op::ToggleContent => {
            toggles[3] = !toggles[3];
            aged.content = if toggles[3] { s.q.content.clone() } else { s.p.content.clone() };
            toggles[0] = false;
        }
        Op::ToggleWholeMetadata => {
            toggles[4] = !toggles[4];
            aged.metadata = if toggles[4] { s.q.metadata.clone() } else { s.p.metadata.clone() };
            toggles[1] = toggles[4];
            toggles[2] = toggles[4];
        }
    }
}

/// `which`: the observations this property judges ("digests", "signature").
pub fn run(ctx: &Ctx, sub: &str, which: &'static [&'static str]) -> SubReport {
    let env = Env::new(&ctx.repo, "aging");
    let mk = |spec: BuildSpec| spec.build(&env).unwrap_or_else(|e| crate::ctx::machinery(&format!("aging: build: {}", e)));
    let mut one = crate::corpus::one_file();
    one.sign = Some(Key::Ed25519);
    let mut rich = crate::corpus::rich();
    rich.sign = Some(Key::EcdsaP256);
    rich.compression = Comp::Gzip(6);
    let asset = rpm::Package::open(ctx.asset("test_assets/freesrp-udev-0.3.0-1.25.x86_64.rpm")).unwrap_or_else(|e| crate::ctx::machinery(&format!("asset: {}", e)));
    let starts = vec![
        Start { name: "built one-file signed ed25519 ⇄ rich signed ecdsa", p: mk(one.clone()), q: mk(rich.clone()), own: Key::Ed25519.verifier(&ctx.repo), other: Key::EcdsaP256.verifier(&ctx.repo) },
        Start { name: "rich signed ecdsa ⇄ one-file signed ed25519", p: mk(rich), q: mk(one.clone()), own: Key::EcdsaP256.verifier(&ctx.repo), other: Key::Ed25519.verifier(&ctx.repo) },
        Start { name: "foreign asset ⇄ one-file signed ed25519", p: asset, q: mk(one), own: Key::Ed25519.verifier(&ctx.repo), other: Key::Rsa4096.verifier(&ctx.repo) },
    ];
    let depth = if ctx.thorough() { 5 } else { 4 };
    let nops = OPS.len() as u64;
    // sequences of exactly `depth` ops; every prefix is judged on the way (each prefix is thus judged several times; counted once)
    let per = nops.pow(depth as u32);
    let n = starts.len() as u64 * per;
    let acc = crate::common::merge(par_fold(n, Acc::new, |i, acc| {
        let s = &starts[(i / per) as usize];
        let mut code = i % per;
        let mut aged = s.p.clone();
        let mut toggles = [false; 5];
        let mut hist: Vec<String> = vec![];
        for step in 0..depth {
            let op = OPS[(code % nops) as usize];
            code /= nops;
            apply(op, &mut aged, s, &mut toggles);
            hist.push(format!("{:?}", op));
            // judge a prefix only in the sequence where the remaining digits are all zero (counted once)
            if code != 0 && step + 1 < depth {
                continue;
            }
            acc.evals += 1;
            let bytes = match write_pkg(&aged) {
                Ok(b) => b,
                Err(_) => continue,
            };
            let fresh = match parse_pkg(&bytes) {
                Ok(Ok(f)) => f,
                _ => {
                    acc.count("aged object does not re-parse (not judged)");
                    continue;
                }
            };
            let a = observe(&aged, &s.own, &s.other);
            let f = observe(&fresh, &s.own, &s.other);
            acc.nontrivial += 1;
            acc.count(&format!("digests {} / own key {}", f.digests, f.sig_own));
            let case = || json!({"start": s.name, "operations": hist, "aged": format!("{:?}", a), "fresh": format!("{:?}", f)});
            let mut diff = vec![];
            if which.contains(&"digests") && a.digests != f.digests {
                diff.push(("verify_digests", a.digests.clone(), f.digests.clone()));
            }
            if which.contains(&"signature") {
                if a.sig_own != f.sig_own {
                    diff.push(("verify_signature", a.sig_own.clone(), f.sig_own.clone()));
                }
                if a.sig_other != f.sig_other {
                    diff.push(("verify_signature(other key)", a.sig_other.clone(), f.sig_other.clone()));
                }
                if a.key_ids != f.key_ids {
                    diff.push(("signature_key_ids", a.key_ids.clone(), f.key_ids.clone()));
                }
            }
            for (what, av, fv) in diff {
                acc.viol(
                    Violation::new(sub, format!("after {:?} the long-lived object answers {} = {} but a freshly parsed object of the same bytes answers {}", hist, what, av, fv), case())
                        .sig("clause", "answer-depends-on-object-history")
                        .sig("api", what)
                        .rank(hist.len() as u64 * 1_000_000 + i % 1_000_000),
                );
            }
            if hist.len() == 2 && i % 97 == 0 {
                acc.sample(i, case);
            }
        }
    }));
    SubReport::new(
        sub,
        "B (operation sequences on one live object)",
        &format!(
            "{} start pairs × every sequence of ≤ {} operations from {:?} on one long-lived Package (assignments go through its public fields); after every step verify_digests / verify_signature (two keys) / signature_key_ids on the aged object must equal the answers of a freshly parsed object of the same written bytes. non-trivial = judged step",
            starts.len(), depth, OPS
        ),
        acc,
    )
}
