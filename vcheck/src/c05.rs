//! C05 — metadata accessors return exactly what the header stores
//! (engine A: well-formed base header + ≤ k deviations, in worker processes).
use crate::common::*;
use crate::common_assets::ASSETS;
use crate::ctx::Ctx;
use crate::oracles::*;
use crate::sweep::{run_sweep, Sweep};
use rpm::IndexTag as T;
use serde_json::{json, Value};
use std::sync::Arc;
use vlib::refhdr::{assemble, scan, value, RawHeader, RawLead, Val};
use vlib::report::{catch, Acc, SubReport, Violation};

fn t(x: T) -> u32 {
    x as u32
}

const SIG_FILESIGNATURES: u32 = 274;

// ------------------------------------------------------------------ decoded header + reference semantics

pub struct Dec {
    main: Vec<(u32, Val)>,
    sig: Vec<(u32, Val)>,
}

#[derive(Debug, Clone, PartialEq)]
pub enum Exp {
    Ok(Value),
    Err,
    /// the header's entries contradict each other (e.g. a digest whose length does not fit the recorded
    /// algorithm): an error is fine; a value is fine only if it is exactly what the header stores
    ErrOrStored(Value),
    NotJudged(&'static str),
}

fn lossy(b: &[u8]) -> String {
    String::from_utf8_lossy(b).to_string()
}

enum Got<'a> {
    Absent,
    Wrong,
    Val(&'a Val),
}

impl Dec {
    pub fn of(x: &[u8]) -> Option<Dec> {
        let (_, sig, hdr, _) = scan(x)?;
        let dec = |h: &RawHeader| -> Option<Vec<(u32, Val)>> {
            let mut v = vec![];
            for e in &h.entries {
                v.push((e.tag, value(e, &h.store).ok()?));
            }
            Some(v)
        };
        Some(Dec { main: dec(&hdr)?, sig: dec(&sig)? })
    }
    fn first(&self, tag: u32) -> Option<&Val> {
        self.main.iter().find(|(t, _)| *t == tag).map(|(_, v)| v)
    }
    fn sig_first(&self, tag: u32) -> Option<&Val> {
        self.sig.iter().find(|(t, _)| *t == tag).map(|(_, v)| v)
    }
    fn string(&self, tag: u32) -> Exp {
        match self.first(tag) {
            Some(Val::Str(b)) => Exp::Ok(json!(lossy(b))),
            _ => Exp::Err,
        }
    }
    fn i18n_first(&self, tag: u32) -> Exp {
        match self.first(tag) {
            Some(Val::I18n(v)) => match v.first() {
                Some(s) => Exp::Ok(json!(lossy(s))),
                None => Exp::Err,
            },
            _ => Exp::Err,
        }
    }
    fn u32_first(&self, tag: u32) -> Exp {
        match self.first(tag) {
            Some(Val::Int32(v)) if !v.is_empty() => Exp::Ok(json!(v[0])),
            _ => Exp::Err,
        }
    }
    fn strs(&self, tag: u32) -> Got<'_> {
        match self.first(tag) {
            None => Got::Absent,
            Some(v @ (Val::StrArray(_) | Val::I18n(_))) => Got::Val(v),
            Some(_) => Got::Wrong,
        }
    }
    fn u32s(&self, tag: u32) -> Got<'_> {
        match self.first(tag) {
            None => Got::Absent,
            Some(v @ Val::Int32(_)) => Got::Val(v),
            Some(_) => Got::Wrong,
        }
    }
}

fn items(v: &Val) -> Vec<String> {
    match v {
        Val::StrArray(x) | Val::I18n(x) => x.iter().map(|b| lossy(b)).collect(),
        _ => vec![],
    }
}
fn ints(v: &Val) -> Vec<u64> {
    match v {
        Val::Int32(x) => x.iter().map(|y| *y as u64).collect(),
        Val::Int64(x) => x.clone(),
        Val::Int16(x) => x.iter().map(|y| *y as u64).collect(),
        _ => vec![],
    }
}

/// (names, flags/times, versions/texts) triple rule shared by dependencies and changelog.
fn triple(d: &Dec, names: u32, nums: u32, texts: u32, mk: &dyn Fn(&str, u64, &str) -> Value) -> Exp {
    match (d.strs(names), d.u32s(nums), d.strs(texts)) {
        (Got::Absent, Got::Absent, Got::Absent) => Exp::Ok(json!([])),
        (Got::Val(a), Got::Val(b), Got::Val(c)) => {
            let (a, b, c) = (items(a), ints(b), items(c));
            if a.len() != b.len() || b.len() != c.len() {
                return Exp::NotJudged("arrays of unequal length");
            }
            Exp::Ok(Value::Array((0..a.len()).map(|i| mk(&a[i], b[i], &c[i])).collect()))
        }
        _ => Exp::Err,
    }
}

const DEPS: [(&str, T, T, T); 8] = [
    ("get_provides", T::RPMTAG_PROVIDENAME, T::RPMTAG_PROVIDEFLAGS, T::RPMTAG_PROVIDEVERSION),
    ("get_requires", T::RPMTAG_REQUIRENAME, T::RPMTAG_REQUIREFLAGS, T::RPMTAG_REQUIREVERSION),
    ("get_conflicts", T::RPMTAG_CONFLICTNAME, T::RPMTAG_CONFLICTFLAGS, T::RPMTAG_CONFLICTVERSION),
    ("get_obsoletes", T::RPMTAG_OBSOLETENAME, T::RPMTAG_OBSOLETEFLAGS, T::RPMTAG_OBSOLETEVERSION),
    ("get_recommends", T::RPMTAG_RECOMMENDNAME, T::RPMTAG_RECOMMENDFLAGS, T::RPMTAG_RECOMMENDVERSION),
    ("get_suggests", T::RPMTAG_SUGGESTNAME, T::RPMTAG_SUGGESTFLAGS, T::RPMTAG_SUGGESTVERSION),
    ("get_enhances", T::RPMTAG_ENHANCENAME, T::RPMTAG_ENHANCEFLAGS, T::RPMTAG_ENHANCEVERSION),
    ("get_supplements", T::RPMTAG_SUPPLEMENTNAME, T::RPMTAG_SUPPLEMENTFLAGS, T::RPMTAG_SUPPLEMENTVERSION),
];

const SCRIPTS: [(&str, T, T, T); 8] = [
    ("get_pre_install_script", T::RPMTAG_PREIN, T::RPMTAG_PREINFLAGS, T::RPMTAG_PREINPROG),
    ("get_post_install_script", T::RPMTAG_POSTIN, T::RPMTAG_POSTINFLAGS, T::RPMTAG_POSTINPROG),
    ("get_pre_uninstall_script", T::RPMTAG_PREUN, T::RPMTAG_PREUNFLAGS, T::RPMTAG_PREUNPROG),
    ("get_post_uninstall_script", T::RPMTAG_POSTUN, T::RPMTAG_POSTUNFLAGS, T::RPMTAG_POSTUNPROG),
    ("get_pre_trans_script", T::RPMTAG_PRETRANS, T::RPMTAG_PRETRANSFLAGS, T::RPMTAG_PRETRANSPROG),
    ("get_post_trans_script", T::RPMTAG_POSTTRANS, T::RPMTAG_POSTTRANSFLAGS, T::RPMTAG_POSTTRANSPROG),
    ("get_pre_untrans_script", T::RPMTAG_PREUNTRANS, T::RPMTAG_PREUNTRANSFLAGS, T::RPMTAG_PREUNTRANSPROG),
    ("get_post_untrans_script", T::RPMTAG_POSTUNTRANS, T::RPMTAG_POSTUNTRANSFLAGS, T::RPMTAG_POSTUNTRANSPROG),
];

const STRINGS: [(&str, T); 12] = [
    ("get_name", T::RPMTAG_NAME),
    ("get_version", T::RPMTAG_VERSION),
    ("get_release", T::RPMTAG_RELEASE),
    ("get_arch", T::RPMTAG_ARCH),
    ("get_vendor", T::RPMTAG_VENDOR),
    ("get_url", T::RPMTAG_URL),
    ("get_vcs", T::RPMTAG_VCS),
    ("get_license", T::RPMTAG_LICENSE),
    ("get_packager", T::RPMTAG_PACKAGER),
    ("get_build_host", T::RPMTAG_BUILDHOST),
    ("get_cookie", T::RPMTAG_COOKIE),
    ("get_source_rpm", T::RPMTAG_SOURCERPM),
];

fn digest_hex_len(algo: u32) -> Option<usize> {
    match algo {
        1 => Some(32),
        8 => Some(64),
        9 => Some(96),
        10 => Some(128),
        11 => Some(56),
        _ => None,
    }
}

fn exp_file_paths(d: &Dec) -> Exp {
    match (d.strs(t(T::RPMTAG_BASENAMES)), d.u32s(t(T::RPMTAG_DIRINDEXES)), d.strs(t(T::RPMTAG_DIRNAMES))) {
        (Got::Absent, Got::Absent, Got::Absent) => Exp::Ok(json!([])),
        (Got::Val(b), Got::Val(i), Got::Val(dn)) => {
            let (b, i, dn) = (items(b), ints(i), items(dn));
            if b.len() != i.len() {
                return Exp::NotJudged("basenames / dirindexes of unequal length");
            }
            let mut out = vec![];
            for k in 0..b.len() {
                let Some(dir) = dn.get(i[k] as usize) else { return Exp::Err };
                if !dir.ends_with('/') || b[k].starts_with('/') {
                    return Exp::NotJudged("dirname without trailing slash / absolute basename");
                }
                out.push(json!(format!("{}{}", dir, b[k])));
            }
            Exp::Ok(Value::Array(out))
        }
        _ => Exp::Err,
    }
}

fn exp_file_entries(d: &Dec) -> Exp {
    let modes = match d.first(t(T::RPMTAG_FILEMODES)) {
        None => return Exp::Ok(json!([])),
        Some(Val::Int16(m)) => m.clone(),
        Some(_) => return Exp::Err,
    };
    let req_s = |tag: T| match d.strs(t(tag)) {
        Got::Val(v) => Some(items(v)),
        _ => None,
    };
    let req_i = |tag: T| match d.u32s(t(tag)) {
        Got::Val(v) => Some(ints(v)),
        _ => None,
    };
    let sizes = match d.first(t(T::RPMTAG_LONGFILESIZES)) {
        Some(Val::Int64(v)) => Some(v.clone()),
        _ => req_i(T::RPMTAG_FILESIZES),
    };
    let (Some(users), Some(groups), Some(digests), Some(mtimes), Some(sizes), Some(flags), Some(links)) =
        (req_s(T::RPMTAG_FILEUSERNAME), req_s(T::RPMTAG_FILEGROUPNAME), req_s(T::RPMTAG_FILEDIGESTS), req_i(T::RPMTAG_FILEMTIMES), sizes, req_i(T::RPMTAG_FILEFLAGS), req_s(T::RPMTAG_FILELINKTOS))
    else {
        return Exp::Err;
    };
    let caps = match d.strs(t(T::RPMTAG_FILECAPS)) {
        Got::Absent => None,
        Got::Val(v) => Some(items(v)),
        Got::Wrong => return Exp::NotJudged("optional FILECAPS tag with a non-string-array type"),
    };
    let ima = match d.sig_first(SIG_FILESIGNATURES) {
        None => None,
        Some(v @ (Val::StrArray(_) | Val::I18n(_))) => Some(items(v)),
        Some(_) => return Exp::NotJudged("optional file-signature tag with a non-string-array type"),
    };
    let paths = match exp_file_paths(d) {
        Exp::Ok(Value::Array(p)) => p,
        Exp::Err => return Exp::Err,
        other => return other,
    };
    let n = paths.len();
    if [users.len(), groups.len(), modes.len(), digests.len(), mtimes.len(), sizes.len(), flags.len(), links.len()].iter().any(|l| *l != n) {
        return Exp::NotJudged("per-file arrays of unequal length");
    }
    if caps.as_ref().map(|c| c.len() != n).unwrap_or(false) || ima.as_ref().map(|c| c.len() != n).unwrap_or(false) {
        return Exp::NotJudged("optional per-file array shorter or longer than the file list");
    }
    let algo = match d.first(t(T::RPMTAG_FILEDIGESTALGO)) {
        None => 1,
        Some(Val::Int32(v)) if !v.is_empty() => v[0],
        Some(_) => return Exp::NotJudged("file digest algorithm tag of a non-standard type"),
    };
    let mut out = vec![];
    let mut contradictory = false;
    for k in 0..n {
        let digest = if digests[k].is_empty() {
            Value::Null
        } else {
            match digest_hex_len(algo) {
                Some(l) if l == digests[k].len() => {
                    // a text of the right length that is not hexadecimal is not a digest: an error, or the stored text (never another value)
                    if !digests[k].bytes().all(|b| b.is_ascii_hexdigit()) {
                        contradictory = true;
                    }
                    json!({"hex": digests[k], "algo": algo})
                }
                Some(_) => {
                    // the length does not fit the recorded algorithm: an error, or the stored digest under the stored algorithm
                    contradictory = true;
                    json!({"hex": digests[k], "algo": algo})
                }
                None => return Exp::NotJudged("unsupported file digest algorithm"),
            }
        };
        out.push(json!({
            "path": paths[k], "user": users[k], "group": groups[k], "mode": modes[k], "digest": digest,
            "mtime": mtimes[k], "size": sizes[k], "flags": flags[k], "linkto": links[k],
            "caps": caps.as_ref().map(|c| c[k].clone()), "ima": ima.as_ref().map(|c| c[k].clone()),
        }));
    }
    if contradictory {
        return Exp::ErrOrStored(Value::Array(out));
    }
    Exp::Ok(Value::Array(out))
}

/// Expected result of every accessor, by name.
pub fn expected(d: &Dec) -> Vec<(String, Exp)> {
    let mut v: Vec<(String, Exp)> = vec![];
    for (n, tag) in STRINGS {
        v.push((n.to_string(), d.string(t(tag))));
    }
    v.push(("get_summary".into(), d.i18n_first(t(T::RPMTAG_SUMMARY))));
    v.push(("get_description".into(), d.i18n_first(t(T::RPMTAG_DESCRIPTION))));
    v.push(("get_group".into(), d.i18n_first(t(T::RPMTAG_GROUP))));
    v.push(("get_epoch".into(), d.u32_first(t(T::RPMTAG_EPOCH))));
    v.push(("get_build_time".into(), d.u32_first(t(T::RPMTAG_BUILDTIME))));
    v.push((
        "get_installed_size".into(),
        match d.first(t(T::RPMTAG_LONGSIZE)) {
            Some(Val::Int64(x)) if !x.is_empty() => Exp::Ok(json!(x[0])),
            _ => d.u32_first(t(T::RPMTAG_SIZE)),
        },
    ));
    v.push(("is_source_package".into(), Exp::Ok(json!(d.first(t(T::RPMTAG_SOURCEPACKAGE)).is_some()))));
    v.push((
        "get_payload_compressor".into(),
        match d.first(t(T::RPMTAG_PAYLOADCOMPRESSOR)) {
            None => Exp::Ok(json!("none")),
            Some(Val::Str(s)) => match s.as_slice() {
                b"gzip" | b"zstd" | b"xz" | b"bzip2" | b"none" => Exp::Ok(json!(lossy(s))),
                _ => Exp::Err,
            },
            Some(_) => Exp::Err,
        },
    ));
    v.push((
        "get_file_digest_algorithm".into(),
        match d.first(t(T::RPMTAG_FILEDIGESTALGO)) {
            Some(Val::Int32(x)) if !x.is_empty() => {
                if [1u32, 8, 9, 10, 11, 12, 14].contains(&x[0]) {
                    Exp::Ok(json!(x[0]))
                } else {
                    Exp::Err
                }
            }
            _ => Exp::Err,
        },
    ));
    for (n, a, b, c) in DEPS {
        v.push((n.to_string(), triple(d, t(a), t(b), t(c), &|n, f, ver| json!({"name": n, "flags": f, "version": ver}))));
    }
    v.push((
        "get_changelog_entries".into(),
        triple(d, t(T::RPMTAG_CHANGELOGNAME), t(T::RPMTAG_CHANGELOGTIME), t(T::RPMTAG_CHANGELOGTEXT), &|n, ts, d| json!({"name": n, "timestamp": ts, "description": d})),
    ));
    for (n, s, f, p) in SCRIPTS {
        let e = match d.first(t(s)) {
            Some(Val::Str(b)) => {
                let flags = match d.first(t(f)) {
                    Some(Val::Int32(x)) if !x.is_empty() => json!(x[0]),
                    _ => Value::Null,
                };
                let prog = match d.first(t(p)) {
                    Some(v @ (Val::StrArray(_) | Val::I18n(_))) => json!(items(v)),
                    _ => Value::Null,
                };
                Exp::Ok(json!({"script": lossy(b), "flags": flags, "program": prog}))
            }
            _ => Exp::Err,
        };
        v.push((n.to_string(), e));
    }
    v.push(("get_file_paths".into(), exp_file_paths(d)));
    v.push(("get_file_entries".into(), exp_file_entries(d)));
    v
}

// ------------------------------------------------------------------ what the library returns

fn lib_dep(r: Result<Vec<rpm::Dependency>, rpm::Error>) -> Result<Value, String> {
    r.map(|v| Value::Array(v.iter().map(|d| json!({"name": d.name, "flags": d.flags.bits(), "version": d.version})).collect()))
        .map_err(|e| err_kind(&e))
}

fn lib_script(r: Result<rpm::Scriptlet, rpm::Error>) -> Result<Value, String> {
    r.map(|s| json!({"script": s.script, "flags": s.flags.map(|f| f.bits()), "program": s.program})).map_err(|e| err_kind(&e))
}

pub fn observed(m: &rpm::PackageMetadata, name: &str) -> Result<Value, String> {
    let s = |r: Result<&str, rpm::Error>| r.map(|x| json!(x)).map_err(|e| err_kind(&e));
    match name {
        "get_name" => s(m.get_name()),
        "get_version" => s(m.get_version()),
        "get_release" => s(m.get_release()),
        "get_arch" => s(m.get_arch()),
        "get_vendor" => s(m.get_vendor()),
        "get_url" => s(m.get_url()),
        "get_vcs" => s(m.get_vcs()),
        "get_license" => s(m.get_license()),
        "get_packager" => s(m.get_packager()),
        "get_build_host" => s(m.get_build_host()),
        "get_cookie" => s(m.get_cookie()),
        "get_source_rpm" => s(m.get_source_rpm()),
        "get_summary" => s(m.get_summary()),
        "get_description" => s(m.get_description()),
        "get_group" => s(m.get_group()),
        "get_epoch" => m.get_epoch().map(|x| json!(x)).map_err(|e| err_kind(&e)),
        "get_build_time" => m.get_build_time().map(|x| json!(x)).map_err(|e| err_kind(&e)),
        "get_installed_size" => m.get_installed_size().map(|x| json!(x)).map_err(|e| err_kind(&e)),
        "is_source_package" => Ok(json!(m.is_source_package())),
        "get_payload_compressor" => m.get_payload_compressor().map(|x| json!(x.to_string())).map_err(|e| err_kind(&e)),
        "get_file_digest_algorithm" => m.get_file_digest_algorithm().map(|x| json!(x as u32)).map_err(|e| err_kind(&e)),
        "get_provides" => lib_dep(m.get_provides()),
        "get_requires" => lib_dep(m.get_requires()),
        "get_conflicts" => lib_dep(m.get_conflicts()),
        "get_obsoletes" => lib_dep(m.get_obsoletes()),
        "get_recommends" => lib_dep(m.get_recommends()),
        "get_suggests" => lib_dep(m.get_suggests()),
        "get_enhances" => lib_dep(m.get_enhances()),
        "get_supplements" => lib_dep(m.get_supplements()),
        "get_changelog_entries" => m
            .get_changelog_entries()
            .map(|v| Value::Array(v.iter().map(|c| json!({"name": c.name, "timestamp": c.timestamp, "description": c.description})).collect()))
            .map_err(|e| err_kind(&e)),
        "get_pre_install_script" => lib_script(m.get_pre_install_script()),
        "get_post_install_script" => lib_script(m.get_post_install_script()),
        "get_pre_uninstall_script" => lib_script(m.get_pre_uninstall_script()),
        "get_post_uninstall_script" => lib_script(m.get_post_uninstall_script()),
        "get_pre_trans_script" => lib_script(m.get_pre_trans_script()),
        "get_post_trans_script" => lib_script(m.get_post_trans_script()),
        "get_pre_untrans_script" => lib_script(m.get_pre_untrans_script()),
        "get_post_untrans_script" => lib_script(m.get_post_untrans_script()),
        "get_file_paths" => m
            .get_file_paths()
            .map(|v| Value::Array(v.iter().map(|p| json!(p.to_string_lossy())).collect()))
            .map_err(|e| err_kind(&e)),
        "get_file_entries" => m
            .get_file_entries()
            .map(|v| {
                Value::Array(
                    v.iter()
                        .map(|f| {
                            json!({
                                "path": f.path.to_string_lossy(), "user": f.ownership.user, "group": f.ownership.group,
                                "mode": f.mode.raw_mode(),
                                "digest": f.digest.as_ref().map(|d| json!({"hex": d.as_hex(), "algo": d.algorithm() as u32})),
                                "mtime": f.modified_at.0, "size": f.size as u64, "flags": f.flags.bits(), "linkto": f.linkto,
                                "caps": f.caps, "ima": f.ima_signature,
                            })
                        })
                        .collect(),
                )
            })
            .map_err(|e| err_kind(&e)),
        _ => Err("unknown accessor".into()),
    }
}

/// Compare every accessor in `which` (None = all) on an accepted package.
pub fn judge(sub: &str, x: &[u8], which: Option<&[&str]>, rank: u64, case: &dyn Fn() -> Value, acc: &mut Acc) -> bool {
    let p = match parse_pkg(x) {
        Ok(Ok(p)) => p,
        Ok(Err(k)) => {
            acc.count(&format!("rejected by parser: {}", k));
            return false;
        }
        Err(_) => {
            acc.count("parse: panic (C04's business)");
            return false;
        }
    };
    let Some(d) = Dec::of(x) else {
        acc.count("accepted but not well-formed by the reference decoder (not judged)");
        return false;
    };
    let mut judged = 0;
    for (name, exp) in expected(&d) {
        if let Some(w) = which {
            if !w.contains(&name.as_str()) {
                continue;
            }
        }
        let got = match catch(|| observed(&p.metadata, &name)) {
            Ok(g) => g,
            Err(pn) => {
                acc.viol(panic_violation(sub, &pn, case()).sig("accessor", name.clone()).rank(rank));
                continue;
            }
        };
        match (&exp, &got) {
            (Exp::NotJudged(w), _) => acc.count(&format!("not judged: {}", w)),
            (Exp::Ok(e), Ok(g)) if e == g => judged += 1,
            (Exp::Err, Err(_)) => judged += 1,
            (Exp::ErrOrStored(_), Err(_)) => judged += 1,
            (Exp::ErrOrStored(e), Ok(g)) if e == g => judged += 1,
            _ => {
                let kind = match (&exp, &got) {
                    (Exp::Ok(_), Ok(_)) => "wrong-value",
                    (Exp::Ok(_), Err(_)) => "error-for-well-formed-header",
                    _ => "made-up-value",
                };
                acc.viol(
                    Violation::new(sub, format!("{}: the header says {:?}, the accessor returned {:?}", name, exp, got), case())
                        .sig("clause", kind)
                        .sig("accessor", name.clone())
                        .rank(rank),
                );
            }
        }
    }
    acc.count_n("accessor results compared", judged);
    true
}

// ------------------------------------------------------------------ typed getters on the raw header

fn judge_typed(sub: &str, x: &[u8], tags: &[u32], rank: u64, case: &dyn Fn() -> Value, acc: &mut Acc) {
    let Ok(Ok(p)) = parse_pkg(x) else { return };
    let Some(d) = Dec::of(x) else { return };
    let h = &p.metadata.header;
    for &tag in tags {
        let Some(tg) = <T as num_from::FromU32>::from_u32(tag) else { continue };
        let v = d.first(tag);
        let checks: Vec<(&str, Exp, Result<Value, String>)> = vec![
            ("as_binary", match v { Some(Val::Bin(b)) => Exp::Ok(json!(b)), _ => Exp::Err }, h.get_entry_data_as_binary(tg).map(|b| json!(b)).map_err(|e| err_kind(&e))),
            ("as_string", match v { Some(Val::Str(b)) => Exp::Ok(json!(lossy(b))), _ => Exp::Err }, h.get_entry_data_as_string(tg).map(|b| json!(b)).map_err(|e| err_kind(&e))),
            ("as_i18n_string", match v { Some(Val::I18n(b)) if !b.is_empty() => Exp::Ok(json!(lossy(&b[0]))), _ => Exp::Err }, h.get_entry_data_as_i18n_string(tg).map(|b| json!(b)).map_err(|e| err_kind(&e))),
            ("as_u16_array", match v { Some(Val::Int16(b)) => Exp::Ok(json!(b)), _ => Exp::Err }, h.get_entry_data_as_u16_array(tg).map(|b| json!(b)).map_err(|e| err_kind(&e))),
            ("as_u32", match v { Some(Val::Int32(b)) if !b.is_empty() => Exp::Ok(json!(b[0])), _ => Exp::Err }, h.get_entry_data_as_u32(tg).map(|b| json!(b)).map_err(|e| err_kind(&e))),
            ("as_u32_array", match v { Some(Val::Int32(b)) => Exp::Ok(json!(b)), _ => Exp::Err }, h.get_entry_data_as_u32_array(tg).map(|b| json!(b)).map_err(|e| err_kind(&e))),
            ("as_u64", match v { Some(Val::Int64(b)) if !b.is_empty() => Exp::Ok(json!(b[0])), _ => Exp::Err }, h.get_entry_data_as_u64(tg).map(|b| json!(b)).map_err(|e| err_kind(&e))),
            ("as_u64_array", match v { Some(Val::Int64(b)) => Exp::Ok(json!(b)), _ => Exp::Err }, h.get_entry_data_as_u64_array(tg).map(|b| json!(b)).map_err(|e| err_kind(&e))),
            ("as_string_array", match v { Some(x @ (Val::StrArray(_) | Val::I18n(_))) => Exp::Ok(json!(items(x))), _ => Exp::Err }, h.get_entry_data_as_string_array(tg).map(|b| json!(b)).map_err(|e| err_kind(&e))),
        ];
        for (g, exp, got) in checks {
            let ok = match (&exp, &got) {
                (Exp::Ok(e), Ok(x)) => e == x,
                (Exp::Err, Err(_)) => true,
                _ => false,
            };
            if !ok {
                acc.viol(Violation::new(sub, format!("get_entry_data_{}(tag {}): header says {:?}, getter returned {:?}", g, tag, exp, got), case()).sig("clause", "typed-getter").sig("accessor", g).rank(rank));
            }
            if h.entry_is_present(tg) != v.is_some() {
                acc.viol(Violation::new(sub, format!("entry_is_present(tag {}) disagrees with the header", tag), case()).sig("clause", "entry_is_present").rank(rank));
            }
        }
        acc.count_n("typed getter results compared", 9);
    }
}

mod num_from {
    /// IndexTag derives num::FromPrimitive; re-expose from_u32 without importing the trait crate.
    pub trait FromU32: Sized {
        fn from_u32(x: u32) -> Option<Self>;
    }
    impl FromU32 for rpm::IndexTag {
        fn from_u32(x: u32) -> Option<Self> {
            // IndexTag is #[repr(u32)]-like with explicit discriminants; go through its Display-free table
            crate::c05::ALL_TAGS.iter().copied().find(|t| *t as u32 == x)
        }
    }
}

// ------------------------------------------------------------------ base header and deviations

pub fn base_records() -> Vec<(u32, Val)> {
    let mut r: Vec<(u32, Val)> = vec![
        (t(T::RPMTAG_HEADERI18NTABLE), Val::strs(&["C"])),
        (t(T::RPMTAG_NAME), Val::str("nm")),
        (t(T::RPMTAG_VERSION), Val::str("1.2")),
        (t(T::RPMTAG_RELEASE), Val::str("3.el")),
        (t(T::RPMTAG_ARCH), Val::str("arm")),
        (t(T::RPMTAG_VENDOR), Val::str("vnd")),
        (t(T::RPMTAG_URL), Val::str("http://u")),
        (t(T::RPMTAG_VCS), Val::str("git:v")),
        (t(T::RPMTAG_LICENSE), Val::str("lic")),
        (t(T::RPMTAG_PACKAGER), Val::str("pkgr")),
        (t(T::RPMTAG_BUILDHOST), Val::str("bh")),
        (t(T::RPMTAG_COOKIE), Val::str("ck")),
        (t(T::RPMTAG_SOURCERPM), Val::str("s.src.rpm")),
        (t(T::RPMTAG_SUMMARY), Val::i18n(&["sum"])),
        (t(T::RPMTAG_DESCRIPTION), Val::i18n(&["desc", "beschreibung"])),
        (t(T::RPMTAG_GROUP), Val::i18n(&["grp"])),
        (t(T::RPMTAG_EPOCH), Val::Int32(vec![0x0102_0304])),
        (t(T::RPMTAG_BUILDTIME), Val::Int32(vec![0x0506_0708])),
        (t(T::RPMTAG_SIZE), Val::Int32(vec![0x090a_0b0c])),
        (t(T::RPMTAG_PAYLOADCOMPRESSOR), Val::str("gzip")),
        (t(T::RPMTAG_FILEDIGESTALGO), Val::Int32(vec![8])),
        (t(T::RPMTAG_CHANGELOGNAME), Val::strs(&["A <a@x> - 1", "B <b@x> - 0"])),
        (t(T::RPMTAG_CHANGELOGTIME), Val::Int32(vec![0x6162_6364, 0x5152_5354])),
        (t(T::RPMTAG_CHANGELOGTEXT), Val::strs(&["- one", "- two\n- lines"])),
        // files
        (t(T::RPMTAG_BASENAMES), Val::strs(&["f1", "f2", "l3"])),
        (t(T::RPMTAG_DIRNAMES), Val::strs(&["/etc/", "/usr/bin/"])),
        (t(T::RPMTAG_DIRINDEXES), Val::Int32(vec![0, 1, 1])),
        (t(T::RPMTAG_FILEMODES), Val::Int16(vec![0o100644, 0o100755, 0o120777])),
        (t(T::RPMTAG_FILEUSERNAME), Val::strs(&["root", "u2", "u3"])),
        (t(T::RPMTAG_FILEGROUPNAME), Val::strs(&["g1", "root", "g3"])),
        (t(T::RPMTAG_FILEDIGESTS), Val::strs(&[&"a1".repeat(32), &"b2".repeat(32), ""])),
        (t(T::RPMTAG_FILEMTIMES), Val::Int32(vec![0x1112_1314, 0x2122_2324, 0x3132_3334])),
        (t(T::RPMTAG_FILESIZES), Val::Int32(vec![0x0100_0002, 7, 2])),
        (t(T::RPMTAG_FILEFLAGS), Val::Int32(vec![1, 0x8000_0000, 0x40])),
        (t(T::RPMTAG_FILELINKTOS), Val::strs(&["", "", "f2"])),
    ];
    for (k, (_, a, b, c)) in DEPS.iter().enumerate() {
        r.push((t(*a), Val::strs(&[&format!("dep{}a", k), &format!("dep{}b", k)])));
        r.push((t(*b), Val::Int32(vec![0x0100_0008 + k as u32, 0x0c])));
        r.push((t(*c), Val::strs(&[&format!("{}.1", k), ""])));
    }
    for (k, (_, s, f, p)) in SCRIPTS.iter().enumerate() {
        r.push((t(*s), Val::str(&format!("echo script{}", k))));
        r.push((t(*f), Val::Int32(vec![1 + k as u32])));
        r.push((t(*p), Val::strs(&["/bin/sh", &format!("-c{}", k)])));
    }
    r
}

fn many_files(n: usize) -> Dev {
    let s = |f: &dyn Fn(usize) -> String| Val::StrArray((0..n).map(|k| f(k).into_bytes()).collect());
    Dev::Multi(vec![
        Dev::Set(t(T::RPMTAG_BASENAMES), s(&|k| format!("f{}", k))),
        Dev::Set(t(T::RPMTAG_DIRNAMES), s(&|k| format!("/d{}/", k))),
        Dev::Set(t(T::RPMTAG_DIRINDEXES), Val::Int32((0..n as u32).rev().collect())),
        Dev::Set(t(T::RPMTAG_FILEMODES), Val::Int16((0..n).map(|k| 0o100000 | (k as u16 & 0o777)).collect())),
        Dev::Set(t(T::RPMTAG_FILEUSERNAME), s(&|k| format!("u{}", k))),
        Dev::Set(t(T::RPMTAG_FILEGROUPNAME), s(&|k| format!("g{}", k))),
        Dev::Set(t(T::RPMTAG_FILEDIGESTS), s(&|k| format!("{:064x}", k))),
        Dev::Set(t(T::RPMTAG_FILEMTIMES), Val::Int32((0..n as u32).collect())),
        Dev::Set(t(T::RPMTAG_FILESIZES), Val::Int32((0..n as u32).map(|k| k * 3).collect())),
        Dev::Set(t(T::RPMTAG_FILEFLAGS), Val::Int32((0..n as u32).map(|k| k % 2).collect())),
        Dev::Set(t(T::RPMTAG_FILELINKTOS), s(&|_| String::new())),
    ])
}

#[derive(Clone, Debug)]
pub enum Dev {
    Drop(u32),
    Retype(u32, u32),
    Count(u32, u32),
    Set(u32, Val),
    SigSet(u32, Option<Val>),
    /// several record-level edits that only make sense together
    Multi(Vec<Dev>),
    /// permute the index entries of the main header (1 reversed, 2 first entry moved last); the store is untouched
    Reorder(u8),
    /// the tag's entry sits behind the immutable region (appended like rpm appends install-time tags)
    Behind(u32),
    /// fields of the (obsolete) lead: package type, architecture number, OS number — no accessor reads the lead
    Lead(u16, u16, u16),
}

fn variants(v: &Val) -> Vec<Val> {
    let s = |x: &[u8]| x.to_vec();
    match v {
        Val::Str(_) => vec![Val::Str(s(b"")), Val::Str(s(b"a")), Val::Str("ünï✓".as_bytes().to_vec()), Val::Str(vec![0xff, 0xfe, b'x'])],
        Val::StrArray(x) => {
            let mut longer = x.clone();
            longer.push(s(b"extra"));
            let mut shorter = x.clone();
            shorter.pop();
            vec![Val::StrArray(vec![]), Val::StrArray(longer), Val::StrArray(shorter), Val::StrArray(x.iter().map(|_| vec![0xc3, 0x28]).collect()), Val::StrArray(x.iter().map(|_| vec![]).collect())]
        }
        Val::I18n(_) => vec![Val::i18n(&["one"]), Val::i18n(&["one", "zwei"]), Val::i18n(&["one", "zwei", "trois"]), Val::I18n(vec![]), Val::I18n(vec![vec![0xff], b"ok".to_vec()])],
        Val::Int32(x) => {
            let mut longer = x.clone();
            longer.push(0xdead_beef);
            vec![Val::Int32(vec![]), Val::Int32(longer), Val::Int32(x.iter().map(|y| y ^ 0xffff_0000).collect())]
        }
        Val::Int16(x) => vec![Val::Int16(vec![]), Val::Int16(x.iter().map(|y| y ^ 0o1111).collect())],
        _ => vec![],
    }
}

/// deviation menu over the given tags of the base header
fn menu(base: &[(u32, Val)], tags: &[u32]) -> Vec<Dev> {
    let mut m = vec![];
    for &tag in tags {
        let Some((_, v)) = base.iter().find(|(t, _)| *t == tag) else { continue };
        m.push(Dev::Drop(tag));
        for ty in 0..10u32 {
            if ty != v.ty() {
                m.push(Dev::Retype(tag, ty));
            }
        }
        let n = v.count();
        for c in [0, n.saturating_sub(1), n + 1] {
            if c != n {
                m.push(Dev::Count(tag, c));
            }
        }
        for alt in variants(v) {
            m.push(Dev::Set(tag, alt));
        }
    }
    m
}

fn build(base: &[(u32, Val)], devs: &[&Dev]) -> Vec<u8> {
    let mut recs = base.to_vec();
    let mut sig: Vec<(u32, Val)> = vec![];
    let mut flat: Vec<&Dev> = vec![];
    for d in devs {
        match d {
            Dev::Multi(v) => flat.extend(v.iter()),
            d => flat.push(d),
        }
    }
    let devs = &flat;
    for d in devs.iter() {
        match d {
            Dev::Drop(t) => recs.retain(|(x, _)| x != t),
            Dev::Set(t, v) => {
                for r in recs.iter_mut() {
                    if r.0 == *t {
                        r.1 = v.clone();
                    }
                }
                if !recs.iter().any(|(x, _)| x == t) {
                    recs.push((*t, v.clone()));
                }
            }
            Dev::SigSet(t, v) => {
                sig.retain(|(x, _)| x != t);
                if let Some(v) = v {
                    sig.push((*t, v.clone()));
                }
            }
            _ => {}
        }
    }
    let behind: Vec<u32> = devs.iter().filter_map(|d| if let Dev::Behind(t) = d { Some(*t) } else { None }).collect();
    let mut h = if behind.is_empty() {
        RawHeader::layout_region(63, &recs)
    } else {
        let inside: Vec<(u32, Val)> = recs.iter().filter(|(t, _)| !behind.contains(t)).cloned().collect();
        let outside: Vec<(u32, Val)> = recs.iter().filter(|(t, _)| behind.contains(t)).cloned().collect();
        RawHeader::layout_region_dribble(63, &inside, &outside)
    };
    for d in devs.iter() {
        match d {
            Dev::Retype(t, ty) => {
                for e in h.entries.iter_mut().skip(1) {
                    if e.tag == *t {
                        e.ty = *ty;
                    }
                }
            }
            Dev::Count(t, c) => {
                for e in h.entries.iter_mut().skip(1) {
                    if e.tag == *t {
                        e.count = *c;
                    }
                }
            }
            _ => {}
        }
    }
    for d in devs.iter() {
        if let Dev::Reorder(k) = d {
            h.reorder(*k);
        }
    }
    let s = RawHeader::layout_region(62, &sig);
    let mut lead = RawLead::new("nm");
    for d in devs.iter() {
        if let Dev::Lead(ptype, arch, os) = d {
            lead.ptype = *ptype;
            lead.arch = *arch;
            lead.os = *os;
        }
    }
    assemble(&lead, &s, 0, &h, b"").0
}

struct Group {
    name: &'static str,
    tags: Vec<u32>,
    accessors: Vec<&'static str>,
    extra: Vec<Dev>,
}

fn groups() -> Vec<Group> {
    let mut g = vec![];
    g.push(Group {
        name: "scalars",
        tags: STRINGS.iter().map(|(_, x)| t(*x)).chain([t(T::RPMTAG_SUMMARY), t(T::RPMTAG_DESCRIPTION), t(T::RPMTAG_GROUP), t(T::RPMTAG_EPOCH), t(T::RPMTAG_BUILDTIME), t(T::RPMTAG_SIZE), t(T::RPMTAG_PAYLOADCOMPRESSOR), t(T::RPMTAG_FILEDIGESTALGO)]).collect(),
        accessors: STRINGS.iter().map(|(n, _)| *n).chain(["get_summary", "get_description", "get_group", "get_epoch", "get_build_time", "get_installed_size", "get_payload_compressor", "get_file_digest_algorithm", "is_source_package"]).collect(),
        extra: vec![
            Dev::Set(t(T::RPMTAG_LONGSIZE), Val::Int64(vec![0x1112_1314_1516_1718])),
            Dev::Set(t(T::RPMTAG_LONGSIZE), Val::Int64(vec![])),
            Dev::Set(t(T::RPMTAG_LONGSIZE), Val::Int32(vec![5])),
            Dev::Set(t(T::RPMTAG_SOURCEPACKAGE), Val::Int32(vec![1])),
            // locale tables: the accessors return the first stored string whatever the table says
            Dev::Drop(t(T::RPMTAG_HEADERI18NTABLE)),
            Dev::Set(t(T::RPMTAG_HEADERI18NTABLE), Val::strs(&["de", "C", "fr"])),
            Dev::Set(t(T::RPMTAG_HEADERI18NTABLE), Val::strs(&["C", "de"])),
            Dev::Multi(vec![Dev::Set(t(T::RPMTAG_HEADERI18NTABLE), Val::strs(&["de", "C"])), Dev::Set(t(T::RPMTAG_SUMMARY), Val::i18n(&["zusammenfassung", "summary"])), Dev::Set(t(T::RPMTAG_GROUP), Val::i18n(&["gruppe", "group"]))]),
            Dev::Multi(vec![Dev::Set(t(T::RPMTAG_HEADERI18NTABLE), Val::strs(&["fr", "de", "C"])), Dev::Set(t(T::RPMTAG_DESCRIPTION), Val::i18n(&["un", "zwei", "three"]))]),
            Dev::Set(t(T::RPMTAG_PAYLOADCOMPRESSOR), Val::str("zstd")),
            Dev::Set(t(T::RPMTAG_PAYLOADCOMPRESSOR), Val::str("xz")),
            Dev::Set(t(T::RPMTAG_PAYLOADCOMPRESSOR), Val::str("bzip2")),
            Dev::Set(t(T::RPMTAG_PAYLOADCOMPRESSOR), Val::str("lzma")),
            Dev::Set(t(T::RPMTAG_FILEDIGESTALGO), Val::Int32(vec![1])),
            Dev::Set(t(T::RPMTAG_FILEDIGESTALGO), Val::Int32(vec![14])),
            Dev::Set(t(T::RPMTAG_FILEDIGESTALGO), Val::Int32(vec![2])),
            Dev::Set(t(T::RPMTAG_FILEDIGESTALGO), Val::Int32(vec![0xffff_ffff])),
        ],
    });
    for half in 0..2 {
        let ds = &DEPS[half * 4..half * 4 + 4];
        g.push(Group {
            name: if half == 0 { "dependencies-1" } else { "dependencies-2" },
            tags: ds.iter().flat_map(|(_, a, b, c)| [t(*a), t(*b), t(*c)]).collect(),
            accessors: ds.iter().map(|(n, ..)| *n).collect(),
            // lists of 255 / 256 / 257 members (a count that does not fit one byte)
            extra: [255usize, 256, 257]
                .iter()
                .map(|n| {
                    let (_, a, b, c) = ds[0];
                    Dev::Multi(vec![
                        Dev::Set(t(a), Val::StrArray((0..*n).map(|k| format!("d{}", k).into_bytes()).collect())),
                        Dev::Set(t(b), Val::Int32((0..*n as u32).map(|k| 8 + (k % 3) * 2).collect())),
                        Dev::Set(t(c), Val::StrArray((0..*n).map(|k| format!("{}.0", k).into_bytes()).collect())),
                    ])
                })
                .collect(),
        });
    }
    g.push(Group {
        name: "changelog",
        tags: vec![t(T::RPMTAG_CHANGELOGNAME), t(T::RPMTAG_CHANGELOGTIME), t(T::RPMTAG_CHANGELOGTEXT)],
        accessors: vec!["get_changelog_entries"],
        extra: [0usize, 255, 256, 257]
            .iter()
            .map(|n| {
                if *n == 0 {
                    // entries that repeat their neighbour verbatim, and entries that differ from it in one member only
                    return Dev::Multi(vec![
                        Dev::Set(t(T::RPMTAG_CHANGELOGNAME), Val::strs(&["A <a@x>", "B <b@x>", "B <b@x>", "B <b@x>", "C <c@x>", "C <c@x>"])),
                        Dev::Set(t(T::RPMTAG_CHANGELOGTIME), Val::Int32(vec![5, 4, 4, 4, 3, 3])),
                        Dev::Set(t(T::RPMTAG_CHANGELOGTEXT), Val::strs(&["- a", "- b", "- b", "- other", "- c", "- c"])),
                    ]);
                }
                Dev::Multi(vec![
                    Dev::Set(t(T::RPMTAG_CHANGELOGNAME), Val::StrArray((0..*n).map(|k| format!("N{} <n@x>", k).into_bytes()).collect())),
                    Dev::Set(t(T::RPMTAG_CHANGELOGTIME), Val::Int32((0..*n as u32).map(|k| 1_000_000_000 + k).collect())),
                    Dev::Set(t(T::RPMTAG_CHANGELOGTEXT), Val::StrArray((0..*n).map(|k| format!("- {}", k).into_bytes()).collect())),
                ])
            })
            .collect(),
    });
    for half in 0..2 {
        let ss = &SCRIPTS[half * 4..half * 4 + 4];
        g.push(Group {
            name: if half == 0 { "scriptlets-1" } else { "scriptlets-2" },
            tags: ss.iter().flat_map(|(_, a, b, c)| [t(*a), t(*b), t(*c)]).collect(),
            accessors: ss.iter().map(|(n, ..)| *n).collect(),
            extra: vec![],
        });
    }
    let d = |hex: &str, n: usize| hex.repeat(n);
    g.push(Group {
        name: "files",
        tags: vec![
            t(T::RPMTAG_BASENAMES), t(T::RPMTAG_DIRNAMES), t(T::RPMTAG_DIRINDEXES), t(T::RPMTAG_FILEMODES), t(T::RPMTAG_FILEUSERNAME), t(T::RPMTAG_FILEGROUPNAME),
            t(T::RPMTAG_FILEDIGESTS), t(T::RPMTAG_FILEMTIMES), t(T::RPMTAG_FILESIZES), t(T::RPMTAG_FILEFLAGS), t(T::RPMTAG_FILELINKTOS), t(T::RPMTAG_FILEDIGESTALGO),
        ],
        accessors: vec!["get_file_paths", "get_file_entries", "get_file_digest_algorithm"],
        extra: vec![
            Dev::Set(t(T::RPMTAG_LONGFILESIZES), Val::Int64(vec![0x1_0000_0001, 0xffff_ffff_ff, 3])),
            Dev::Set(t(T::RPMTAG_LONGFILESIZES), Val::Int32(vec![1, 2, 3])),
            Dev::Set(t(T::RPMTAG_DIRINDEXES), Val::Int32(vec![0, 2, 1])), // index == number of dirnames
            Dev::Set(t(T::RPMTAG_DIRINDEXES), Val::Int32(vec![0, 1, 0xffff_ffff])),
            Dev::Set(t(T::RPMTAG_DIRINDEXES), Val::Int32(vec![1, 0, 0])),
            Dev::Set(t(T::RPMTAG_FILECAPS), Val::strs(&["", "cap_chown=p", ""])),
            Dev::Set(t(T::RPMTAG_FILECAPS), Val::strs(&["x"])),
            Dev::SigSet(SIG_FILESIGNATURES, Some(Val::strs(&["0302aa", "", "0302bb"]))),
            Dev::SigSet(SIG_FILESIGNATURES, Some(Val::strs(&["0302aa"]))),
            Dev::SigSet(SIG_FILESIGNATURES, Some(Val::Int32(vec![1, 2, 3]))),
            // tags of the main header that no accessor reads but whose names resemble per-file data the accessors do read
            // (file signatures as rpm's database stores them, file signature length, classes, colours, device numbers)
            Dev::Set(5090, Val::strs(&["0302cc", "0302dd", "0302ee"])),
            Dev::Set(5090, Val::Int32(vec![1, 2, 3])),
            Dev::Set(5091, Val::Int32(vec![3])),
            Dev::Set(1140, Val::strs(&["class-a", "class-b", "class-c"])),
            Dev::Set(1095, Val::Int32(vec![1, 2, 0])),
            Dev::Set(1033, Val::Int16(vec![1, 2, 3])),
            Dev::Set(1096, Val::Int32(vec![7, 8, 9])),
            Dev::Set(t(T::RPMTAG_FILEMODES), Val::Int16(vec![0o040755, 0o010644, 0o107777])),
            // every supported digest algorithm with digests of the right length
            Dev::Multi(vec![Dev::Set(t(T::RPMTAG_FILEDIGESTALGO), Val::Int32(vec![1])), Dev::Set(t(T::RPMTAG_FILEDIGESTS), Val::strs(&[&d("c3", 16), &d("d4", 16), ""]))]),
            Dev::Multi(vec![Dev::Drop(t(T::RPMTAG_FILEDIGESTALGO)), Dev::Set(t(T::RPMTAG_FILEDIGESTS), Val::strs(&[&d("c3", 16), &d("d4", 16), ""]))]),
            Dev::Multi(vec![Dev::Set(t(T::RPMTAG_FILEDIGESTALGO), Val::Int32(vec![9])), Dev::Set(t(T::RPMTAG_FILEDIGESTS), Val::strs(&[&d("c3", 48), "", &d("d4", 48)]))]),
            Dev::Multi(vec![Dev::Set(t(T::RPMTAG_FILEDIGESTALGO), Val::Int32(vec![10])), Dev::Set(t(T::RPMTAG_FILEDIGESTS), Val::strs(&[&d("c3", 64), &d("d4", 64), &d("e5", 64)]))]),
            Dev::Multi(vec![Dev::Set(t(T::RPMTAG_FILEDIGESTALGO), Val::Int32(vec![11])), Dev::Set(t(T::RPMTAG_FILEDIGESTS), Val::strs(&[&d("c3", 28), &d("d4", 28), ""]))]),
            Dev::Set(t(T::RPMTAG_FILEDIGESTS), Val::strs(&["", "", ""])),
            // hex digits are not case-normalised by the format
            Dev::Set(t(T::RPMTAG_FILEDIGESTS), Val::strs(&[&d("A1", 32), &d("bC", 32), ""])),
            Dev::Multi(vec![Dev::Drop(t(T::RPMTAG_FILEDIGESTALGO)), Dev::Set(t(T::RPMTAG_FILEDIGESTS), Val::strs(&[&d("C3", 16), &d("d4", 16), &d("Ee", 16)]))]),
            // texts of the right length that are not hexadecimal
            Dev::Set(t(T::RPMTAG_FILEDIGESTS), Val::strs(&[&d("g1", 32), &d("-_", 32), ""])),
            Dev::Set(t(T::RPMTAG_FILEDIGESTS), Val::strs(&[&format!("{}é", d("a", 62)), &d("b2", 32), ""])),
            // empty file list
            Dev::Set(t(T::RPMTAG_BASENAMES), Val::strs(&[])),
            // 256 and 257 files in 256 and 257 directories
            many_files(256),
            many_files(257),
        ],
    });
    g
}

pub static ALL_TAGS: &[T] = &[
    T::RPMTAG_NAME, T::RPMTAG_VERSION, T::RPMTAG_SUMMARY, T::RPMTAG_EPOCH, T::RPMTAG_SIZE, T::RPMTAG_FILEMODES, T::RPMTAG_BASENAMES, T::RPMTAG_LONGSIZE,
    T::RPMTAG_FILEDIGESTS, T::RPMTAG_HEADERIMMUTABLE, T::RPMTAG_DIRINDEXES, T::RPMTAG_SOURCEPACKAGE,
];

pub fn sweeps(ctx: &Ctx) -> Vec<Sweep> {
    let base = Arc::new(base_records());
    // deviations per variant: 2 in the quick tier, 3 in the thorough tier
    let k = if ctx.thorough() { 3 } else { 2 };
    let mut v = vec![];
    let mut gs: Vec<(Group, bool)> = groups().into_iter().map(|g| (g, false)).collect();
    // the group with the i18n accessors once more in worker processes that run under a German locale
    gs.push((groups().into_iter().find(|g| g.name == "scalars").expect("scalars group"), true));
    for (g, german) in gs {
        let mut m = menu(&base, &g.tags);
        m.extend(g.extra.iter().cloned());
        m.push(Dev::Reorder(1));
        m.push(Dev::Reorder(2));
        m.push(Dev::Lead(1, 1, 1)); // a lead that claims "source package"
        m.push(Dev::Lead(0, 255, 7));
        for tag in g.tags.iter().take(4) {
            m.push(Dev::Behind(*tag));
        }
        let nm = m.len() as u64;
        // index space: 1 (no deviation) + nm (one) + nm*nm (ordered pairs i<j only are run) for k = 2
        let n = 1 + nm + if k >= 2 { nm * nm } else { 0 } + if k >= 3 { nm * nm * nm } else { 0 };
        let base = base.clone();
        let accessors = g.accessors.clone();
        let name = if german { format!("dev-{}@de_DE", g.name) } else { format!("dev-{}", g.name) };
        let rule = format!(
            "complete well-formed base header with pairwise distinct byte-asymmetric values; all 0-, 1-{} deviation variants over the {} tags of group '{}' from a menu of {} deviations (drop tag; retype to each other type; count 0 / n−1 / n+1; empty, short, multi-byte, invalid-UTF-8 values; 1–3 locales; 32/64-bit size variants; out-of-range dir index; every digest algorithm; upper-case hex digests; optional arrays; index entries reversed / rotated; entries behind the immutable region; lead fields that disagree with the header); accessors {:?} compared with an independent decoding; non-trivial = accepted and well-formed, hence judged",
            if k >= 3 { ", 2- and 3-" } else { " and 2-" }, g.tags.len(), g.name, nm, accessors
        );
        let nm2 = name.clone();
        let rule = if german { format!("{} — the same sweep in worker processes started with LANG / LC_ALL / LC_MESSAGES = de_DE.UTF-8 and LANGUAGE = de_DE:de (what a header stores does not depend on the reader's locale)", rule) } else { rule };
        let env: &[(&str, &str)] = if german { &crate::sweep::LOCALE_DE } else { &[] };
        v.push(Sweep::new(&nm2, rule, n, move |i, acc| {
            let devs: Vec<&Dev> = if i == 0 {
                vec![]
            } else if i <= nm {
                vec![&m[(i - 1) as usize]]
            } else if i <= nm + nm * nm {
                let j = i - 1 - nm;
                let (a, b) = ((j / nm) as usize, (j % nm) as usize);
                if a >= b {
                    return;
                }
                vec![&m[a], &m[b]]
            } else {
                let j = i - 1 - nm - nm * nm;
                let (a, b, c) = ((j / nm / nm) as usize, (j / nm % nm) as usize, (j % nm) as usize);
                if a >= b || b >= c {
                    return;
                }
                vec![&m[a], &m[b], &m[c]]
            };
            acc.evals += 1;
            let x = build(&base, &devs);
            let case = || json!({"bytes_hex": vlib::hex(&x), "deviations": format!("{:?}", devs), "accessors": accessors});
            if judge(&name, &x, Some(&accessors), i, &case, acc) {
                acc.nontrivial += 1;
                if i < 3 || i % 1009 == 0 {
                    acc.sample(i, || json!({"group": name, "deviations": format!("{:?}", devs)}));
                }
            }
        }).with_env(env));
    }
    // texts: a header that declares its encoding, with one string replaced by another valid UTF-8 text — the header stays
    // well formed by construction, so a rejection is a violation here and not "a stricter parser"
    {
        let mut base3 = base_records();
        base3.push((5062, Val::str("utf-8")));
        let base3 = Arc::new(base3);
        const TEXTS: [&str; 14] = ["", " ", "\u{fffd}", "a\u{fffd}b", "\u{feff}bom first", "e\u{301} decomposed", "\u{e9} composed", "\u{202e}right-to-left override", "\u{1f600}", "\u{10ffff}", "\u{7f}\u{1}control", "tab\there", "line\nbreak", "\u{2028}line separator"];
        // (tag, kind: 0 = STRING, 1 = i18n (first item), 2 = string array (first item))
        let mut targets: Vec<(u32, u8)> = STRINGS.iter().map(|(_, x)| (t(*x), 0u8)).collect();
        targets.extend([(t(T::RPMTAG_SUMMARY), 1), (t(T::RPMTAG_DESCRIPTION), 1), (t(T::RPMTAG_GROUP), 1), (t(T::RPMTAG_CHANGELOGNAME), 2), (t(T::RPMTAG_CHANGELOGTEXT), 2), (t(T::RPMTAG_BASENAMES), 2), (t(T::RPMTAG_FILEUSERNAME), 2), (t(T::RPMTAG_FILELINKTOS), 2), (t(T::RPMTAG_PROVIDENAME), 2), (t(T::RPMTAG_REQUIREVERSION), 2), (t(T::RPMTAG_PREINPROG), 2)]);
        let n = (targets.len() * TEXTS.len()) as u64;
        v.push(Sweep::new("text-values", format!("a header that declares ENCODING utf-8 × each of {} string-bearing tags (STRING, I18NSTRING, STRING_ARRAY) × its (first) string replaced by each of {} valid UTF-8 texts (empty, U+FFFD alone and inside, a byte-order mark, composed and decomposed é, a right-to-left override, astral characters, control characters, line separators): the header is accepted and every accessor returns the stored text", targets.len(), TEXTS.len()), n, move |i, acc| {
            let (tag, kind) = targets[(i / TEXTS.len() as u64) as usize];
            let text = TEXTS[(i % TEXTS.len() as u64) as usize];
            acc.evals += 1;
            let old = base3.iter().find(|(t_, _)| *t_ == tag).map(|(_, v)| v.clone());
            let val = match (kind, old) {
                (0, _) => Val::str(text),
                (1, Some(Val::I18n(mut a))) | (2, Some(Val::I18n(mut a))) => {
                    if a.is_empty() { a.push(vec![]) }
                    a[0] = text.as_bytes().to_vec();
                    Val::I18n(a)
                }
                (_, Some(Val::StrArray(mut a))) => {
                    if a.is_empty() { a.push(vec![]) }
                    a[0] = text.as_bytes().to_vec();
                    Val::StrArray(a)
                }
                (1, _) => Val::i18n(&[text]),
                _ => Val::strs(&[text]),
            };
            let dev = Dev::Set(tag, val);
            let x = build(&base3, &[&dev]);
            let case = || json!({"bytes_hex": vlib::hex(&x), "tag": tag, "text": text, "text_as_code_points": text.chars().map(|c| format!("U+{:04X}", c as u32)).collect::<Vec<_>>()});
            match parse_pkg(&x) {
                Ok(Ok(_)) => {
                    acc.nontrivial += 1;
                    judge("text-values", &x, None, i, &case, acc);
                }
                Ok(Err(k)) => acc.viol(Violation::new("text-values", format!("a well-formed header is rejected because of the text of tag {}: {}", tag, k), case()).sig("clause", "well-formed-header-rejected").rank(i)),
                Err(_) => acc.count("parse: panic (C04's business)"),
            }
        }));
    }
    // typed getters: each tag of a small set retyped to every type with counts 0..2
    let base2 = Arc::new(base_records());
    let tags: Vec<u32> = ALL_TAGS.iter().map(|x| *x as u32).collect();
    let tg = tags.clone();
    let n = tags.len() as u64 * 10 * 4 * 3;
    v.push(Sweep::new("typed-getters", "each of 12 tags (present or absent in the base) × retyped to every type 0..9 × count ∈ {as laid out, 0, 1, 2} × index order ∈ {sorted, reversed, rotated}: all nine Header::get_entry_data_as_* getters and entry_is_present against the decoded value".into(), n, move |i, acc| {
        let order = (i % 3) as u8;
        let i = i / 3;
        let tag = tg[(i / 40) as usize];
        let ty = (i / 4 % 10) as u32;
        let cnt = i % 4;
        acc.evals += 1;
        let mut devs = vec![Dev::Retype(tag, ty), Dev::Reorder(order)];
        if cnt > 0 {
            devs.push(Dev::Count(tag, cnt as u32 - 1));
        }
        let refs: Vec<&Dev> = devs.iter().collect();
        let x = build(&base2, &refs);
        let case = || json!({"bytes_hex": vlib::hex(&x), "deviations": format!("{:?}", devs)});
        if Dec::of(&x).is_some() && matches!(parse_pkg(&x), Ok(Ok(_))) {
            acc.nontrivial += 1;
            judge_typed("typed-getters", &x, &tags, i, &case, acc);
            if i % 37 == 0 {
                acc.sample(i, || json!({"tag": tag, "retyped_to": ty, "count_variant": cnt}));
            }
        } else {
            acc.count("not well-formed / rejected (not judged)");
        }
    }));
    v
}

fn assets(ctx: &Ctx) -> SubReport {
    let mut acc = Acc::new();
    for (k, rel) in ASSETS.iter().enumerate() {
        let x = std::fs::read(ctx.asset(rel)).unwrap_or_else(|e| crate::ctx::machinery(&format!("{}: {}", rel, e)));
        acc.evals += 1;
        if judge("assets", &x, None, k as u64, &|| json!({"asset": rel}), &mut acc) {
            acc.nontrivial += 1;
            acc.sample(k as u64, || json!({"asset": rel}));
        } else {
            crate::ctx::machinery(&format!("asset {} is not judged: reference decoder or parser rejects it", rel));
        }
    }
    SubReport::new("assets", "A", "all accessors on the six rpmbuild-produced assets against the independent decoding", acc)
}

pub fn run(ctx: &Ctx) -> i32 {
    let mut subs = vec![];
    for s in sweeps(ctx) {
        let (sub, _ev) = run_sweep(ctx, &s);
        subs.push(sub);
    }
    subs.push(assets(ctx));
    for s in &subs {
        if s.acc.nontrivial == 0 {
            crate::ctx::machinery(&format!("sub-check {} judged nothing: vacuous", s.name));
        }
    }
    ctx.finish(
        "exploration",
        subs,
        &[
            "the reference decoder (vlib::refhdr::value) implements the documented on-disk format; headers it cannot decode are not well-formed and are left to C04",
            "undefined corners are not judged: arrays of unequal length, optional arrays of a different length, mistyped optional tags, digests that do not fit the recorded algorithm, dirnames without trailing slash",
            "deviation bound: 2 from the base header in both tiers",
        ],
        vec![],
    )
}

pub fn replay(_ctx: &Ctx, v: &Value) -> i32 {
    replay_bytes(v, &|x, acc| {
        judge("replay", x, None, 0, &|| json!({}), acc);
    })
}
