//! C19 — capability text is accepted only when every clause is well formed (engine A).
use crate::common::*;
use crate::ctx::Ctx;
use rpm::FileCaps;
use serde_json::{json, Value};
use std::str::FromStr;
use vlib::capsref::accepts;
use vlib::par::{par_fold, strings_count, strings_nth};
use vlib::report::{catch, Acc, SubReport, Violation};

const TOKENS: [&str; 16] = ["cap_chown", "CAP_KILL", "all", "bogus", ",", "=", "+", "-", "e", "i", "p", "x", " ", "cap_", "E", "P"];

fn check_text(s: &str, idx: u64, acc: &mut Acc) {
    check_text_in("tokens", s, idx, acc)
}

fn check_text_in(sub: &str, s: &str, idx: u64, acc: &mut Acc) {
    acc.evals += 1;
    let case = || json!({"text": s});
    let r = catch(|| {
        let a = FileCaps::from_str(s);
        let b = FileCaps::new(s.to_string());
        let c = rpm::validate_caps_text(s);
        let d = rpm::FileOptions::new("/f").caps(s);
        (
            a.as_ref().ok().map(|x| x.to_string()),
            b.as_ref().ok().map(|x| x.to_string()),
            c.is_ok(),
            d.is_ok(),
            matches!(d, Err(rpm::Error::InvalidCapabilities { .. })),
        )
    });
    let (a, b, c, d, d_kind) = match r {
        Ok(x) => x,
        Err(p) => return acc.viol(panic_violation(sub, &p, case())),
    };
    let want = accepts(s);
    let got = a.is_some();
    if got != want {
        acc.viol(
            Violation::new(sub, format!("{:?}: library {} it, the grammar {} it", s, if got { "accepts" } else { "rejects" }, if want { "accepts" } else { "rejects" }), case())
                .sig("clause", "acceptance")
                .sig("direction", if got { "library-accepts" } else { "library-rejects" }),
        );
    }
    if b.is_some() != got || c != got || d != got || (!got && !d_kind) {
        acc.viol(Violation::new(sub, format!("{:?}: entry points disagree (from_str {}, new {}, validate {}, FileOptions::caps {} / right error {})", s, got, b.is_some(), c, d, d_kind), case()).sig("clause", "entry-points-agree"));
    }
    if let Some(t) = &a {
        if t != s || b.as_deref() != Some(s) {
            acc.viol(Violation::new(sub, format!("{:?} not kept verbatim: {:?}", s, t), case()).sig("clause", "verbatim"));
        }
    }
    if want {
        acc.nontrivial += 1;
        acc.count("accepted-by-grammar");
        acc.sample(idx, || json!({"text": s, "accepted": true}));
    } else {
        acc.count("rejected-by-grammar");
        if idx % 100_003 == 7 {
            acc.sample(idx + (1 << 40), || json!({"text": s, "accepted": false}));
        }
    }
}

fn nth_text(i: u64, toks: &mut Vec<usize>) -> String {
    strings_nth(i, TOKENS.len(), toks);
    toks.iter().map(|t| TOKENS[*t]).collect()
}

pub fn run(ctx: &Ctx) -> i32 {
    let max = if ctx.thorough() { 8 } else { 6 };
    let n = strings_count(TOKENS.len(), max);
    let a = merge(par_fold(n, Acc::new, |i, acc| {
        let mut toks = Vec::with_capacity(8);
        let s = nth_text(i, &mut toks);
        check_text(&s, i, acc);
    }));
    let s1 = SubReport::new(
        "tokens",
        "A",
        &format!("every sequence of ≤ {} tokens over {:?} ({} strings) through FileCaps::from_str/new, validate_caps_text and FileOptions::caps; oracle = hand-written recogniser of the property's grammar, verbatim Display; non-trivial = text the grammar accepts", max, TOKENS, n),
        a,
    );

    // character level (names are not pre-tokenised): includes a multi-byte character and a tab
    let chars = ["a", "c", "p", "_", "é", "=", "+", "e", " ", ",", "\t", "A", "\u{b}", "\u{a0}", "\u{2003}", "\u{85}", "\n", "\r"];
    // 'all' spelled with characters that only Unicode case mapping turns into its letters: none exist for a/l, but the
    // clause grammar is exercised with such characters in flag and operator positions too
    let lookalikes = ["\u{17f}", "\u{131}", "\u{212a}", "\u{130}", "\u{df}", "\u{ff45}", "\u{ff1d}"];
    let cl = if ctx.thorough() { 7 } else { 5 };
    let nc = strings_count(chars.len(), cl);
    let cacc = merge(par_fold(nc, Acc::new, |i, acc| {
        let mut toks = Vec::with_capacity(8);
        strings_nth(i, chars.len(), &mut toks);
        let s: String = toks.iter().map(|t| chars[*t]).collect();
        check_text(&s, i, acc);
    }));
    // pieces of every length around the powers of two, with a multi-byte character straddling the boundary,
    // in each position of a clause (name, second name, after the operator, second clause)
    let mut cacc = cacc;
    for l in [3usize, 4, 7, 8, 15, 16, 17, 27, 28, 29, 30, 31, 32, 33, 63, 64, 65, 127, 128, 129, 255, 256, 257, 1024] {
        for back in 0..5usize {
            let fill = "x".repeat(l.saturating_sub(back));
            for mb in ["é", "語", "😀"] {
                for text in [
                    format!("{}{}=ep", fill, mb),
                    format!("cap_{}{}=ep", fill, mb),
                    format!("cap_chown,{}{}=ep", fill, mb),
                    format!("+{}{}", fill, mb),
                    format!("-{}{}=e", fill, mb),
                    format!("cap_chown={}{}", fill, mb),
                    format!("=e {}{}+p", fill, mb),
                    format!("{}{}", fill, mb),
                ] {
                    check_text(&text, 1 << 50, &mut cacc);
                }
            }
        }
    }
    for l in lookalikes {
        for text in [format!("cap_chown={}", l), format!("cap_chown{}p", l), format!("{}=p", l), format!("al{}=p", l), format!("cap_{}=p", l), format!("cap_kill,cap_{}etuid=p", l), format!("={}", l)] {
            check_text(&text, 1 << 51, &mut cacc);
        }
    }
    let s1b = SubReport::new("characters", "A", &format!("every string of ≤ {} characters over {:?} ({} strings), plus clause pieces of length 3…1024 (every power of two ± 2) ending in a 2-, 3- or 4-byte character in each clause position: same entry points and oracle", cl, chars, nc), cacc);

    // the whole character domain: every Unicode scalar value in every role a character can play in a text
    let uacc = merge(par_fold(0x11_0000, Acc::new, |cp, acc| {
        let Some(c) = char::from_u32(cp as u32) else { return };
        for text in [
            format!("cap_chown={}", c),
            format!("cap_chown=e{}", c),
            format!("cap_chown+{}p", c),
            format!("cap_chown+e{}i", c),
            format!("cap_chown{}e", c),
            format!("cap_{}hown=p", c),
            format!("{}=p", c),
            format!("cap_chown{}cap_fowner=p", c),
            format!("cap_chown=p{}cap_fowner+e", c),
        ] {
            check_text_in("unicode-scalars", &text, cp * 16, acc);
        }
    }));
    let s1u = SubReport::new("unicode-scalars", "A", "every Unicode scalar value (1 112 064 characters) in nine roles — as a flag, between flags, between operator and flags, as the operator, inside a name, as a whole name, between two names, between two clauses: same oracle as for the token sequences (a character is what its code point says, not what its low byte or its case mapping says)", uacc);
    // every known capability name, in three spellings, in each position of a text; and its near misses
    let mut nacc = Acc::new();
    {
        let mut idx = 0u64;
        for name in vlib::capsref::CAP_NAMES {
            let mixed: String = name.chars().enumerate().map(|(i, c)| if i % 2 == 0 { c.to_ascii_uppercase() } else { c }).collect();
            // near misses, incl. spellings with characters whose Unicode case mapping is an ASCII letter (long s, dotless i, Kelvin sign, sharp s)
            let mut misses = vec![name[..name.len() - 1].to_string(), format!("{}x", name), name[4..].to_string(), format!("{}_", name), name.replace('_', "-"), format!("cap_{}", name), format!("CAP_{}", name), format!("{0}{0}", name), format!("{}_v2", name), format!("{}2", name.to_ascii_uppercase())];
            for (ascii, look) in [('s', "\u{17f}"), ('i', "\u{131}"), ('k', "\u{212a}"), ('S', "\u{17f}"), ('I', "\u{130}")] {
                for base in [name.to_string(), name.to_ascii_uppercase()] {
                    if let Some(pos) = base.rfind(ascii) {
                        let mut v = base.clone();
                        v.replace_range(pos..pos + 1, look);
                        misses.push(v);
                    }
                }
            }
            if name.contains("ss") {
                misses.push(name.replacen("ss", "\u{df}", 1));
            }
            for n in [name.to_string(), name.to_ascii_uppercase(), mixed].iter().chain(misses.iter()) {
                for text in [format!("{}=ep", n), format!("{},cap_chown+p", n), format!("cap_chown,{}=i", n), format!("=e {}+p", n), format!("{0},{0}-e", n), format!(" {}=", n)] {
                    check_text_in("names", &text, idx, &mut nacc);
                    idx += 1;
                }
            }
        }
    }
    let s1c = SubReport::new("names", "A", "each of the 41 Linux capability names in lower, upper and mixed case, and its near misses (last character dropped, one appended, 'cap_' removed, trailing '_', '-' for '_', and letters replaced by characters whose Unicode case mapping is that letter: long s, dotless i, Kelvin sign, dotted capital I, sharp s), in six positions of a text (alone, first / last of a list, second clause, repeated, after a blank): same entry points and oracle", nacc);

    // FileOptions::caps must judge the text alone: not the setters called before or after it
    let mut oacc = Acc::new();
    {
        use rpm::{FileMode, FileOptions};
        type B = rpm::FileOptionsBuilder;
        let setters: Vec<(&str, Box<dyn Fn(B) -> B>)> = vec![
            ("mode(dir)", Box::new(|b: B| b.mode(FileMode::dir(0o755)))),
            ("mode(symlink)", Box::new(|b: B| b.mode(FileMode::symbolic_link(0o777)))),
            ("mode(regular 0644)", Box::new(|b: B| b.mode(FileMode::regular(0o644)))),
            ("mode(0o4755 raw)", Box::new(|b: B| b.mode(0o104755))),
            ("mode(invalid raw)", Box::new(|b: B| b.mode(0o170000))),
            ("symlink(target)", Box::new(|b: B| b.symlink("target"))),
            ("user", Box::new(|b: B| b.user("u"))),
            ("group", Box::new(|b: B| b.group("g"))),
            ("is_doc", Box::new(|b: B| b.is_doc())),
            ("is_config", Box::new(|b: B| b.is_config())),
            ("is_config_noreplace", Box::new(|b: B| b.is_config_noreplace())),
            ("is_ghost", Box::new(|b: B| b.is_ghost())),
            ("is_license", Box::new(|b: B| b.is_license())),
            ("is_readme", Box::new(|b: B| b.is_readme())),
            ("caps(cap_kill=e) first", Box::new(|b: B| b.caps("cap_kill=e").expect("well-formed text"))),
        ];
        let texts = ["cap_chown=p", "=", "all=eip cap_kill-e", "CAP_NET_BIND_SERVICE+ep", "", "bogus=e", "cap_chown", "cap_chown==e", "+e", " cap_kill=e "];
        for (si, (sname, set)) in setters.iter().enumerate() {
            for (ti, t) in texts.iter().enumerate() {
                for order in ["setter then caps", "caps then setter", "setter, caps, setter"] {
                    oacc.evals += 1;
                    let want = accepts(t);
                    let case = json!({"text": t, "setter": sname, "order": order});
                    let r = catch(|| {
                        let b = FileOptions::new("/f");
                        match order {
                            "setter then caps" => set(b).caps(*t).map(|_| ()),
                            "caps then setter" => b.caps(*t).map(|b| {
                                let _ = set(b);
                            }),
                            _ => set(b).caps(*t).map(|b| {
                                let _ = set(b);
                            }),
                        }
                    });
                    match r {
                        Err(p) => oacc.viol(panic_violation("option-order", &p, case)),
                        Ok(res) => {
                            if want {
                                oacc.nontrivial += 1;
                            }
                            oacc.count(if res.is_ok() { "accepted" } else { "rejected" });
                            if res.is_ok() != want {
                                oacc.viol(
                                    Violation::new("option-order", format!("{:?} after/before {}: FileOptions::caps {} it, the grammar {} it", t, sname, if res.is_ok() { "accepts" } else { "rejects" }, if want { "accepts" } else { "rejects" }), case)
                                        .sig("clause", "acceptance-depends-on-other-setters")
                                        .rank((si * 100 + ti) as u64),
                                );
                            }
                        }
                    }
                }
            }
        }
    }
    let s1d = SubReport::new("option-order", "A", "15 other FileOptions setters (modes of every kind, owner, flags, an earlier caps call) × 10 texts (6 the grammar accepts, 4 it rejects) × three call orders (setter before, after, around caps): the verdict of FileOptions::caps must be the text's own", oacc);

    // accepted text comes back verbatim from a built package's FILECAPS
    let dir = crate::ctx::run_dir().join("c19");
    let _ = std::fs::create_dir_all(&dir);
    let src = dir.join("f");
    std::fs::write(&src, b"x").expect("temp");
    let n3 = strings_count(TOKENS.len(), if ctx.thorough() { 5 } else { 3 });
    let b = merge(par_fold(n3, Acc::new, |i, acc| {
        let mut toks = vec![];
        let s = nth_text(i, &mut toks);
        if !accepts(&s) {
            return;
        }
        acc.evals += 1;
        let case = json!({"text": s, "via": "built package"});
        let r = catch(|| -> Result<Option<String>, String> {
            let opts = rpm::FileOptions::new("/f").caps(s.as_str()).map_err(|e| e.to_string())?;
            let pkg = rpm::PackageBuilder::new("t", "1", "MIT", "noarch", "s")
                .compression(rpm::CompressionType::None)
                .with_file(&src, opts)
                .map_err(|e| e.to_string())?
                .build()
                .map_err(|e| e.to_string())?;
            let mut out = vec![];
            pkg.write(&mut out).map_err(|e| e.to_string())?;
            let back = rpm::Package::parse(&mut &out[..]).map_err(|e| e.to_string())?;
            let fe = back.metadata.get_file_entries().map_err(|e| e.to_string())?;
            Ok(fe.get(0).and_then(|f| f.caps.clone()))
        });
        match r {
            Err(p) => acc.viol(panic_violation("built", &p, case)),
            Ok(Err(e)) => {
                // the library may reject text the grammar accepts: that is the acceptance clause, reported above
                acc.count(&format!("error: {}", e.chars().take(40).collect::<String>()));
            }
            Ok(Ok(got)) => {
                if got.as_deref() != Some(s.as_str()) {
                    acc.viol(Violation::new("built", format!("caps {:?} read back as {:?}", s, got), case).sig("clause", "verbatim-in-package"));
                }
                acc.nontrivial += 1;
                acc.count("round-tripped");
                acc.sample(i, || json!({"caps": s, "read_back": got}));
            }
        }
    }));
    // the same for texts whose clauses are separated and surrounded by every kind of ASCII white space
    let mut b = b;
    for t in ["cap_chown=p\n", "\ncap_chown=p", "cap_chown=p\r\n", "cap_chown=p\tcap_kill+e", "cap_chown=p  cap_kill+e", " cap_chown=p ", "cap_chown=p\n\ncap_kill=e\n", "=\n", "cap_chown=p \t\r\n"] {
        if !accepts(t) {
            continue;
        }
        b.evals += 1;
        let case = json!({"text": t, "via": "built package"});
        let r = catch(|| -> Result<Option<String>, String> {
            let opts = rpm::FileOptions::new("/f").caps(t).map_err(|e| e.to_string())?;
            let pkg = rpm::PackageBuilder::new("t", "1", "MIT", "noarch", "s").compression(rpm::CompressionType::None).with_file(&src, opts).map_err(|e| e.to_string())?.build().map_err(|e| e.to_string())?;
            let mut out = vec![];
            pkg.write(&mut out).map_err(|e| e.to_string())?;
            let back = rpm::Package::parse(&mut &out[..]).map_err(|e| e.to_string())?;
            let fe = back.metadata.get_file_entries().map_err(|e| e.to_string())?;
            Ok(fe.get(0).and_then(|f| f.caps.clone()))
        });
        match r {
            Err(p) => b.viol(panic_violation("built", &p, case)),
            Ok(Err(e)) => b.count(&format!("error: {}", e.chars().take(40).collect::<String>())),
            Ok(Ok(got)) => {
                if got.as_deref() != Some(t) {
                    b.viol(Violation::new("built", format!("caps {:?} read back as {:?}", t, got), case).sig("clause", "verbatim-in-package"));
                }
                b.nontrivial += 1;
                b.count("round-tripped");
            }
        }
    }
    let _ = std::fs::remove_dir_all(&dir);
    let s2 = SubReport::new("built", "A", "every grammar-accepted text of ≤ 3 (thorough 4) tokens given to FileOptions::caps, built, written, parsed: FILECAPS of the file equals the text", b);
    ctx.finish(
        "exploration",
        vec![s1, s1b, s1u, s1c, s1d, s2],
        &["the recogniser in vlib::capsref implements the grammar of the property statement (group = operator followed by zero or more flags)", "strings longer than the token bound are not covered"],
        vec![],
    )
}

pub fn replay(_ctx: &Ctx, v: &Value) -> i32 {
    let s = v["case"]["text"].as_str().unwrap_or("");
    let mut acc = Acc::new();
    check_text(s, 0, &mut acc);
    println!("text {:?}: grammar accepts = {}, library accepts = {}", s, accepts(s), FileCaps::from_str(s).is_ok());
    for v in acc.viols.values() {
        println!("REPRODUCED {}: {}", v.key(), v.what);
    }
    if acc.viols.is_empty() {
        0
    } else {
        1
    }
}
