//! vcheck – bounded exhaustive exploration of rpm-rs/rpm against reference models.
//! Usage:
//!   vcheck <Cnn> [--tier quick|thorough] [--replay <file>]
//!   vcheck worker <Cnn> <subcheck> <tier> <start> <stride> <end>
//! Exit codes: 0 held, 1 violation (VIOLATION line printed), 2 machinery failure.
#![allow(clippy::all)]

#[global_allocator]
static ALLOC: vlib::alloc::Counting = vlib::alloc::Counting;

mod aging;
mod common;
mod common_assets;
mod corpus;
mod foreign;
mod fsigner;
mod ctx;
mod hooks;
mod interpose;
mod keys;
mod oracles;
mod pkgtool;
mod spec;
mod validator;
mod sweep;

mod c01;
mod c02;
mod c03;
mod c04;
mod c05;
mod c06;
mod c07;
mod c08;
mod c09;
mod c10;
mod c11;
mod c12;
mod c16;
mod c17;
mod c13;
mod c14;
mod c15;
mod c18;
mod c19;
mod c20;

use ctx::{Ctx, Tier};

fn usage() -> ! {
    eprintln!("usage: vcheck <Cnn> [--tier quick|thorough] [--replay <file>] | vcheck worker <Cnn> <sub> <tier> <start> <stride> <end>");
    std::process::exit(2);
}

fn main() {
    vlib::report::install_panic_hook();
    let owner = ctx::claim_run_dir();
    if owner {
        std::env::set_var("VCHECK_RUN_OWNER", std::process::id().to_string());
    }
    let args: Vec<String> = std::env::args().skip(1).collect();
    if args.is_empty() {
        usage();
    }
    if args[0] == "c11-child" {
        c11::child_main(&args[1..]);
    }
    if args[0] == "worker" || args[0] == "worker-one" {
        let one = args[0] == "worker-one";
        if args.len() != if one { 8 } else { 7 } {
            usage();
        }
        let tier = Tier::parse(&args[3]).unwrap_or_else(|| usage());
        let ctx = Ctx::new(&args[1], tier);
        let k = if one { 5 } else { 4 };
        let (start, stride, end): (u64, u64, u64) = (
            args[k].parse().unwrap_or_else(|_| usage()),
            args[k + 1].parse().unwrap_or_else(|_| usage()),
            args[k + 2].parse().unwrap_or_else(|_| usage()),
        );
        let sweeps = worker_sweeps(&ctx);
        if one {
            let index: u64 = args[4].parse().unwrap_or_else(|_| usage());
            let Some(s) = sweeps.iter().find(|s| s.name == args[2]) else { usage() };
            vlib::alloc::set_refuse_above(sweep::WORKER_MEM_REFUSE);
            s.apply_env();
            vlib::worker::worker_loop(0, 1, 1, |_, acc| (s.case)(index, acc));
        }
        sweep::dispatch(sweeps, &args[2], start, stride, end);
    }
    let id = args[0].to_uppercase();
    let mut tier = std::env::var("VERIF_TIER").ok().and_then(|t| Tier::parse(&t)).unwrap_or(Tier::Quick);
    let mut replay: Option<String> = None;
    let mut i = 1;
    while i < args.len() {
        match args[i].as_str() {
            "--tier" => {
                i += 1;
                tier = args.get(i).and_then(|t| Tier::parse(t)).unwrap_or_else(|| usage());
            }
            "--replay" => {
                i += 1;
                replay = Some(args.get(i).cloned().unwrap_or_else(|| usage()));
            }
            _ => usage(),
        }
        i += 1;
    }
    let ctx = Ctx::new(&id, tier);
    if let Some(path) = replay {
        let txt = std::fs::read_to_string(&path).unwrap_or_else(|e| {
            eprintln!("MACHINERY: cannot read replay file {}: {}", path, e);
            std::process::exit(2)
        });
        let v: serde_json::Value = serde_json::from_str(&txt).unwrap_or_else(|e| {
            eprintln!("MACHINERY: replay file is not JSON: {}", e);
            std::process::exit(2)
        });
        let code = dispatch_replay(&ctx, &v);
        if owner {
            ctx::release_run_dir();
        }
        std::process::exit(code);
    }
    let code = dispatch(&ctx);
    if owner {
        ctx::release_run_dir();
    }
    std::process::exit(code);
}

fn dispatch(ctx: &Ctx) -> i32 {
    match ctx.property.as_str() {
        "C01" => c01::run(ctx),
        "C02" => c02::run(ctx),
        "C03" => c03::run(ctx),
        "C04" => c04::run(ctx),
        "C05" => c05::run(ctx),
        "C06" => c06::run(ctx),
        "C07" => c07::run(ctx),
        "C08" => c08::run(ctx),
        "C09" => c09::run(ctx),
        "C10" => c10::run(ctx),
        "C16" => c16::run(ctx),
        "C17" => c17::run(ctx),
        "C11" => c11::run(ctx),
        "C12" => c12::run(ctx),
        "C13" => c13::run(ctx),
        "C14" => c14::run(ctx),
        "C15" => c15::run(ctx),
        "C18" => c18::run(ctx),
        "C19" => c19::run(ctx),
        "C20" => c20::run(ctx),
        _ => {
            eprintln!("MACHINERY: no check for {}", ctx.property);
            2
        }
    }
}

fn dispatch_replay(ctx: &Ctx, v: &serde_json::Value) -> i32 {
    match ctx.property.as_str() {
        "C01" => c01::replay(ctx, v),
        "C02" => c02::replay(ctx, v),
        "C03" => c03::replay(ctx, v),
        "C04" => c04::replay(ctx, v),
        "C05" => c05::replay(ctx, v),
        "C06" => c06::replay(ctx, v),
        "C07" => c07::replay(ctx, v),
        "C08" => c08::replay(ctx, v),
        "C09" => c09::replay(ctx, v),
        "C10" => c10::replay(ctx, v),
        "C16" => c16::replay(ctx, v),
        "C17" => c17::replay(ctx, v),
        "C11" => c11::replay(ctx, v),
        "C12" => c12::replay(ctx, v),
        "C13" => c13::replay(ctx, v),
        "C14" => c14::replay(ctx, v),
        "C15" => c15::replay(ctx, v),
        "C18" => c18::replay(ctx, v),
        "C19" => c19::replay(ctx, v),
        "C20" => c20::replay(ctx, v),
        _ => {
            eprintln!("MACHINERY: no replay for {}", ctx.property);
            2
        }
    }
}

fn worker_sweeps(ctx: &Ctx) -> Vec<sweep::Sweep> {
    match ctx.property.as_str() {
        "C01" => c01::sweeps(ctx),
        "C02" => c02::sweeps(ctx),
        "C03" => c03::sweeps(ctx),
        "C04" => c04::sweeps(ctx),
        "C05" => c05::sweeps(ctx),
        "C12" => c12::sweeps(ctx),
        "C13" => c13::sweeps(ctx),
        "C16" => c16::sweeps(ctx),
        _ => {
            eprintln!("MACHINERY: no worker sweeps for {}", ctx.property);
            std::process::exit(3)
        }
    }
}
