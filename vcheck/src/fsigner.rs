//! Signers that are not the library's own: valid OpenPGP signatures as other tools lay them out
//! (issuer in the unhashed area, issuer fingerprint only, no issuer at all, issuer given twice, made by a
//! signing subkey) and signatures that are valid — but for other data. They implement the public
//! `Signing` trait, so the library attaches whatever they return.
use crate::keys::Key;
use pgp::composed::Deserializable;
use pgp::crypto::hash::HashAlgorithm;
use pgp::packet::{SignatureConfig, SignatureType, Subpacket, SubpacketData};
use pgp::types::{PublicKeyTrait, SecretKeyTrait};
use pgp::SignedSecretKey;
use std::path::Path;

#[derive(Clone, Copy, Debug, PartialEq, Eq)]
pub enum Layout {
    /// creation time, issuer key id and issuer fingerprint in the hashed area (what the library writes)
    LikeLibrary,
    /// creation time hashed, issuer key id in the unhashed area (what gpg writes)
    IssuerUnhashed,
    /// issuer fingerprint only, no issuer key id (what RFC 9580 style signers write)
    FingerprintOnly,
    /// neither issuer key id nor fingerprint
    NoIssuer,
    /// the issuer key id in the hashed area and once more in the unhashed area
    IssuerTwice,
    /// an unrelated key id in the unhashed area in front of the real issuer in the hashed area
    OtherIssuerToo,
}

pub const LAYOUTS: [Layout; 6] = [Layout::LikeLibrary, Layout::IssuerUnhashed, Layout::FingerprintOnly, Layout::NoIssuer, Layout::IssuerTwice, Layout::OtherIssuerToo];

#[derive(Clone, Copy, Debug, PartialEq, Eq)]
pub enum What {
    /// the data the library hands over (the serialised header)
    TheData,
    /// a valid signature — over the empty message
    EmptyMessage,
    /// a valid signature — over the data with one byte changed
    OtherData,
}

#[derive(Debug, Clone)]
pub struct ForeignSigner {
    key: SignedSecretKey,
    passphrase: String,
    pub layout: Layout,
    pub what: What,
    /// sign with the first signing-capable subkey instead of the primary key
    pub subkey: bool,
    algo: rpm::signature::AlgorithmType,
}

impl ForeignSigner {
    pub fn new(repo: &Path, key: Key, layout: Layout, what: What, subkey: bool) -> Option<ForeignSigner> {
        let p = repo.join("tests/assets/signing_keys").join(key.files().0);
        let raw = std::fs::read_to_string(&p).unwrap_or_else(|e| crate::ctx::machinery(&format!("{}: {}", p.display(), e)));
        let (sk, _) = SignedSecretKey::from_string(&raw).unwrap_or_else(|e| crate::ctx::machinery(&format!("secret key {}: {}", p.display(), e)));
        if subkey && sk.secret_subkeys.is_empty() {
            return None;
        }
        let algo = rpm::signature::Signing::algorithm(&key.signer(repo));
        Some(ForeignSigner { key: sk, passphrase: if key == Key::Rsa3072Protected { "thisisN0Tasecuredpassphrase".into() } else { String::new() }, layout, what, subkey, algo })
    }

    /// hex key id of the key (primary or subkey) that makes the signatures
    pub fn signing_key_id(&self) -> String {
        if self.subkey {
            hex::encode(self.key.secret_subkeys[0].key_id().as_ref())
        } else {
            hex::encode(self.key.key_id().as_ref())
        }
    }

    /// exactly one issuer key id subpacket, naming the signing key
    pub fn layout_has_exactly_one_issuer(&self) -> bool {
        matches!(self.layout, Layout::LikeLibrary | Layout::IssuerUnhashed)
    }

    pub fn has_issuer_key_id(&self) -> bool {
        !matches!(self.layout, Layout::FingerprintOnly | Layout::NoIssuer)
    }

    fn sign_with<K: SecretKeyTrait>(&self, k: &K, data: &[u8], t: rpm::Timestamp) -> Result<Vec<u8>, rpm::Error> {
        use chrono::TimeZone;
        let when = chrono::Utc.timestamp_opt(t.0.into(), 0).unwrap();
        let mut cfg = SignatureConfig::v4(SignatureType::Binary, k.algorithm(), HashAlgorithm::SHA2_256);
        cfg.hashed_subpackets.push(Subpacket::regular(SubpacketData::SignatureCreationTime(when)));
        let issuer = || Subpacket::regular(SubpacketData::Issuer(k.key_id()));
        let fpr = || Subpacket::regular(SubpacketData::IssuerFingerprint(k.fingerprint()));
        match self.layout {
            Layout::LikeLibrary => {
                cfg.hashed_subpackets.push(issuer());
                cfg.hashed_subpackets.push(fpr());
            }
            Layout::IssuerUnhashed => cfg.unhashed_subpackets.push(issuer()),
            Layout::FingerprintOnly => cfg.hashed_subpackets.push(fpr()),
            Layout::NoIssuer => {}
            Layout::IssuerTwice => {
                cfg.hashed_subpackets.push(issuer());
                cfg.unhashed_subpackets.push(issuer());
            }
            Layout::OtherIssuerToo => {
                cfg.unhashed_subpackets.push(Subpacket::regular(SubpacketData::Issuer(pgp::types::KeyId::from_slice(&[0x11, 0x22, 0x33, 0x44, 0x55, 0x66, 0x77, 0x88]).expect("key id"))));
                cfg.hashed_subpackets.push(issuer());
            }
        }
        let signed: Vec<u8> = match self.what {
            What::TheData => data.to_vec(),
            What::EmptyMessage => vec![],
            What::OtherData => {
                let mut d = data.to_vec();
                if let Some(b) = d.last_mut() {
                    *b ^= 1;
                } else {
                    d.push(1);
                }
                d
            }
        };
        let pw = self.passphrase.clone();
        let packet = cfg.sign(k, move || pw.clone(), signed.as_slice()).map_err(rpm::Error::SignError)?;
        let mut out = Vec::with_capacity(1024);
        pgp::packet::write_packet(&mut std::io::Cursor::new(&mut out), &packet).map_err(rpm::Error::SignError)?;
        Ok(out)
    }
}

impl rpm::signature::Signing for ForeignSigner {
    type Signature = Vec<u8>;
    fn sign(&self, mut data: impl std::io::Read, t: rpm::Timestamp) -> Result<Vec<u8>, rpm::Error> {
        let mut d = vec![];
        data.read_to_end(&mut d)?;
        if self.subkey {
            self.sign_with(&self.key.secret_subkeys[0], &d, t)
        } else {
            self.sign_with(&self.key, &d, t)
        }
    }
    fn algorithm(&self) -> rpm::signature::AlgorithmType {
        self.algo
    }
}
