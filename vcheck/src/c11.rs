//! C11 — builds with a source date are reproducible and clamped
//! (engine C over the environment answers the builder cannot control: hash seed × wall clock,
//! in fresh threads and in freshly started processes).
use crate::common::*;
use crate::ctx::Ctx;
use crate::interpose::{self, Scenario};
use crate::keys::Key;
use crate::oracles::*;
use crate::spec::*;
use serde_json::{json, Value};
use std::collections::BTreeMap;
use std::sync::Arc;
use vlib::par::par_fold;
use vlib::refhdr::{scan, value, Val};
use vlib::report::{catch, Acc, SubReport, Violation};

const SD: u32 = 1_600_000_000;

pub fn configs() -> Vec<(String, BuildSpec)> {
    let mut v = vec![];
    let base = |name: &str| {
        let mut s = BuildSpec::minimal();
        s.name = name.into();
        s.source_date = Some(SD);
        s
    };
    v.push(("no files".to_string(), base("c0")));
    let mut s = base("c1");
    s.files.push(FileSpec::new("/a/f", Content::Bytes(b"x".to_vec())));
    v.push(("one root-owned file".into(), s));
    // several distinct non-root users and groups: the interesting case
    for nusers in [2usize, 3, 5] {
        let mut s = base(&format!("c{}users", nusers));
        for i in 0..nusers {
            let mut f = FileSpec::new(&format!("/d/f{}", i), Content::Bytes(vec![i as u8; i + 1]));
            f.user = Some(format!("user{}", i + 1));
            f.group = Some(format!("group{}", (i * 2) % nusers + 1));
            f.mtime = [SD - 10, SD, SD + 10][i % 3];
            s.files.push(f);
        }
        s.changelog.push(("A <a@x> - 1".into(), "- entry".into(), SD - 1000));
        v.push((format!("{} distinct non-root users and groups, mtimes before/at/after the source date, changelog", nusers), s));
    }
    let mut s = v[3].1.clone();
    s.name = "c3signed-ed".into();
    s.sign = Some(Key::Ed25519);
    v.push(("3 users, signed with Ed25519".into(), s));
    let mut s = v[2].1.clone();
    s.name = "c2signed-rsa".into();
    s.sign = Some(Key::Rsa4096);
    v.push(("2 users, signed with RSA-4096".into(), s));
    let mut s = v[3].1.clone();
    s.name = "c3zoned".into();
    s.chrono_offset = Some(19_800);
    v.push(("3 users, source date and changelog time given as chrono DateTime at +05:30".into(), s));
    let mut s = v[3].1.clone();
    s.name = "c3zoned-west".into();
    s.chrono_offset = Some(-28_800);
    s.sign = Some(Key::Ed25519);
    v.push(("3 users, signed, source date given as chrono DateTime at -08:00".into(), s));
    let mut s = v[4].1.clone();
    s.name = "c5rich".into();
    s.compression = Comp::Gzip(6);
    s.scripts.insert("pre_install", ScriptSpec { script: "true".into(), flags: None, prog: None });
    s.deps.insert("requires", vec![DepSpec { ctor: "any", name: "x".into(), version: "".into() }]);
    v.push(("5 users, gzip, scriptlet, dependency".into(), s));
    // several optional rpmlib features at once: default (zstd) compression, file capabilities, large-file layout
    let mut s = v[3].1.clone();
    s.name = "c3features".into();
    s.compression = Comp::Zstd(3);
    s.large_files = true;
    for f in s.files.iter_mut() {
        f.caps = Some("cap_net_raw=ep".into());
    }
    v.push(("3 users, zstd-3 payload + file capabilities + large-file layout (three optional rpmlib features)".into(), s));
    let mut s = v[2].1.clone();
    s.name = "c2features".into();
    s.compression = Comp::Zstd(1);
    s.files[0].caps = Some("cap_chown=p".into());
    v.push(("2 users, zstd payload + file capabilities".into(), s));
    // the same dependency given more than once, and the dependencies the builder derives from file owners given by hand as well
    let mut s = v[3].1.clone();
    s.name = "c3dups".into();
    let any = |n: &str| DepSpec { ctor: "any", name: n.into(), version: "".into() };
    s.deps.insert("requires", vec![any("r1"), any("r2"), any("r1"), any("r3"), any("r2"), any("r4"), any("r5")]);
    s.deps.insert("provides", vec![any("p1"), any("p2"), any("p3"), any("p1")]);
    s.deps.insert("recommends", vec![DepSpec { ctor: "user", name: "user2".into(), version: "".into() }, any("m1"), DepSpec { ctor: "group", name: "group1".into(), version: "".into() }, any("m2"), DepSpec { ctor: "user", name: "user2".into(), version: "".into() }]);
    v.push(("3 users, dependencies listed more than once, owner recommends also given by hand".into(), s));
    // a builder started from Default::default(): the clamping must not depend on how the builder came to be
    let mut s = v[3].1.clone();
    s.from_default = true;
    for f in [&mut s.name, &mut s.version, &mut s.license, &mut s.arch, &mut s.summary] {
        f.clear();
    }
    v.push(("3 users, mtimes before/at/after the source date, builder started from Default::default()".into(), s));
    // everything that has several members at once: whatever a builder might collect in a hash map on the way
    let mut s = crate::corpus::rich();
    s.name = "cmulti".into();
    s.source_date = Some(SD);
    s.compression = Comp::Gzip(1);
    let clause_sets = ["cap_net_raw+ep cap_chown+i cap_kill=p cap_fowner-e cap_setuid+eip", "cap_chown,cap_kill=ep cap_fowner+i", "=p cap_setgid+e cap_net_admin-p cap_sys_admin+i"];
    let mut k = 0;
    for f in s.files.iter_mut() {
        if matches!(f.mode, ModeSpec::Inherit(_) | ModeSpec::Regular(_)) && f.caps.is_none() {
            f.caps = Some(clause_sets[k % clause_sets.len()].into());
            k += 1;
        }
    }
    for (i, kind) in DEP_KINDS.iter().enumerate() {
        let e = s.deps.entry(kind).or_default();
        for j in 0..6 {
            e.push(DepSpec { ctor: ["any", "eq", "less", "greater_eq"][(i + j) % 4], name: format!("{}-{}", kind, (j * 7 + i) % 6), version: format!("{}.{}", i, j) });
        }
    }
    for (j, sk) in SCRIPT_KINDS.iter().enumerate() {
        s.scripts.entry(sk).or_insert(ScriptSpec { script: format!("echo {}", j), flags: Some(j as u32 % 8), prog: Some(vec!["/bin/sh".into(), format!("-{}", j)]) });
    }
    for j in 0..6u32 {
        s.changelog.push((format!("P{} <p{}@x> - {}", j, j, j), format!("- entry {}", j), SD - 1000 - j * 86_400));
    }
    v.push(("the rich configuration with several members of everything: capability texts of three to five clauses with different flag parts, six dependencies of each kind, all nine scriptlets, seven changelog entries, many directories and owners".into(), s));
    v
}

/// Build on a fresh thread whose hash seed and wall clock are decided by the harness.
fn build_with(env: &Arc<Env>, spec: &BuildSpec, seed: u64, clock: i64) -> Result<(Vec<u8>, Vec<String>), String> {
    let env = env.clone();
    let spec = spec.clone();
    std::thread::spawn(move || {
        interpose::set(Some(Scenario { seed, clock_secs: clock }));
        // sentinel: which iteration order does this seed induce on a set of the same owner names?
        let mut names: Vec<String> = spec.files.iter().filter_map(|f| f.user.clone()).collect();
        names.sort();
        names.dedup();
        let r = catch(|| spec.build_bytes(&env).map(|(_, b)| b));
        // the sentinel set is created after the build so that the builder sees the thread's first hash states
        let sentinel: std::collections::HashSet<String> = names.into_iter().collect();
        let order: Vec<String> = sentinel.into_iter().collect();
        interpose::set(None);
        match r {
            Ok(Ok(b)) => Ok((b, order)),
            Ok(Err(e)) => Err(e),
            Err(p) => Err(format!("panic at {}", p.at)),
        }
    })
    .join()
    .map_err(|_| "build thread died".to_string())?
}

/// All timestamps of a package: (what, value)
pub fn timestamps(x: &[u8]) -> Vec<(String, u32)> {
    let mut out = vec![];
    let Some((_, sig, hdr, _)) = scan(x) else { return out };
    let get = |h: &vlib::refhdr::RawHeader, tag: u32| h.entries.iter().skip(1).find(|e| e.tag == tag).and_then(|e| value(e, &h.store).ok());
    if let Some(Val::Int32(v)) = get(&hdr, 1006) {
        for t in v {
            out.push(("BUILDTIME".into(), t));
        }
    }
    if let Some(Val::Int32(v)) = get(&hdr, 1034) {
        for (i, t) in v.iter().enumerate() {
            out.push((format!("FILEMTIMES[{}]", i), *t));
        }
    }
    // modification times inside the cpio entry headers of the payload
    let comp = match get(&hdr, 1125) {
        Some(Val::Str(s)) => Some(String::from_utf8_lossy(&s).to_string()),
        _ => None,
    };
    if let Some((_, _, _, l)) = scan(x) {
        if let Ok(arch) = crate::validator::decompress(comp.as_deref(), &x[l.payload_off..]) {
            let sizes: Vec<u64> = match (get(&hdr, 5008), get(&hdr, 1028)) {
                (Some(Val::Int64(v)), _) => v,
                (_, Some(Val::Int32(v))) => v.iter().map(|x| *x as u64).collect(),
                _ => vec![],
            };
            if let Ok((ents, _)) = vlib::refcpio::read_archive(&arch, &sizes) {
                for (i, e) in ents.iter().enumerate() {
                    if let vlib::refcpio::Ent::Newc(c) = e {
                        out.push((format!("cpio entry mtime[{}]", i), c.mtime));
                    }
                }
            }
        }
    }
    // OpenPGP signature creation time, from the legacy binary tags (same packet as in the OpenPGP tag)
    for tag in [268u32, 267] {
        if let Some(Val::Bin(b)) = get(&sig, tag) {
            let mut cur = std::io::Cursor::new(&b[..]);
            for pk in pgp::packet::PacketParser::new(&mut cur) {
                if let Ok(pgp::packet::Packet::Signature(s)) = pk {
                    if let Some(t) = s.created() {
                        out.push((format!("signature creation time (tag {})", tag), t.timestamp() as u32));
                    }
                }
            }
        }
    }
    out
}

pub fn child_main(args: &[String]) -> ! {
    // vcheck c11-child <config index> [seed clock]   → prints the SHA-256 of the built package
    let idx: usize = args.get(0).and_then(|s| s.parse().ok()).unwrap_or(0);
    let ctx = Ctx::new("C11", crate::ctx::Tier::Quick);
    let env = Arc::new(Env::new(&ctx.repo, "c11-child"));
    let cfg = configs();
    let spec = &cfg[idx].1;
    let r = if let (Some(seed), Some(clock)) = (args.get(1).and_then(|s| s.parse().ok()), args.get(2).and_then(|s| s.parse().ok())) {
        // optionally an earlier build in this process, under another wall clock: it must leave no trace in the next one
        if let Some(warm) = args.get(3).and_then(|s| s.parse::<i64>().ok()) {
            let mut other = cfg[1].1.clone();
            other.name = "warmup".into();
            other.source_date = Some((warm - 100).max(0) as u32);
            let _ = build_with(&env, &other, seed ^ 0x55, warm);
            let _ = build_with(&env, &cfg[0].1, seed ^ 0xaa, warm);
        }
        build_with(&env, spec, seed, clock).map(|x| x.0)
    } else {
        // the operating system's own randomness and clock
        spec.build_bytes(&env).map(|x| x.1)
    };
    match r {
        Ok(b) => {
            println!("{}", sha256_hex(&b));
            std::process::exit(0)
        }
        Err(e) => {
            println!("ERR {}", e);
            std::process::exit(0)
        }
    }
}

pub fn run(ctx: &Ctx) -> i32 {
    if let Err(e) = interpose::self_test() {
        crate::ctx::machinery(&format!("interposition self-test failed: {}", e));
    }
    let env = Arc::new(Env::new(&ctx.repo, "c11"));
    let cfg = configs();
    let seeds: u64 = if ctx.thorough() { 20_000 } else { 256 };
    let clocks: [i64; 4] = [SD as i64, SD as i64 + 1, SD as i64 + 1_000_000, u32::MAX as i64];
    // warm the source-file cache outside any scenario
    for (_, s) in &cfg {
        let _ = s.build_bytes(&env);
    }
    let per = seeds * clocks.len() as u64;
    let n = cfg.len() as u64 * per;
    let results: std::sync::Mutex<BTreeMap<usize, BTreeMap<String, (u64, u64, i64)>>> = Default::default();
    let orders: std::sync::Mutex<BTreeMap<usize, std::collections::BTreeSet<Vec<String>>>> = Default::default();
    let acc = merge(par_fold(n, Acc::new, |i, acc| {
        let ci = (i / per) as usize;
        let seed = i % per / clocks.len() as u64;
        let clock = clocks[(i % clocks.len() as u64) as usize];
        let (name, spec) = &cfg[ci];
        // signed configurations are expensive with RSA: fewer seeds
        if spec.sign == Some(Key::Rsa4096) && seed >= 16 {
            return;
        }
        acc.evals += 1;
        let case = || json!({"configuration": name, "spec": spec.to_json(), "hash_seed": seed, "clock": clock});
        match build_with(&env, spec, seed, clock) {
            Err(e) => acc.viol(Violation::new("seed-clock", format!("build fails: {}", e), case()).sig("clause", "build-fails").rank(i)),
            Ok((bytes, order)) => {
                acc.nontrivial += 1;
                let h = sha256_hex(&bytes);
                results.lock().unwrap().entry(ci).or_default().entry(h).or_insert((0, seed, clock)).0 += 1;
                orders.lock().unwrap().entry(ci).or_default().insert(order);
                for (what, t) in timestamps(&bytes) {
                    if t > SD {
                        acc.viol(
                            Violation::new("seed-clock", format!("{} = {} is later than the source date {} (clock {})", what, t, SD, clock), case())
                                .sig("clause", "timestamp-after-source-date")
                                .sig("which", what.split('[').next().unwrap_or("").to_string())
                                .rank(i),
                        );
                    }
                }
                if i % (per / 2 + 1) == 0 {
                    acc.sample(i, || json!({"configuration": name, "hash_seed": seed, "clock": clock, "package_sha256": sha256_hex(&bytes), "timestamps": timestamps(&bytes)}));
                }
            }
        }
    }));
    let mut acc = acc;
    let results = results.into_inner().unwrap();
    let orders = orders.into_inner().unwrap();
    let mut cov = vec![];
    for (ci, (name, spec)) in cfg.iter().enumerate() {
        let distinct = results.get(&ci).map(|m| m.len()).unwrap_or(0);
        let k = spec.files.iter().filter_map(|f| f.user.clone()).collect::<std::collections::BTreeSet<_>>().len();
        let fact: usize = (1..=k.max(1)).product();
        cov.push(json!({"configuration": name, "distinct_outputs": distinct, "owner_set_orders_seen": orders.get(&ci).map(|o| o.len()).unwrap_or(0), "of_possible_orders": fact}));
        acc.count(&format!("configuration {:?}: {} distinct output(s)", name, distinct));
        if distinct > 1 {
            let m = &results[&ci];
            let ex: Vec<_> = m.iter().take(3).map(|(h, (n, s, c))| json!({"sha256": h, "runs": n, "first_seed": s, "first_clock": c})).collect();
            acc.viol(
                Violation::new("seed-clock", format!("configuration {:?}: {} different packages from the same inputs", name, distinct), json!({"configuration": name, "spec": spec.to_json(), "outputs": ex}))
                    .sig("clause", "not-reproducible")
                    .rank(ci as u64),
            );
        }
    }
    let s1 = SubReport::new(
        "seed-clock",
        "C",
        &format!(
            "{} configurations (0–5 files, up to 5 distinct non-root users and groups, file mtimes before / at / after the source date, changelog, gzip, unsigned / Ed25519 / RSA-4096) × hash seed ∈ 0..{} (RSA: 0..16) × wall clock ∈ {{sd, sd+1, sd+10^6, 2^32−1}}, each build on a fresh thread whose RandomState seed (getrandom) and SystemTime::now() (clock_gettime) are answered by the harness. Oracle: all outputs of a configuration byte-identical; BUILDTIME, every FILEMTIMES item, every cpio entry mtime in the (decompressed) payload and the OpenPGP signature creation time ≤ source date. non-trivial = build that completed",
            cfg.len(), seeds
        ),
        acc,
    )
    .extra("coverage_of_iteration_orders", json!(cov));

    // ---- freshly started processes: OS randomness, TZ, working directory
    let mut b = Acc::new();
    let exe = ctx.exe();
    // the default environment and every single deviation from it, each with the OS's own randomness / clock and with a harness-chosen seed / clock
    #[derive(Clone)]
    struct EnvDev {
        name: &'static str,
        vars: Vec<(&'static str, String)>,
        cwd: Option<std::path::PathBuf>,
        umask: Option<u32>,
    }
    let dev = |name: &'static str, vars: &[(&'static str, &str)]| EnvDev { name, vars: vars.iter().map(|(k, v)| (*k, v.to_string())).collect(), cwd: None, umask: None };
    let mut envs: Vec<EnvDev> = vec![
        dev("default", &[]),
        dev("TZ=UTC", &[("TZ", "UTC")]),
        dev("TZ=Asia/Kathmandu", &[("TZ", "Asia/Kathmandu")]),
        dev("TZ=America/Los_Angeles", &[("TZ", "America/Los_Angeles")]),
        dev("TZ=Pacific/Kiritimati", &[("TZ", "Pacific/Kiritimati")]),
        dev("TZ empty", &[("TZ", "")]),
        dev("SOURCE_DATE_EPOCH later than the configured source date", &[("SOURCE_DATE_EPOCH", &(SD as u64 + 86_400).to_string())]),
        dev("SOURCE_DATE_EPOCH earlier than the configured source date", &[("SOURCE_DATE_EPOCH", &(SD as u64 - 86_400).to_string())]),
        dev("SOURCE_DATE_EPOCH=0", &[("SOURCE_DATE_EPOCH", "0")]),
        dev("SOURCE_DATE_EPOCH not a number", &[("SOURCE_DATE_EPOCH", "yesterday")]),
        dev("German locale", &[("LANG", "de_DE.UTF-8"), ("LC_ALL", "de_DE.UTF-8"), ("LANGUAGE", "de")]),
        dev("HOME / USER / LOGNAME / HOSTNAME of another account", &[("HOME", "/nonexistent"), ("USER", "builder"), ("LOGNAME", "builder"), ("HOSTNAME", "buildhost.example")]),
        dev("RPM-style build variables", &[("RPM_BUILD_ROOT", "/nonexistent/buildroot"), ("RPM_PACKAGE_NAME", "other"), ("RPM_ARCH", "s390x"), ("RPM_OS", "aix")]),
    ];
    envs.push(EnvDev { name: "working directory /", vars: vec![], cwd: Some("/".into()), umask: None });
    envs.push(EnvDev { name: "working directory = scratch", vars: vec![], cwd: Some(env.dir().to_path_buf()), umask: None });
    envs.push(EnvDev { name: "TMPDIR elsewhere", vars: vec![("TMPDIR", env.dir().to_string_lossy().to_string())], cwd: None, umask: None });
    envs.push(EnvDev { name: "umask 077", vars: vec![], cwd: None, umask: Some(0o077) });
    envs.push(EnvDev { name: "umask 000", vars: vec![], cwd: None, umask: Some(0) });
    // process history: other packages were built in the same process before, under a wall clock before / after the source date
    envs.push(EnvDev { name: "earlier builds in the process, a day before the source date", vars: vec![("VCHECK_WARM_CLOCK", (SD as i64 - 86_400).to_string())], cwd: None, umask: None });
    envs.push(EnvDev { name: "earlier builds in the process, a day after the source date", vars: vec![("VCHECK_WARM_CLOCK", (SD as i64 + 86_400).to_string())], cwd: None, umask: None });
    let runs = envs.len() * 2;
    for (ci, (name, _)) in cfg.iter().enumerate() {
        if cfg[ci].1.sign == Some(Key::Rsa4096) {
            continue;
        }
        let mut seen: BTreeMap<String, u32> = BTreeMap::new();
        let mut by_env: BTreeMap<String, Vec<&'static str>> = BTreeMap::new();
        for r in 0..runs {
            b.evals += 1;
            let e = &envs[r / 2];
            let mut cmd = std::process::Command::new(&exe);
            cmd.arg("c11-child").arg(ci.to_string()).current_dir(e.cwd.clone().unwrap_or_else(std::env::temp_dir));
            for v in ["TZ", "SOURCE_DATE_EPOCH", "LANG", "LC_ALL", "LANGUAGE"] {
                cmd.env_remove(v);
            }
            for (k, v) in &e.vars {
                cmd.env(k, v);
            }
            if let Some(um) = e.umask {
                use std::os::unix::process::CommandExt;
                unsafe {
                    cmd.pre_exec(move || {
                        libc::umask(um as libc::mode_t);
                        Ok(())
                    });
                }
            }
            let warm = e.vars.iter().find(|(k, _)| *k == "VCHECK_WARM_CLOCK").map(|(_, v)| v.clone());
            if r % 2 == 1 || warm.is_some() {
                cmd.arg((1000 + r).to_string()).arg((SD as i64 + 5 + r as i64 * 977).to_string());
            }
            if let Some(w) = warm {
                cmd.arg(w);
            }
            match cmd.output() {
                Ok(o) => {
                    let line = String::from_utf8_lossy(&o.stdout).trim().to_string();
                    if line.starts_with("ERR") || line.len() != 64 {
                        b.viol(Violation::new("processes", format!("child build failed: {} {}", line, String::from_utf8_lossy(&o.stderr)), json!({"configuration": name, "environment": e.name})).sig("clause", "build-fails"));
                    } else {
                        b.nontrivial += 1;
                        *seen.entry(line.clone()).or_insert(0) += 1;
                        by_env.entry(line).or_default().push(e.name);
                    }
                }
                Err(e) => crate::ctx::machinery(&format!("cannot start child: {}", e)),
            }
        }
        // must also equal what the in-process runs produced
        if let Some(m) = results.get(&ci) {
            for h in m.keys() {
                *seen.entry(h.clone()).or_insert(0) += 0;
            }
        }
        b.count(&format!("configuration {:?}: {} distinct output(s) across processes", name, seen.len()));
        if seen.len() > 1 {
            b.viol(Violation::new("processes", format!("configuration {:?}: {} different packages across freshly started processes / threads", name, seen.len()), json!({"configuration": name, "outputs": seen, "environments_per_output": by_env})).sig("clause", "not-reproducible").rank(ci as u64));
        }
        b.sample(ci as u64, || json!({"configuration": name, "process_runs": runs, "outputs": seen}));
    }
    let s2 = SubReport::new("processes", "C", &format!("each unsigned / Ed25519 configuration built in {} freshly started processes (odd runs with harness-chosen seed and clock, even runs with the operating system's own randomness and clock) in the default environment and under every single deviation from it: {:?}; all outputs identical to each other and to the in-process runs (whose timestamps are checked against the source date)", runs, envs.iter().map(|e| e.name).collect::<Vec<_>>()), b);
    for s in [&s1, &s2] {
        if s.acc.nontrivial == 0 {
            crate::ctx::machinery(&format!("sub-check {} built nothing: vacuous", s.name));
        }
    }
    ctx.finish(
        "fault_enumeration",
        vec![s1, s2],
        &[
            "std looks getrandom up with dlsym and routes SystemTime::now through libc clock_gettime; both are interposed in the harness binary and a start-up self-test asserts that the interposition takes effect",
            "S consecutive seeds are enumerated, not all 2^128; the evidence reports how many of the k! iteration orders of the owner set the enumerated seeds induce",
            "clock values below the source date are excluded (the statement only promises reproducibility once the source date is in the past); the builder is single-threaded, so there are no thread schedules to explore",
        ],
        vec![],
    )
}

pub fn replay(ctx: &Ctx, v: &Value) -> i32 {
    let c = &v["case"];
    let env = Arc::new(Env::new(&ctx.repo, "c11-replay"));
    let name = c["configuration"].as_str().unwrap_or("");
    let Some((_, spec)) = configs().into_iter().find(|(n, _)| n == name) else {
        println!("unknown configuration");
        return 0;
    };
    let mut seen = std::collections::BTreeSet::new();
    for seed in 0..32 {
        if let Ok((b, _)) = build_with(&env, &spec, seed, SD as i64 + 5) {
            seen.insert(sha256_hex(&b));
            for (w, t) in timestamps(&b) {
                if t > SD {
                    println!("REPRODUCED: {} = {} > source date", w, t);
                    return 1;
                }
            }
        }
    }
    println!("{} distinct output(s) over 32 hash seeds", seen.len());
    if seen.len() > 1 {
        println!("REPRODUCED: not reproducible");
        1
    } else {
        0
    }
}
