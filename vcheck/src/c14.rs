//! C14 — serialisation does not depend on how the sink or source chunks I/O
//! (engine C: scripted Write / BufRead implementations, iterative deviation bounding).
use crate::common::*;
use crate::ctx::Ctx;
use crate::keys::Key;
use crate::spec::*;
use serde_json::{json, Value};
use std::cell::RefCell;
use std::io::{BufRead, Read, Write};
use std::rc::Rc;
use vlib::explore::{explore, pick, Ch, Chooser};
use vlib::par::par_fold;
use vlib::refhdr::{assemble, scan, RawEntry, RawHeader, RawLead, Val};
use vlib::report::{catch, Acc, SubReport, Violation};

// ------------------------------------------------------------------ scripted sink

enum SinkMode {
    /// ask the chooser at every call: 0 whole, 1 one byte, 2 len-1, 3 Interrupted, 4 Ok(0), 5 error
    Chooser(Ch),
    /// accept at most `chunk` bytes per call; fail once `fail_at` bytes were emitted
    Fixed { chunk: usize, fail_at: Option<usize>, short_final: bool },
    /// like a `&mut [u8]` of `cap` bytes: accepts what fits, then answers Ok(0) for ever
    Full { cap: usize },
}

struct Sink {
    mode: SinkMode,
    out: Rc<RefCell<Vec<u8>>>,
    calls: Rc<RefCell<usize>>,
}

impl Write for Sink {
    fn write(&mut self, buf: &[u8]) -> std::io::Result<usize> {
        *self.calls.borrow_mut() += 1;
        if buf.is_empty() {
            return Ok(0);
        }
        match &self.mode {
            SinkMode::Chooser(ch) => {
                let c = pick(ch, 3, 6);
                let n = match c {
                    0 => buf.len(),
                    1 => 1,
                    2 => (buf.len() - 1).max(1),
                    3 => return Err(std::io::ErrorKind::Interrupted.into()),
                    4 => return Ok(0),
                    _ => return Err(std::io::Error::new(std::io::ErrorKind::Other, "scripted failure")),
                };
                self.out.borrow_mut().extend_from_slice(&buf[..n]);
                Ok(n)
            }
            SinkMode::Full { cap } => {
                let have = self.out.borrow().len();
                let n = buf.len().min(cap - have.min(*cap));
                if n == 0 {
                    // a writer that keeps offering data to a sink that takes nothing never terminates
                    if *self.calls.borrow() > cap + 10_000 {
                        panic!("livelock: the writer keeps calling a sink that has answered Ok(0) {} times", *self.calls.borrow() - *cap);
                    }
                    return Ok(0);
                }
                self.out.borrow_mut().extend_from_slice(&buf[..n]);
                Ok(n)
            }
            SinkMode::Fixed { chunk, fail_at, short_final } => {
                let have = self.out.borrow().len();
                let mut n = buf.len().min(*chunk);
                if let Some(f) = fail_at {
                    if have >= *f {
                        return Err(std::io::Error::new(std::io::ErrorKind::Other, "device full"));
                    }
                    if have + n > *f {
                        if *short_final {
                            n = f - have; // a short write up to the failure offset, the next call fails
                        } else {
                            return Err(std::io::Error::new(std::io::ErrorKind::Other, "device full"));
                        }
                    }
                }
                self.out.borrow_mut().extend_from_slice(&buf[..n]);
                Ok(n)
            }
        }
    }
    /// vectored writes: the same answers, counted over all slices together (a partial vectored
    /// write may end inside any slice)
    fn write_vectored(&mut self, bufs: &[std::io::IoSlice<'_>]) -> std::io::Result<usize> {
        let flat: Vec<u8> = bufs.iter().flat_map(|b| b.iter().copied()).collect();
        self.write(&flat)
    }
    fn flush(&mut self) -> std::io::Result<()> {
        Ok(())
    }
}

// ------------------------------------------------------------------ scripted source

enum SrcMode {
    /// 0 up to `base` bytes (a small buffer), 1 one byte, 2 Interrupted, 3 everything available
    Chooser(Ch, usize),
    Fixed(usize),
}

struct Source<'a> {
    data: &'a [u8],
    pos: usize,
    window: usize,
    mode: SrcMode,
}

impl Read for Source<'_> {
    fn read(&mut self, buf: &mut [u8]) -> std::io::Result<usize> {
        let avail = self.fill_buf()?;
        let n = avail.len().min(buf.len());
        buf[..n].copy_from_slice(&avail[..n]);
        self.consume(n);
        Ok(n)
    }
}

impl BufRead for Source<'_> {
    fn fill_buf(&mut self) -> std::io::Result<&[u8]> {
        if self.window == 0 && self.pos < self.data.len() {
            let rest = self.data.len() - self.pos;
            self.window = match &self.mode {
                SrcMode::Fixed(k) => rest.min(*k),
                SrcMode::Chooser(ch, base) => match pick(ch, 4, 4) {
                    0 => rest.min(*base),
                    1 => 1,
                    2 => return Err(std::io::ErrorKind::Interrupted.into()),
                    _ => rest,
                },
            };
        }
        Ok(&self.data[self.pos..self.pos + self.window])
    }
    fn consume(&mut self, n: usize) {
        let n = n.min(self.window);
        self.pos += n;
        self.window -= n;
    }
}

// ------------------------------------------------------------------ subjects

struct Subject {
    name: String,
    pkg: rpm::Package,
    canon: Vec<u8>,
    payload_off: usize,
}

fn subjects(ctx: &Ctx, env: &Env) -> Vec<Subject> {
    let mut v = vec![];
    let mut add = |name: String, bytes: Vec<u8>| {
        let pkg = rpm::Package::parse(&mut &bytes[..]).unwrap_or_else(|e| crate::ctx::machinery(&format!("subject {} does not parse: {}", name, e)));
        let mut canon = vec![];
        pkg.write(&mut canon).unwrap();
        let payload_off = scan(&canon).unwrap().3.payload_off;
        v.push(Subject { name, pkg, canon, payload_off });
    };
    add("built-minimal".into(), BuildSpec::minimal().build_bytes(env).unwrap().1);
    let mut s = crate::corpus::one_file();
    s.sign = Some(Key::Ed25519);
    add("built-signed-one-file".into(), s.build_bytes(env).unwrap().1);
    // hand-encoded, every signature padding 0..7
    let pads: Vec<usize> = if ctx.thorough() { (0..8).collect() } else { vec![1, 4, 7] };
    for pad in pads {
        let len = (8 - pad) % 8 + 8;
        let sig = RawHeader::new(vec![RawEntry { tag: 1004, ty: 7, offset: 0, count: len as u32 }], (0..len as u8).collect());
        let main = RawHeader::layout(&[(1000, Val::str("n")), (1003, Val::Int32(vec![7])), (1004, Val::i18n(&["s"]))]);
        add(format!("hand-encoded-pad{}", pad), assemble(&RawLead::new("n"), &sig, 0, &main, b"payload").0);
    }
    // rpmbuild-made packages (their headers have regions, legacy signature tags and other paddings than the builder's)
    for rel in ["test_assets/fixture_packages/rpm-empty-0-0.x86_64.rpm", "test_assets/fixture_packages/rpm-empty-0-0.src.rpm", "test_assets/ima_signed.rpm"] {
        let b = std::fs::read(ctx.asset(rel)).unwrap_or_else(|e| crate::ctx::machinery(&format!("{}: {}", rel, e)));
        add(format!("asset {}", rel.rsplit('/').next().unwrap()), b);
    }
    // packages without a single payload byte (the file ends where the payload would start)
    {
        let sig = RawHeader::new(vec![RawEntry { tag: 1004, ty: 7, offset: 0, count: 9 }], (0..9u8).collect());
        let main = RawHeader::layout(&[(1000, Val::str("n")), (1003, Val::Int32(vec![7])), (1004, Val::i18n(&["s"]))]);
        add("hand-encoded-no-payload".into(), assemble(&RawLead::new("n"), &sig, 0, &main, b"").0);
        let b = crate::corpus::one_file().build_bytes(env).unwrap().1;
        let off = scan(&b).unwrap().3.payload_off;
        add("built-one-file-cut-at-the-payload".into(), b[..off].to_vec());
    }
    // main headers (without a region trailer at the end) whose store ends with each kind of data
    for (nm, last) in [("string", Val::str("last-string")), ("binary", Val::Bin(vec![1, 2, 3, 4, 5])), ("int32", Val::Int32(vec![1, 2])), ("string-array", Val::strs(&["x", "yz"]))] {
        let main = RawHeader::layout(&[(1003, Val::Int32(vec![7])), (1004, Val::i18n(&["s"])), (1000, last)]);
        let sig = RawHeader::new(vec![], vec![]);
        add(format!("hand-encoded-store-ends-with-{}", nm), assemble(&RawLead::new("n"), &sig, 0, &main, b"pay").0);
    }
    v
}

fn write_outcome(sub: &str, s: &Subject, meta_only: bool, r: Result<Result<(), String>, vlib::report::Panic>, out: &[u8], rank: u64, case: &dyn Fn() -> Value, acc: &mut Acc) {
    let canon: &[u8] = if meta_only { &s.canon[..s.payload_off] } else { &s.canon };
    match r {
        Err(p) => acc.viol(panic_violation(sub, &p, case()).sig("direction", "write").rank(rank)),
        Ok(Ok(())) => {
            acc.count("write: Ok");
            if out != canon {
                acc.viol(
                    Violation::new(sub, format!("write returned Ok after emitting {} bytes; the canonical serialisation has {} bytes{}", out.len(), canon.len(), if canon.starts_with(out) { " (output is a strict prefix)" } else { " (output is not even a prefix)" }), case())
                        .sig("clause", "ok-but-not-canonical")
                        .rank(rank),
                );
            }
        }
        Ok(Err(_)) => {
            acc.count("write: Err");
            if !canon.starts_with(out) {
                acc.viol(Violation::new(sub, format!("write failed after emitting {} bytes that are not a prefix of the canonical bytes", out.len()), case()).sig("clause", "err-not-prefix").rank(rank));
            }
        }
    }
}

/// As `do_write`, with the library's public hashing adapter between the package and the sink: returns also whether the digest the
/// adapter reports is the digest of what the sink received (whether the write ended with Ok or with an error).
fn do_write_hashed(s: &Subject, mode: SinkMode) -> (Result<Result<(), String>, vlib::report::Panic>, Vec<u8>, bool) {
    use sha2::Digest;
    let out = Rc::new(RefCell::new(vec![]));
    let calls = Rc::new(RefCell::new(0usize));
    let mut w = rpm::Sha256Writer::new(Sink { mode, out: out.clone(), calls: calls.clone() });
    let r = catch(|| s.pkg.write(&mut w).map_err(|e| e.to_string()));
    let o = out.borrow().clone();
    let same = catch(|| w.into_digest().as_ref().to_vec()).map(|d| d == sha2::Sha256::digest(&o).to_vec()).unwrap_or(false);
    (r, o, same)
}

fn do_write(s: &Subject, meta_only: bool, mode: SinkMode) -> (Result<Result<(), String>, vlib::report::Panic>, Vec<u8>, usize) {
    let out = Rc::new(RefCell::new(vec![]));
    let calls = Rc::new(RefCell::new(0usize));
    let mut sink = Sink { mode, out: out.clone(), calls: calls.clone() };
    let r = catch(|| {
        if meta_only {
            s.pkg.metadata.write(&mut sink).map_err(|e| e.to_string())
        } else {
            s.pkg.write(&mut sink).map_err(|e| e.to_string())
        }
    });
    let o = out.borrow().clone();
    let c = *calls.borrow();
    (r, o, c)
}

fn read_outcome(sub: &str, s: &Subject, data: &[u8], truncated: Option<usize>, r: Result<Result<rpm::Package, String>, vlib::report::Panic>, rank: u64, case: &dyn Fn() -> Value, acc: &mut Acc) {
    match r {
        Err(p) => acc.viol(panic_violation(sub, &p, case()).sig("direction", "read").rank(rank)),
        Ok(res) => {
            let cut = truncated.unwrap_or(data.len());
            if cut < s.payload_off {
                acc.count("read: truncated before the payload");
                if res.is_ok() {
                    acc.viol(Violation::new(sub, format!("input truncated at {} (payload starts at {}) is accepted", cut, s.payload_off), case()).sig("clause", "truncated-metadata-accepted").rank(rank));
                }
            } else {
                match res {
                    Err(e) => acc.viol(Violation::new(sub, format!("a complete metadata section is rejected depending on how the source chunks reads: {}", e), case()).sig("clause", "chunking-changes-result").rank(rank)),
                    Ok(p) => {
                        acc.count("read: Ok");
                        if p.metadata != s.pkg.metadata || p.content[..] != data[s.payload_off..cut] {
                            acc.viol(Violation::new(sub, "parse result depends on how the source chunks reads".to_string(), case()).sig("clause", "chunking-changes-result").rank(rank));
                        }
                    }
                }
            }
        }
    }
}

pub fn run(ctx: &Ctx) -> i32 {
    let env = Env::new(&ctx.repo, "c14");
    let subs_ = subjects(ctx, &env);
    let mut reports = vec![];

    // ---- (1)+(2) writing: failure at every offset, every fixed chunk size
    let mut a = Acc::new();
    for (si, s) in subs_.iter().enumerate() {
        for meta_only in [false, true] {
            let len = if meta_only { s.payload_off } else { s.canon.len() };
            for chunk in (1..=64).chain([usize::MAX]) {
                a.evals += 1;
                a.nontrivial += 1;
                let (r, out, calls) = do_write(s, meta_only, SinkMode::Fixed { chunk, fail_at: None, short_final: false });
                write_outcome("write-chunks", s, meta_only, r, &out, (si * 100 + chunk.min(99)) as u64, &|| json!({"subject": s.name, "metadata_only": meta_only, "sink": format!("accepts at most {} byte(s) per call", chunk)}), &mut a);
                if chunk == 1 && !meta_only {
                    a.sample(si as u64, || json!({"subject": s.name, "bytes": len, "write_calls_with_1_byte_sink": calls}));
                }
            }
            for off in 0..=len {
                for (chunk, short_final) in [(usize::MAX, false), (usize::MAX, true), (7, true)] {
                    a.evals += 1;
                    a.nontrivial += 1;
                    let (r, out, _) = do_write(s, meta_only, SinkMode::Fixed { chunk, fail_at: Some(off), short_final });
                    if off < len && matches!(r, Ok(Ok(()))) {
                        a.viol(Violation::new("write-chunks", format!("sink failed at offset {} of {} but write returned Ok", off, len), json!({"subject": s.name, "fail_at": off})).sig("clause", "failure-swallowed").rank(off as u64));
                    }
                    write_outcome("write-chunks", s, meta_only, r, &out, off as u64, &|| json!({"subject": s.name, "metadata_only": meta_only, "sink": format!("fails at offset {} (chunk {}, short final write {})", off, chunk, short_final)}), &mut a);
                }
                // a sink of fixed capacity (like `&mut [u8]`): accepts what fits, then answers Ok(0) for ever
                if off < len {
                    a.evals += 1;
                    a.nontrivial += 1;
                    let (r, out, _) = do_write(s, meta_only, SinkMode::Full { cap: off });
                    if matches!(r, Ok(Ok(()))) {
                        a.viol(Violation::new("write-chunks", format!("a sink with room for {} of {} bytes answered Ok(0) but write returned Ok", off, len), json!({"subject": s.name, "capacity": off})).sig("clause", "failure-swallowed").rank(off as u64));
                    }
                    write_outcome("write-chunks", s, meta_only, r, &out, off as u64, &|| json!({"subject": s.name, "metadata_only": meta_only, "sink": format!("has room for {} bytes, then answers Ok(0) to every call", off)}), &mut a);
                }
            }
        }
    }
    reports.push(SubReport::new(
        "write-chunks",
        "C",
        &format!("{} packages (built minimal, built signed with a file, hand-encoded with signature paddings) × Package::write and PackageMetadata::write × sinks accepting at most k bytes per call for every k in 1..=64 and unlimited × sinks failing at EVERY offset 0..=len (as refused whole buffer, as short final write, with 7-byte chunks) × sinks of EVERY capacity 0..len that answer Ok(0) once full (a writer that keeps calling such a sink is reported as a livelock after 10 000 calls). Oracle: Ok ⇒ emitted = canonical bytes; Err ⇒ emitted is a prefix; never Ok when the sink failed; no panic", subs_.len()),
        a,
    ));

    // ---- (3) writing: deviation-bounded exploration of sink answers
    let bound = if ctx.thorough() { 3 } else { 2 };
    let mut b = Acc::new();
    let mut ex = json!({});
    // (the rpmbuild-made subjects have hundreds of write calls: they go through the chunk sweeps, not through the deviation explorers)
    for (si, s) in subs_.iter().filter(|s| !s.name.starts_with("asset ")).enumerate().take(if ctx.thorough() { subs_.len() } else { 3 }) {
        for meta_only in [false, true] {
            if meta_only && si > 0 {
                continue;
            }
            let (st, accs) = explore(
                bound,
                vlib::par::threads(),
                Acc::new,
                |ch| do_write(s, meta_only, SinkMode::Chooser(ch.clone())),
                |trace, (r, out, _), acc: &mut Acc| {
                    acc.evals += 1;
                    let answers: Vec<(usize, u32)> = trace.iter().enumerate().filter(|(_, p)| p.chosen != 0).map(|(i, p)| (i, p.chosen)).collect();
                    if !answers.is_empty() {
                        acc.nontrivial += 1;
                    }
                    let case = || json!({"subject": s.name, "metadata_only": meta_only, "deviating_sink_answers(call index, 1=one byte 2=len-1 3=Interrupted 4=Ok(0) 5=error)": answers, "script": trace.iter().map(|p| p.chosen).collect::<Vec<_>>()});
                    let failed = trace.iter().any(|p| p.chosen == 4 || p.chosen == 5);
                    if failed && matches!(r, Ok(Ok(()))) {
                        acc.viol(Violation::new("write-explore", "the sink reported failure but write returned Ok".to_string(), case()).sig("clause", "failure-swallowed").rank(answers.len() as u64));
                    }
                    write_outcome("write-explore", s, meta_only, r, &out, answers.len() as u64 * 10_000 + answers.first().map(|a| a.0 as u64).unwrap_or(0), &case, acc);
                    if answers.len() == 1 && answers[0].0 < 2 {
                        acc.sample((si * 10 + answers[0].0) as u64, case);
                    }
                },
            );
            ex[format!("{}{}", s.name, if meta_only { " (metadata)" } else { "" })] = json!({"executions": st.executions, "max_choice_points": st.max_points, "by_deviations": st.by_deviations});
            for x in accs {
                b.merge(x);
            }
            // the same exploration with the public Sha256Writer between package and sink (first subject only)
            if si == 0 && !meta_only {
                let (st, accs) = explore(
                    bound,
                    vlib::par::threads(),
                    Acc::new,
                    |ch| do_write_hashed(s, SinkMode::Chooser(ch.clone())),
                    |trace, (r, out, digest_is_of_the_emitted_bytes), acc: &mut Acc| {
                        acc.evals += 1;
                        let answers: Vec<(usize, u32)> = trace.iter().enumerate().filter(|(_, p)| p.chosen != 0).map(|(i, p)| (i, p.chosen)).collect();
                        if !answers.is_empty() {
                            acc.nontrivial += 1;
                        }
                        let case = || json!({"subject": s.name, "through": "rpm::Sha256Writer", "deviating_sink_answers(call index, 1=one byte 2=len-1 3=Interrupted 4=Ok(0) 5=error)": answers});
                        let failed = trace.iter().any(|p| p.chosen == 4 || p.chosen == 5);
                        if failed && matches!(r, Ok(Ok(()))) {
                            acc.viol(Violation::new("write-explore", "the sink reported failure but write returned Ok".to_string(), case()).sig("clause", "failure-swallowed").rank(answers.len() as u64));
                        }
                        if !digest_is_of_the_emitted_bytes {
                            acc.viol(Violation::new("write-explore", format!("the hashing adapter's digest is not the digest of the {} bytes that reached the sink", out.len()), case()).sig("clause", "adapter-digest").rank(answers.len() as u64));
                        }
                        write_outcome("write-explore", s, false, r, &out, answers.len() as u64 * 10_000 + 7, &case, acc);
                    },
                );
                ex[format!("{} (through Sha256Writer)", s.name)] = json!({"executions": st.executions, "by_deviations": st.by_deviations});
                for x in accs {
                    b.merge(x);
                }
            }
        }
    }
    reports.push(
        SubReport::new(
            "write-explore",
            "C",
            &format!("at every Write::write call the sink answers {{whole buffer, 1 byte, len−1, Interrupted, Ok(0), error}}: all executions with ≤ {} deviation(s) from 'whole buffer', each run to completion; same oracle. non-trivial = execution with ≥ 1 deviation", bound),
            b,
        )
        .extra("exploration", ex)
        .extra("deviation_bound_completed", json!(bound)),
    );

    // ---- reading: chunk sizes, truncation at every offset
    let c = merge(par_fold(subs_.len() as u64, Acc::new, |si, acc| {
        let s = &subs_[si as usize];
        for k in (1..=64).chain([usize::MAX]) {
            acc.evals += 1;
            acc.nontrivial += 1;
            let r = catch(|| rpm::Package::parse(&mut Source { data: &s.canon, pos: 0, window: 0, mode: SrcMode::Fixed(k) }).map_err(|e| e.to_string()));
            read_outcome("read-chunks", s, &s.canon, None, r, k.min(99) as u64, &|| json!({"subject": s.name, "source": format!("returns at most {} byte(s) per fill_buf", k)}), acc);
            let r = catch(|| rpm::PackageMetadata::parse(&mut Source { data: &s.canon, pos: 0, window: 0, mode: SrcMode::Fixed(k) }).map_err(|e| e.to_string()));
            match r {
                Ok(Ok(m)) if m == s.pkg.metadata => {}
                other => acc.viol(Violation::new("read-chunks", format!("PackageMetadata::parse with {}-byte reads: {:?}", k, other.map(|r| r.map(|_| "different value"))), json!({"subject": s.name, "chunk": k})).sig("clause", "chunking-changes-result")),
            }
        }
        for cut in 0..=s.canon.len() {
            for k in [1usize, 5, usize::MAX] {
                acc.evals += 1;
                acc.nontrivial += 1;
                let data = &s.canon[..cut];
                let r = catch(|| rpm::Package::parse(&mut Source { data, pos: 0, window: 0, mode: SrcMode::Fixed(k) }).map_err(|e| e.to_string()));
                read_outcome("read-chunks", s, data, Some(cut), r, cut as u64, &|| json!({"subject": s.name, "truncated_to": cut, "chunk": k}), acc);
            }
        }
        acc.sample(si, || json!({"subject": s.name, "bytes": s.canon.len(), "payload_offset": s.payload_off}));
    }));
    reports.push(SubReport::new("read-chunks", "C", "Package::parse / PackageMetadata::parse from a BufRead source returning at most k bytes per fill_buf for every k in 1..=64 and unlimited; input truncated at EVERY offset (with 1-byte, 5-byte and unlimited reads). Oracle: same value however reads are split; truncation before the payload offset ⇒ Err, after ⇒ Ok with the truncated payload and equal metadata", c));

    // ---- reading: deviation-bounded exploration of source answers
    let rbound = if ctx.thorough() { 3 } else { 2 };
    let mut d = Acc::new();
    let mut rex = json!({});
    for s in subs_.iter().filter(|s| !s.name.starts_with("asset ")).take(if ctx.thorough() { subs_.len() } else { 2 }) {
        let (st, accs) = explore(
            rbound,
            vlib::par::threads(),
            Acc::new,
            |ch| catch(|| rpm::Package::parse(&mut Source { data: &s.canon, pos: 0, window: 0, mode: SrcMode::Chooser(ch.clone(), 48) }).map_err(|e| e.to_string())),
            |trace, r, acc: &mut Acc| {
                acc.evals += 1;
                let devs: Vec<(usize, u32)> = trace.iter().enumerate().filter(|(_, p)| p.chosen != 0).map(|(i, p)| (i, p.chosen)).collect();
                if !devs.is_empty() {
                    acc.nontrivial += 1;
                }
                read_outcome("read-explore", s, &s.canon, None, r, devs.len() as u64, &|| json!({"subject": s.name, "deviating_source_answers(fill_buf index, 1=one byte 2=Interrupted 3=everything)": devs}), acc);
                if devs.len() == 1 && devs[0].0 == 0 {
                    acc.sample(devs[0].1 as u64, || json!({"subject": s.name, "deviation": devs}));
                }
            },
        );
        rex[&s.name] = json!({"executions": st.executions, "max_choice_points": st.max_points, "by_deviations": st.by_deviations});
        for x in accs {
            d.merge(x);
        }
    }
    reports.push(
        SubReport::new("read-explore", "C", &format!("at every fill_buf the source answers {{≤ 48 bytes, 1 byte, Interrupted, everything available}}: all executions with ≤ {} deviation(s); the parse result must equal the reference parse", rbound), d)
            .extra("exploration", rex)
            .extra("deviation_bound_completed", json!(rbound)),
    );
    // ---- reading with small default buffers: a refill — and so a possible Interrupted — at (nearly) every byte offset of the metadata
    {
        let fbound = if ctx.thorough() { 2 } else { 1 };
        let mut f = Acc::new();
        let mut fex = json!({});
        for s in subs_.iter().filter(|s| !(ctx.thorough() && s.name.starts_with("asset "))) {
            // the metadata and a little payload: the refill points of interest lie in lead, headers and padding
            let input = &s.canon[..s.canon.len().min(s.payload_off + 24)];
            for base in [1usize, 3, 8] {
                if base > 1 && s.canon.len() > 20_000 {
                    continue;
                }
                let (st, accs) = explore(
                    fbound,
                    vlib::par::threads(),
                    Acc::new,
                    |ch| catch(|| rpm::Package::parse(&mut Source { data: input, pos: 0, window: 0, mode: SrcMode::Chooser(ch.clone(), base) }).map_err(|e| e.to_string())),
                    |trace, r, acc: &mut Acc| {
                        acc.evals += 1;
                        let devs: Vec<(usize, u32)> = trace.iter().enumerate().filter(|(_, p)| p.chosen != 0).map(|(i, p)| (i, p.chosen)).collect();
                        if !devs.is_empty() {
                            acc.nontrivial += 1;
                        }
                        read_outcome("read-explore-fine", s, input, Some(input.len()), r, devs.len() as u64, &|| json!({"subject": s.name, "source_buffer_bytes": base, "input_bytes": input.len(), "deviating_source_answers(fill_buf index, 1=one byte 2=Interrupted 3=everything)": devs}), acc);
                    },
                );
                fex[format!("{} / {}-byte buffer", s.name, base)] = json!({"executions": st.executions, "max_choice_points": st.max_points});
                for x in accs {
                    f.merge(x);
                }
            }
        }
        reports.push(
            SubReport::new("read-explore-fine", "C", &format!("every subject's metadata (plus 24 payload bytes) from a source whose default answer is a 1-, 3- or 8-byte buffer, so that a refill happens at every byte offset / every third / every eighth: at every fill_buf the source may instead answer {{1 byte, Interrupted, everything available}}; all executions with ≤ {} deviation(s); the parse result must equal the reference parse", fbound), f)
                .extra("exploration", fex)
                .extra("deviation_bound_completed", json!(fbound)),
        );
    }
    // ---- inputs that are NOT well formed: whatever the verdict, it must not depend on how the source delivers the bytes
    {
        let mut inputs: Vec<(String, Vec<u8>)> = vec![];
        let good_main = RawHeader::layout(&[(1000, Val::str("n")), (1003, Val::Int32(vec![7]))]);
        let good_sig = RawHeader::new(vec![RawEntry { tag: 1004, ty: 7, offset: 0, count: 4 }], vec![1, 2, 3, 4]);
        for in_sig in [true, false] {
            for store_len in [3usize, 4, 5, 8, 9, 15, 16] {
                let store: Vec<u8> = (0..store_len).map(|i| b'a' + (i % 26) as u8).collect(); // no NUL anywhere
                let l = store_len as i32;
                let entries: Vec<(&str, RawEntry)> = vec![
                    ("string running to the last byte of the section without terminator", RawEntry { tag: 1000, ty: 6, offset: 0, count: 1 }),
                    ("string starting at the last byte", RawEntry { tag: 1000, ty: 6, offset: l - 1, count: 1 }),
                    ("string array of two items without terminators", RawEntry { tag: 1000, ty: 8, offset: 0, count: 2 }),
                    ("binary one byte longer than the section", RawEntry { tag: 1000, ty: 7, offset: 0, count: store_len as u32 + 1 }),
                    ("binary ending 8 bytes behind the section", RawEntry { tag: 1000, ty: 7, offset: 0, count: store_len as u32 + 8 }),
                    ("int32 array one item beyond the section", RawEntry { tag: 1000, ty: 4, offset: 0, count: store_len as u32 / 4 + 1 }),
                    ("int16 at the last byte", RawEntry { tag: 1000, ty: 3, offset: l - 1, count: 1 }),
                    ("offset equal to the section length", RawEntry { tag: 1000, ty: 6, offset: l, count: 1 }),
                    ("offset 7 bytes behind the section", RawEntry { tag: 1000, ty: 2, offset: l + 7, count: 1 }),
                ];
                for (what, e) in entries {
                    let h = RawHeader::new(vec![e], store.clone());
                    let x = if in_sig { assemble(&RawLead::new("n"), &h, 0, &good_main, b"payload").0 } else { assemble(&RawLead::new("n"), &good_sig, 0, &h, b"payload").0 };
                    inputs.push((format!("{} header, {}-byte data section, {}", if in_sig { "signature" } else { "main" }, store_len, what), x));
                }
            }
        }
        let mut acc = Acc::new();
        for (i, (what, x)) in inputs.iter().enumerate() {
            let outcome = |r: Result<Result<rpm::Package, rpm::Error>, vlib::report::Panic>| -> String {
                match r {
                    Err(p) => format!("panic at {}", p.location()),
                    Ok(Err(_)) => "Err".into(),
                    Ok(Ok(p)) => {
                        let mut o = vec![];
                        let _ = p.write(&mut o);
                        format!("Ok({})", crate::oracles::sha256_hex(&o))
                    }
                }
            };
            let mut seen: Vec<(String, String)> = vec![];
            seen.push(("a slice".into(), outcome(catch(|| rpm::Package::parse(&mut &x[..])))));
            seen.push(("BufReader with the default buffer".into(), outcome(catch(|| rpm::Package::parse(&mut std::io::BufReader::new(&x[..]))))));
            for k in [1usize, 2, 3, 5, 7, 8, 16, 48, 100, 1000] {
                seen.push((format!("at most {} byte(s) per fill_buf", k), outcome(catch(|| rpm::Package::parse(&mut Source { data: x, pos: 0, window: 0, mode: SrcMode::Fixed(k) })))));
            }
            acc.evals += 1;
            acc.nontrivial += 1;
            acc.count(&seen[0].1.split('(').next().unwrap_or("").to_string());
            let first = seen[0].1.clone();
            if let Some((how, other)) = seen.iter().find(|(_, o)| *o != first) {
                acc.viol(
                    Violation::new("read-malformed", format!("{}: parsed from a slice the result is {}, from a source delivering {} it is {}", what, first, how, other), json!({"input": what, "bytes_hex": vlib::hex(x), "outcomes": seen}))
                        .sig("clause", "chunking-changes-result")
                        .rank(i as u64),
                );
            }
        }
        reports.push(SubReport::new("read-malformed", "A", &format!("{} inputs whose signature or main header holds one item that does not fit its data section (unterminated strings at the section's end, arrays and binaries running 1 … 8 bytes over, offsets at and behind the end; data sections of 3 … 16 bytes so that every padding occurs), each parsed from a slice, from a default BufReader and from sources delivering at most 1, 2, 3, 5, 7, 8, 16, 48, 100, 1000 bytes per call: whatever the verdict (error, or a package), it must be the same for every source", inputs.len()), acc));
    }
    // ---- sinks behind adapters: what has reached the destination after write() and flush() both returned Ok
    {
        use std::cell::RefCell;
        use std::rc::Rc;
        /// holds everything back until flush(), like a BufWriter with a large buffer
        struct Holding {
            pending: Vec<u8>,
            dest: Rc<RefCell<Vec<u8>>>,
        }
        impl Write for Holding {
            fn write(&mut self, b: &[u8]) -> std::io::Result<usize> {
                self.pending.extend_from_slice(b);
                Ok(b.len())
            }
            fn flush(&mut self) -> std::io::Result<()> {
                self.dest.borrow_mut().append(&mut self.pending);
                Ok(())
            }
        }
        let mut acc = Acc::new();
        for (i, s) in subs_.iter().enumerate() {
            for meta_only in [false, true] {
                let canon: &[u8] = if meta_only { &s.canon[..s.payload_off] } else { &s.canon };
                let wr = |w: &mut dyn Write| -> Result<(), String> {
                    if meta_only { s.pkg.metadata.write(&mut &mut *w) } else { s.pkg.write(&mut &mut *w) }.map_err(|e| e.to_string())?;
                    w.flush().map_err(|e| e.to_string())
                };
                let mut adapters: Vec<(String, Box<dyn Fn() -> Result<Vec<u8>, String> + '_>)> = vec![];
                adapters.push(("a sink that holds everything until flush()".into(), Box::new(|| {
                    let dest = Rc::new(RefCell::new(vec![]));
                    let mut w = Holding { pending: vec![], dest: dest.clone() };
                    wr(&mut w)?;
                    let d = dest.borrow().clone();
                    Ok(d)
                })));
                adapters.push(("rpm::Sha256Writer around such a sink".into(), Box::new(|| {
                    let dest = Rc::new(RefCell::new(vec![]));
                    let mut w = rpm::Sha256Writer::new(Holding { pending: vec![], dest: dest.clone() });
                    wr(&mut w)?;
                    let d = dest.borrow().clone();
                    Ok(d)
                })));
                for cap in [1usize, 7, 64, 8192, 1 << 20] {
                    adapters.push((format!("BufWriter with a {}-byte buffer around such a sink", cap), Box::new(move || {
                        let dest = Rc::new(RefCell::new(vec![]));
                        let mut w = std::io::BufWriter::with_capacity(cap, Holding { pending: vec![], dest: dest.clone() });
                        wr(&mut w)?;
                        let d = dest.borrow().clone();
                        Ok(d)
                    })));
                    adapters.push((format!("rpm::Sha256Writer around a BufWriter with a {}-byte buffer", cap), Box::new(move || {
                        let dest = Rc::new(RefCell::new(vec![]));
                        let mut w = rpm::Sha256Writer::new(std::io::BufWriter::with_capacity(cap, Holding { pending: vec![], dest: dest.clone() }));
                        wr(&mut w)?;
                        let d = dest.borrow().clone();
                        Ok(d)
                    })));
                }
                for (what, run) in adapters {
                    acc.evals += 1;
                    let case = || json!({"subject": s.name, "metadata_only": meta_only, "sink": what});
                    match catch(|| run()) {
                        Err(p) => acc.viol(panic_violation("adapters", &p, case()).rank(i as u64)),
                        Ok(Err(e)) => acc.viol(Violation::new("adapters", format!("writing to a sink that never fails returned an error: {}", e), case()).sig("clause", "spurious-error").rank(i as u64)),
                        Ok(Ok(d)) => {
                            acc.nontrivial += 1;
                            if d != canon {
                                acc.viol(Violation::new("adapters", format!("write() and flush() returned Ok, the destination holds {} of {} canonical bytes", d.len(), canon.len()), case()).sig("clause", "ok-but-not-canonical").rank(i as u64));
                            }
                        }
                    }
                }
            }
        }
        reports.push(SubReport::new("adapters", "A", "every subject (whole and metadata only) written through sinks that hold data until flush(): such a sink alone, behind BufWriters of 1 … 2^20 bytes, and each of them behind the library's public Sha256Writer; after write() and flush() returned Ok the destination must hold exactly the canonical bytes", acc));
    }
    // the operating system as source and sink: regular files, named pipes (no usable stat size), existing longer destinations
    {
        let mut acc = Acc::new();
        for (i, s) in subs_.iter().enumerate() {
            acc.evals += 1;
            let before = acc.viols.len();
            crate::oracles::oracle_file_api("path-io", &s.canon, i as u64, &|| json!({"subject": s.name}), &mut acc);
            if acc.viols.len() == before {
                acc.nontrivial += 1;
            }
        }
        reports.push(SubReport::new("path-io", "A", "every subject through the path-based entry points: Package::open / PackageMetadata::open on a regular file and on a named pipe (delivery in pipe-sized pieces, no usable stat size) must give the package parsed from memory; write_file over existing longer files must give exactly the canonical bytes", acc));
    }
    for r in &reports {
        if r.acc.nontrivial == 0 {
            crate::ctx::machinery(&format!("sub-check {} explored nothing: vacuous", r.name));
        }
    }
    let _ = Chooser::new(vec![]);
    ctx.finish(
        "fault_enumeration",
        reports,
        &[
            "sinks and sources obey the Write / BufRead contracts (a sink that returns Ok(n) has taken exactly n bytes)",
            "deviation bound for the answer exploration: 2 (quick) / 3 (thorough); fixed chunk sizes 1..=64 and failure at every offset are complete",
        ],
        vec![],
    )
}

pub fn replay(ctx: &Ctx, v: &Value) -> i32 {
    let c = &v["case"];
    let env = Env::new(&ctx.repo, "c14-replay");
    let subs_ = subjects(ctx, &env);
    let Some(s) = subs_.iter().find(|s| Some(s.name.as_str()) == c["subject"].as_str()) else {
        println!("unknown subject; re-run ./check C14");
        return 0;
    };
    if let Some(script) = c["script"].as_array() {
        let pre: Vec<u32> = script.iter().map(|x| x.as_u64().unwrap_or(0) as u32).collect();
        let meta = c["metadata_only"].as_bool().unwrap_or(false);
        let (r, out, calls) = do_write(s, meta, SinkMode::Chooser(Chooser::new(pre)));
        let canon: &[u8] = if meta { &s.canon[..s.payload_off] } else { &s.canon };
        println!("write = {:?}; emitted {} of {} canonical bytes in {} calls; prefix = {}", r.as_ref().map_err(|p| p.at.clone()), out.len(), canon.len(), calls, canon.starts_with(&out));
        let bad = match r {
            Err(_) => true,
            Ok(Ok(())) => out != canon,
            Ok(Err(_)) => !canon.starts_with(&out),
        };
        if bad {
            println!("REPRODUCED");
            return 1;
        }
        return 0;
    }
    println!("re-run ./check C14 for this case: {}", c);
    0
}
