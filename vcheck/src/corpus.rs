//! The package corpus shared by C01 / C03 / C08 / C09 / C16: "everything the builder
//! and signer emit" is approximated by a curated list of configurations, the C06 and
//! C07 enumerations (when requested) and short sign/clear histories on each.
#![allow(dead_code)]
use crate::ctx::Ctx;
use crate::keys::{Key, ALL_KEYS, FAST_KEYS};
use crate::oracles::*;
use crate::spec::*;
use serde_json::{json, Value};
use vlib::par::par_fold;
use vlib::report::{catch, Acc, SubReport, Violation};

pub fn rich() -> BuildSpec {
    let mut s = BuildSpec::minimal();
    s.name = "rich-pkg".into();
    s.release = Some("2.el9".into());
    s.epoch = Some(3);
    s.description = Some("two\nlines ünï✓".into());
    s.vendor = Some("vendor".into());
    s.packager = Some("packager <p@example.com>".into());
    s.group = Some("System/Base".into());
    s.url = Some("https://example.com".into());
    s.vcs = Some("git:repo".into());
    s.cookie = Some("cookie 123".into());
    s.build_host = Some("host.example".into());
    s.scripts.insert("pre_install", ScriptSpec { script: "echo pre".into(), flags: None, prog: None });
    s.scripts.insert("post_install", ScriptSpec { script: "echo post".into(), flags: Some(1), prog: Some(vec!["/bin/sh".into(), "-c".into()]) });
    s.scripts.insert("post_trans", ScriptSpec { script: "echo pt\n".into(), flags: Some(3), prog: None });
    s.scripts.insert("verify", ScriptSpec { script: "echo verify".into(), flags: None, prog: None });
    for (i, k) in DEP_KINDS.iter().enumerate() {
        s.deps.insert(k, vec![
            DepSpec { ctor: "any", name: format!("dep{}", i), version: "".into() },
            DepSpec { ctor: "greater_eq", name: format!("lib{}", i), version: "1.2-3".into() },
        ]);
    }
    s.deps.insert("recommends", vec![
        DepSpec { ctor: "user", name: "u1".into(), version: "".into() },
        DepSpec { ctor: "any", name: "after-user".into(), version: "".into() },
        DepSpec { ctor: "group", name: "g1".into(), version: "".into() },
        DepSpec { ctor: "greater_eq", name: "last".into(), version: "1.2-3".into() },
    ]);
    s.changelog = vec![("A <a@x> - 1.0-1".into(), "- first".into(), 1_500_000_000), ("B <b@x> - 0.9-1".into(), "- zeroth\n- more".into(), 1_400_000_000)];
    let mut f1 = FileSpec::new("/etc/rich/config.toml", Content::Text(100));
    f1.flags = vec!["config"];
    f1.user = Some("u1".into());
    f1.group = Some("g1".into());
    let mut f2 = FileSpec::new("/usr/bin/rich", Content::Noise(4097));
    f2.mode = ModeSpec::Inherit(0o755);
    f2.caps = Some("cap_chown=p".into());
    let mut f3 = FileSpec::new("/usr/bin/rich-link", Content::Bytes(vec![]));
    f3.mode = ModeSpec::Symlink(0o777);
    f3.symlink = Some("rich".into());
    let mut f4 = FileSpec::new("/var/lib/rich", Content::Bytes(vec![]));
    f4.mode = ModeSpec::Dir(0o750);
    f4.user = Some("u2".into());
    let mut f5 = FileSpec::new("./usr/share/doc/rich/README", Content::Text(3));
    f5.flags = vec!["doc"];
    f5.mtime = 1_700_000_000; // after the source date: must be clamped
    let f6 = FileSpec::new("/top", Content::Bytes(b"t".to_vec()));
    s.files = vec![f1, f2, f3, f4, f5, f6];
    s
}

pub fn sizes() -> BuildSpec {
    let mut s = BuildSpec::minimal();
    s.name = "sizes".into();
    for (i, n) in [0usize, 1, 2, 3, 4, 5, 7, 8, 4095, 4096, 4097].iter().enumerate() {
        s.files.push(FileSpec::new(&format!("/d/f{:02}", i), Content::Noise(*n)));
    }
    s
}

pub fn one_file() -> BuildSpec {
    let mut s = BuildSpec::minimal();
    s.name = "one".into();
    s.files.push(FileSpec::new("/usr/bin/f", Content::Bytes(b"hello".to_vec())));
    s
}

pub fn curated(ctx: &Ctx) -> Vec<BuildSpec> {
    let mut v = vec![];
    let comps: Vec<Comp> = if ctx.thorough() {
        vec![Comp::None, Comp::Gzip(0), Comp::Gzip(6), Comp::Gzip(9), Comp::Zstd(1), Comp::Zstd(3), Comp::Zstd(19), Comp::Xz(0), Comp::Xz(1), Comp::Xz(6), Comp::Default]
    } else {
        vec![Comp::None, Comp::Gzip(6), Comp::Zstd(3), Comp::Xz(1), Comp::Default]
    };
    for base in [BuildSpec::minimal(), one_file(), rich(), sizes()] {
        for c in &comps {
            let mut s = base.clone();
            s.compression = *c;
            v.push(s);
        }
    }
    // file sizes around every power of two from 8 KiB to 1 MiB (thorough: 16 MiB): buffer and block sizes of readers, hashers and compressors
    for c in [Comp::None, Comp::Gzip(1), Comp::Zstd(1)] {
        let mut s = BuildSpec::minimal();
        s.name = "ladder".into();
        s.compression = c;
        for k in 13..=(if ctx.thorough() { 24 } else { 20 }) {
            for (d, n) in [(-1i64, "m"), (0, "e"), (1, "p")] {
                s.files.push(FileSpec::new(&format!("/ladder/k{:02}{}", k, n), Content::Noise(((1i64 << k) + d) as usize)));
            }
        }
        v.push(s);
    }
    // long texts (a main header beyond 64 KiB) and many files (index arrays beyond 64 KiB)
    let mut s = one_file();
    s.name = "long-texts".into();
    s.summary = "s".repeat(8_193);
    s.description = Some("d".repeat(65_537));
    v.push(s);
    // builders that start from Default::default() (the five required texts are empty; whatever new() sets up must be there all the same)
    for (k, base) in [BuildSpec::minimal(), one_file(), rich()].into_iter().enumerate() {
        let mut s = base;
        s.from_default = true;
        for f in [&mut s.name, &mut s.version, &mut s.license, &mut s.arch, &mut s.summary] {
            f.clear();
        }
        if k == 2 {
            s.compression = Comp::Gzip(1);
            s.sign = Some(Key::Ed25519);
        }
        v.push(s);
    }
    // the whole character domain in one text: every Unicode scalar value except NUL, in code-point order and (for the
    // changelog) the Basic Multilingual Plane backwards
    let mut s = one_file();
    s.name = "all-scalars".into();
    s.description = Some((1..0x11_0000u32).filter_map(char::from_u32).collect());
    s.changelog = vec![("A <a@b>".into(), (1..0x1_0000u32).rev().filter_map(char::from_u32).collect(), 1_500_000_000)];
    v.push(s);
    let mut s = BuildSpec::minimal();
    s.name = "many-files".into();
    s.compression = Comp::Gzip(1);
    for i in 0..2_500usize {
        s.files.push(FileSpec::new(&format!("/many/d{}/f{:04}", i % 7, i), Content::Text(i % 5)));
    }
    v.push(s);
    let keys: &[Key] = if ctx.thorough() { &ALL_KEYS } else { &FAST_KEYS };
    for base in [BuildSpec::minimal(), one_file(), rich()] {
        for k in keys {
            let mut s = base.clone();
            s.sign = Some(*k);
            v.push(s);
        }
    }
    // scriptlet with an empty interpreter list
    let mut s = one_file();
    s.name = "empty-prog".into();
    s.scripts.insert("pre_install", ScriptSpec { script: "true".into(), flags: None, prog: Some(vec![]) });
    v.push(s);
    // explicit modes without type bits (FileOptions::mode(0o644)): the content is packaged all the same
    let mut s = one_file();
    s.name = "raw-modes".into();
    for (i, m) in [0o644, 0o755, 0o100600, 0o104755].iter().enumerate() {
        let mut f = FileSpec::new(&format!("/raw/f{}", i), Content::Text(10 + i));
        f.mode = ModeSpec::Raw(*m);
        s.files.push(f);
    }
    v.push(s);
    // without a source date (build time = now)
    let mut s = one_file();
    s.source_date = None;
    v.push(s);
    // forced large-file layout (verif hook)
    for base in [one_file(), sizes(), rich()] {
        for c in [Comp::None, Comp::Gzip(6)] {
            let mut s = base.clone();
            s.large_files = true;
            s.compression = c;
            v.push(s);
        }
    }
    v
}

/// A corpus item: how it was made and its bytes.
pub struct Item {
    pub desc: Value,
    pub bytes: Vec<u8>,
    pub spec: BuildSpec,
    /// true if sign / clear operations were applied after the build
    pub has_history: bool,
}

/// Built package plus the states reached by short sign/clear/re-parse histories.
/// A signer that cannot sign (unreachable signing service, unplugged token): consumes the data, returns an error.
#[derive(Debug, Clone, Copy)]
pub struct UnavailableSigner;

impl rpm::signature::Signing for UnavailableSigner {
    type Signature = Vec<u8>;
    fn sign(&self, mut data: impl std::io::Read, _t: rpm::Timestamp) -> Result<Vec<u8>, rpm::Error> {
        let mut v = vec![];
        let _ = data.read_to_end(&mut v);
        Err(rpm::Error::KeyNotFoundError { key_ref: "signing service unavailable".into() })
    }
    fn algorithm(&self) -> rpm::signature::AlgorithmType {
        rpm::signature::AlgorithmType::RSA
    }
}

pub fn with_histories(env: &Env, spec: &BuildSpec, deep: bool) -> Result<Vec<Item>, String> {
    let (pkg, bytes) = spec.build_bytes(env)?;
    let mut out = vec![Item { desc: json!({"spec": spec.to_json(), "history": []}), bytes, spec: spec.clone(), has_history: false }];
    let mut push = |hist: Vec<&str>, p: &rpm::Package| {
        let mut o = vec![];
        if p.write(&mut o).is_ok() {
            out.push(Item { desc: json!({"spec": spec.to_json(), "history": hist}), bytes: o, spec: spec.clone(), has_history: true });
        }
    };
    let mut c = pkg.clone();
    c.clear_signatures().map_err(|e| e.to_string())?;
    push(vec!["clear"], &c);
    // a signing attempt that fails: whatever state the object is left in is what the caller will write
    let mut f = pkg.clone();
    if f.sign_with_timestamp(UnavailableSigner, 1_600_000_000u32).is_err() {
        push(vec!["sign(unavailable signer) → Err"], &f);
    }
    if deep {
        let mut s = pkg.clone();
        s.sign_with_timestamp(env.signer(Key::Ed25519), 1_600_000_000u32).map_err(|e| e.to_string())?;
        push(vec!["sign(ed25519)"], &s);
        s.sign_with_timestamp(env.signer(Key::Rsa4096), 1_700_000_000u32).map_err(|e| e.to_string())?;
        push(vec!["sign(ed25519)", "sign(rsa4096)"], &s);
        let mut f = s.clone();
        if f.sign(UnavailableSigner).is_err() {
            push(vec!["sign(ed25519)", "sign(rsa4096)", "sign(unavailable signer) → Err"], &f);
        }
        s.clear_signatures().map_err(|e| e.to_string())?;
        push(vec!["sign(ed25519)", "sign(rsa4096)", "clear"], &s);
    }
    Ok(out)
}

pub type ItemOracle = dyn Fn(&str, &Item, u64, &mut Acc) + Sync;

/// Apply `oracle` to every corpus item: curated configurations with sign/clear histories,
/// the C06 setter enumeration (1 call in the quick tier, ≤ 2 in the thorough tier) and the
/// C07 payload enumeration.
pub fn run_corpus(ctx: &Ctx, sub: &str, rule_suffix: &str, oracle: &ItemOracle) -> SubReport {
    let env = Env::new(&ctx.repo, &format!("corpus-{}", ctx.property));
    let specs = curated(ctx);
    let menu = crate::c06::menu();
    let k06 = if ctx.thorough() { 2 } else { 1 };
    let n06 = crate::c06::domain_size(menu.len() as u64, k06);
    let s07 = crate::c07::specs(false);
    let n = specs.len() as u64 + n06 + s07.len() as u64;
    let acc = crate::common::merge(par_fold(n, Acc::new, |i, acc| {
        let (spec, deep): (BuildSpec, Option<bool>) = if (i as usize) < specs.len() {
            let sp = specs[i as usize].clone();
            let deep = i % 4 == 2 || sp.sign.is_some();
            (sp, Some(deep))
        } else if i < specs.len() as u64 + n06 {
            match crate::c06::config(&menu, i - specs.len() as u64, k06) {
                Some((sp, _)) => (sp, None),
                None => return,
            }
        } else {
            (s07[(i - specs.len() as u64 - n06) as usize].clone(), None)
        };
        let r = catch(|| match deep {
            Some(d) => with_histories(&env, &spec, d),
            None => spec.build_bytes(&env).map(|(_, bytes)| vec![Item { desc: json!({"spec": spec.to_json(), "history": []}), bytes, spec: spec.clone(), has_history: false }]),
        });
        match r {
            Err(p) => acc.viol(crate::common::panic_violation(sub, &p, json!({"spec": spec.to_json()})).rank(i)),
            Ok(Err(e)) => {
                // a build failure of a valid configuration is reported by C06/C07; here it only shrinks the corpus
                acc.count(&format!("build failed: {}", e.chars().take(60).collect::<String>()));
            }
            Ok(Ok(items)) => {
                for (k, it) in items.iter().enumerate() {
                    acc.evals += 1;
                    oracle(sub, it, i * 16 + k as u64, acc);
                }
            }
        }
    }));
    SubReport::new(
        sub,
        "A",
        &format!(
            "corpus of emitted packages: {} curated configurations (empty / one file / rich / boundary sizes × compression types and levels, signed with each key, no source date, forced large-file layout) each also after clear / sign / re-sign / clear; the C06 enumeration of ≤ {} setter call(s) ({} configurations); the C07 payload enumeration ({} configurations); {}",
            specs.len(), k06, n06, s07.len(), rule_suffix
        ),
        acc,
    )
}

/// The C01 + C16 oracles over the corpus.
pub fn run_shared(ctx: &Ctx, sub: &str, which: &[&str]) -> SubReport {
    let do01 = which.contains(&"C01");
    let do16 = which.contains(&"C16");
    run_corpus(ctx, sub, "oracles: byte round trip, segment offsets, and the path-based entry points (open through a regular file and through a named pipe, write_file over existing longer files) agreeing with parse / write", &move |sub, it, rank, acc| {
        let case = || it.desc.clone();
        if do01 {
            if let Some(p) = oracle_roundtrip(sub, &it.bytes, rank, &case, acc) {
                acc.nontrivial += 1;
                if do16 {
                    oracle_offsets(sub, &p, rank, &case, acc);
                    oracle_payload_start(sub, &p, rank, &case, acc);
                }
                oracle_file_api(sub, &it.bytes, rank, &case, acc);
                acc.sample(rank, || json!({"corpus_item": it.desc["spec"]["name"], "history": it.desc["history"], "bytes": it.bytes.len()}));
            } else {
                acc.viol(Violation::new(sub, "a package emitted by the builder/signer is rejected by the parser", case()).sig("clause", "emitted-package-rejected").rank(rank));
            }
        } else if do16 {
            if let Ok(Ok(p)) = parse_pkg(&it.bytes) {
                acc.nontrivial += 1;
                oracle_offsets(sub, &p, rank, &case, acc);
                oracle_file_api(sub, &it.bytes, rank, &case, acc);
                acc.sample(rank, || json!({"corpus_item": it.desc["spec"]["name"], "history": it.desc["history"], "bytes": it.bytes.len()}));
            }
        }
    })
}
