//! Take packages apart into records and put them together again with the
//! reference codec (used to plant / remove / falsify tags in C02, C03, C05, C07, C12).
#![allow(dead_code)]
use crate::oracles::*;
use vlib::refhdr::{assemble, scan, value, Layout, RawHeader, RawLead, Val};

#[derive(Clone, Debug)]
pub struct Parts {
    pub lead: RawLead,
    pub sig: Vec<(u32, Val)>,
    pub main: Vec<(u32, Val)>,
    pub payload: Vec<u8>,
    /// index order of (signature, main) header: see RawHeader::reorder
    pub order: (u8, u8),
}

fn records(h: &RawHeader, region: u32) -> Option<Vec<(u32, Val)>> {
    let mut out = vec![];
    for (i, e) in h.entries.iter().enumerate() {
        if i == 0 && e.tag == region && e.ty == 7 && e.count == 16 {
            continue;
        }
        out.push((e.tag, value(e, &h.store).ok()?));
    }
    Some(out)
}

pub fn split(x: &[u8]) -> Option<Parts> {
    let (lead, sig, hdr, l) = scan(x)?;
    Some(Parts {
        lead,
        sig: records(&sig, 62)?,
        main: records(&hdr, 63)?,
        payload: x[l.payload_off..].to_vec(),
        order: (0, 0),
    })
}

pub fn set(recs: &mut Vec<(u32, Val)>, tag: u32, v: Option<Val>) {
    recs.retain(|(t, _)| *t != tag);
    if let Some(v) = v {
        recs.push((tag, v));
    }
}

pub fn get(recs: &[(u32, Val)], tag: u32) -> Option<&Val> {
    recs.iter().find(|(t, _)| *t == tag).map(|(_, v)| v)
}

impl Parts {
    pub fn main_header(&self) -> RawHeader {
        let mut h = RawHeader::layout_region(63, &self.main);
        h.reorder(self.order.1);
        h
    }
    pub fn sig_header(&self) -> RawHeader {
        let mut h = RawHeader::layout_region(62, &self.sig);
        h.reorder(self.order.0);
        h
    }
    pub fn join(&self) -> (Vec<u8>, Layout) {
        assemble(&self.lead, &self.sig_header(), 0, &self.main_header(), &self.payload)
    }
}

#[derive(Clone, Copy, Debug, PartialEq, Eq)]
pub enum D {
    Absent,
    Correct,
    /// wrong in the first / middle / last position
    Wrong(u8),
    /// the first half of the correct digest
    Truncated,
    /// recorded, but empty
    Empty,
    /// the correct digest followed by two more characters
    Extended,
}

impl D {
    pub fn from_digit(d: u64) -> D {
        match d {
            0 => D::Absent,
            1 => D::Correct,
            2..=4 => D::Wrong((d - 2) as u8),
            5 => D::Truncated,
            6 => D::Empty,
            _ => D::Extended,
        }
    }
}

fn spoil_hex(mut s: String, pos: u8) -> String {
    let i = match pos {
        0 => 0,
        1 => s.len() / 2,
        _ => s.len() - 1,
    };
    let c = s.as_bytes()[i];
    let r = if c == b'0' { '1' } else { '0' };
    s.replace_range(i..i + 1, &r.to_string());
    s
}

fn spoil_bin(mut b: Vec<u8>, pos: u8) -> Vec<u8> {
    let i = match pos {
        0 => 0,
        1 => b.len() / 2,
        _ => b.len() - 1,
    };
    b[i] ^= 0x01;
    b
}

impl D {
    /// what to record for a digest whose correct text is `good`
    pub fn text(&self, good: String) -> Option<String> {
        match self {
            D::Absent => None,
            D::Correct => Some(good),
            D::Wrong(p) => Some(spoil_hex(good, *p)),
            D::Truncated => Some(good[..good.len() / 2].to_string()),
            D::Empty => Some(String::new()),
            D::Extended => Some(format!("{}00", good)),
        }
    }
    pub fn bin(&self, good: Vec<u8>) -> Option<Vec<u8>> {
        match self {
            D::Absent => None,
            D::Correct => Some(good),
            D::Wrong(p) => Some(spoil_bin(good, *p)),
            D::Truncated => Some(good[..good.len() / 2].to_vec()),
            D::Empty => Some(vec![]),
            D::Extended => {
                let mut g = good;
                g.push(0);
                Some(g)
            }
        }
    }
    pub fn is_correct_or_absent(&self) -> bool {
        matches!(self, D::Absent | D::Correct)
    }
}

#[derive(Clone, Copy, Debug)]
pub struct DigestPlan {
    pub md5: D,
    pub sha1: D,
    pub sha256: D,
    pub payload: D,
    pub algo: u32,
}

/// Rebuild `parts` with the four standard digests planted as planned.
/// Like `with_digests`, but the payload digest / algorithm entries are the given ones (any type) instead of planned ones.
pub fn with_digests_keep(parts: &Parts, plan: &DigestPlan, payload_digest: Option<Val>, algo: Option<Val>) -> (Vec<u8>, Layout) {
    let mut q = parts.clone();
    set(&mut q.main, TAG_PAYLOADDIGEST, payload_digest);
    set(&mut q.main, TAG_PAYLOADDIGESTALGO, algo);
    // header digests over the final main header; the payload digest tags are left as set above
    with_digests_opts(&q, plan, false)
}

pub fn with_digests(parts: &Parts, plan: &DigestPlan) -> (Vec<u8>, Layout) {
    with_digests_opts(parts, plan, true)
}

fn with_digests_opts(parts: &Parts, plan: &DigestPlan, plan_payload: bool) -> (Vec<u8>, Layout) {
    let mut p = parts.clone();
    if plan_payload {
        set(&mut p.main, TAG_PAYLOADDIGEST, None);
        set(&mut p.main, TAG_PAYLOADDIGESTALGO, None);
    }
    if let Some(t) = plan.payload.text(sha256_hex(&p.payload)).filter(|_| plan_payload) {
        set(&mut p.main, TAG_PAYLOADDIGEST, Some(Val::strs(&[&t])));
        // the low 16 bits are the first item; a non-zero high half adds a second item (value + 1)
        let mut algos = vec![plan.algo & 0xFFFF];
        if plan.algo >> 16 != 0 {
            algos.push((plan.algo >> 16) - 1);
        }
        set(&mut p.main, TAG_PAYLOADDIGESTALGO, Some(Val::Int32(algos)));
    }
    let hbytes = p.main_header().encode();
    set(&mut p.sig, SIGTAG_MD5, None);
    set(&mut p.sig, SIGTAG_SHA1, None);
    set(&mut p.sig, SIGTAG_SHA256, None);
    if let Some(b) = plan.md5.bin(md5_raw(&[&hbytes, &p.payload])) {
        set(&mut p.sig, SIGTAG_MD5, Some(Val::Bin(b)));
    }
    if let Some(t) = plan.sha1.text(sha1_hex(&hbytes)) {
        set(&mut p.sig, SIGTAG_SHA1, Some(Val::str(&t)));
    }
    if let Some(t) = plan.sha256.text(sha256_hex(&hbytes)) {
        set(&mut p.sig, SIGTAG_SHA256, Some(Val::str(&t)));
    }
    p.join()
}

/// A small hand-encoded package with a plausible main header.
pub fn hand_encoded(payload: &[u8]) -> Parts {
    Parts {
        lead: RawLead::new("hand"),
        sig: vec![],
        main: vec![
            (1000, Val::str("hand")),
            (1001, Val::str("1.0")),
            (1002, Val::str("1")),
            (1004, Val::i18n(&["summary"])),
            (1022, Val::str("noarch")),
            (1009, Val::Int32(vec![0])),
        ],
        payload: payload.to_vec(),
        order: (0, 0),
    }
}
