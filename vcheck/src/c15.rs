//! C15 — textual forms of EVR, NEVRA and compression type round-trip (engine A).
use crate::common::*;
use crate::ctx::Ctx;
use rpm::{CompressionType, Evr, Nevra};
use serde_json::{json, Value};
use std::str::FromStr;
use vlib::par::{par_fold, strings_count, strings_nth};
use vlib::report::{catch, Acc, SubReport, Violation};

fn strings(alpha: &[&str], min: usize, max: usize) -> Vec<String> {
    let n = strings_count(alpha.len(), max);
    let mut t = vec![];
    let mut out = vec![];
    for i in 0..n {
        strings_nth(i, alpha.len(), &mut t);
        if t.len() >= min {
            out.push(t.iter().map(|x| alpha[*x]).collect());
        }
    }
    out
}

/// `padded` is `text` with nothing but fill characters (spaces or asterisks) around it.
fn only_padded(padded: &str, text: &str) -> bool {
    padded.match_indices(text).any(|(i, _)| {
        let (l, r) = (&padded[..i], &padded[i + text.len()..]);
        l.chars().chain(r.chars()).all(|c| c == ' ' || c == '*')
    }) || (text.is_empty() && padded.chars().all(|c| c == ' ' || c == '*'))
}

fn check_nevra(n: &str, e: &str, v: &str, r: &str, a: &str, prio: u64, acc: &mut Acc) {
    acc.evals += 1;
    let case = || json!({"kind": "nevra", "name": n, "epoch": e, "version": v, "release": r, "arch": a});
    let res = catch(|| {
        let val = Nevra::new(n, e, v, r, a);
        let text = val.to_string();
        let norm = val.as_normalized_form();
        // the same value built from owned strings must format identically
        // formatting options of the caller (width, fill, alignment, a precision longer than the text) may pad the whole text, not re-shape it
        let mut fmt_differs = None;
        for padded in [format!("{:>64}", val), format!("{:<64}", val), format!("{:*^64}", val), format!("{:.4096}", val)] {
            if !only_padded(&padded, &text) {
                fmt_differs = Some(format!("formatted with a width / precision the NEVRA reads {:?}, plainly it reads {:?}", padded, text));
            }
        }
        let owned = Nevra::new(n.to_string(), e.to_string(), v.to_string(), r.to_string(), a.to_string());
        let owned_differs = if owned.to_string() != text || owned.as_normalized_form() != norm || owned.nvra() != val.nvra() || owned != val {
            Some(format!("built from owned strings it formats as {:?} / {:?}, built from borrowed ones as {:?} / {:?}", owned.to_string(), owned.as_normalized_form(), text, norm))
        } else {
            None
        };
        let nvra = val.nvra();
        let back = Nevra::parse(&text);
        let back_vals = (back.name().to_string(), back.epoch().to_string(), back.version().to_string(), back.release().to_string(), back.arch().to_string());
        let nb = Nevra::parse(&norm);
        // "an equal value": equal under ==, and neither side ordered before the other — for the plain and the normalised text
        let eq = back == val && back.cmp(&val) == std::cmp::Ordering::Equal && val.cmp(&back) == std::cmp::Ordering::Equal && nb.cmp(&val) == std::cmp::Ordering::Equal && val.cmp(&nb) == std::cmp::Ordering::Equal && nb == val;
        let nb_vals = (nb.name().to_string(), nb.epoch().to_string(), nb.version().to_string(), nb.release().to_string(), nb.arch().to_string());
        let pv = Nevra::parse_values(&text);
        let pv = (pv.0.to_string(), pv.1.to_string(), pv.2.to_string(), pv.3.to_string(), pv.4.to_string());
        (text, norm, nvra, back_vals, eq, nb_vals, pv, owned_differs.or(fmt_differs))
    });
    let (text, norm, nvra, back, eq, nb, pv, owned_differs) = match res {
        Ok(x) => x,
        Err(p) => return acc.viol(panic_violation("nevra", &p, case())),
    };
    if let Some(d) = owned_differs {
        acc.viol(Violation::new("nevra", format!("the textual form is not stable: {}", d), case()).sig("clause", "owned-vs-borrowed"));
    }
    let dash = if n.contains('-') { "yes" } else { "no" };
    let want = (n.to_string(), e.to_string(), v.to_string(), r.to_string(), a.to_string());
    if back != want || !eq || pv != want {
        acc.viol(
            Violation::new("nevra", format!("{:?} formats as {:?} and parses back as {:?}", want, text, back), case())
                .sig("clause", "nevra-roundtrip")
                .sig("name_has_dash", dash),
        );
    }
    let want_norm = (n.to_string(), if e.is_empty() { "0".to_string() } else { e.to_string() }, v.to_string(), r.to_string(), a.to_string());
    if nb != want_norm || !norm.contains(':') {
        acc.viol(
            Violation::new("nevra", format!("normalised form {:?} parses back as {:?}, want {:?}", norm, nb, want_norm), case())
                .sig("clause", "nevra-normalised")
                .sig("name_has_dash", dash),
        );
    }
    if nvra != format!("{}-{}-{}.{}", n, v, r, a) {
        acc.viol(Violation::new("nevra", format!("nvra() = {:?}", nvra), case()).sig("clause", "nvra-form"));
    }
    acc.nontrivial += 1;
    acc.count(if n.contains('-') { "name-with-dash" } else { "name-without-dash" });
    acc.sample(prio, || json!({"nevra": text, "normalised": norm}));
}

fn check_evr(e: &str, v: &str, r: &str, prio: u64, acc: &mut Acc) {
    acc.evals += 1;
    let case = || json!({"kind": "evr", "epoch": e, "version": v, "release": r});
    let res = catch(|| {
        let val = Evr::new(e, v, r);
        let text = val.to_string();
        let norm = val.as_normalized_form();
        let mut fmt_differs = None;
        for padded in [format!("{:>64}", val), format!("{:<64}", val), format!("{:*^64}", val), format!("{:.4096}", val)] {
            if !only_padded(&padded, &text) {
                fmt_differs = Some(format!("formatted with a width / precision the EVR reads {:?}, plainly it reads {:?}", padded, text));
            }
        }
        let owned = Evr::new(e.to_string(), v.to_string(), r.to_string());
        let owned_differs = if owned.to_string() != text || owned.as_normalized_form() != norm || owned != val {
            Some(format!("built from owned strings it formats as {:?} / {:?}, built from borrowed ones as {:?} / {:?}", owned.to_string(), owned.as_normalized_form(), text, norm))
        } else {
            None
        };
        let back = Evr::parse(&text);
        let bv = (back.epoch().to_string(), back.version().to_string(), back.release().to_string());
        let nb = Evr::parse(&norm);
        let e_ = std::cmp::Ordering::Equal;
        let eq = back == val && back.cmp(&val) == e_ && val.cmp(&back) == e_ && nb == val && nb.cmp(&val) == e_ && val.cmp(&nb) == e_;
        let nbv = (nb.epoch().to_string(), nb.version().to_string(), nb.release().to_string());
        (text, norm, bv, eq, nbv, owned_differs.or(fmt_differs))
    });
    let (text, norm, bv, eq, nbv, owned_differs) = match res {
        Ok(x) => x,
        Err(p) => return acc.viol(panic_violation("evr", &p, case())),
    };
    if let Some(d) = owned_differs {
        acc.viol(Violation::new("evr", format!("the textual form is not stable: {}", d), case()).sig("clause", "owned-vs-borrowed"));
    }
    let want = (e.to_string(), v.to_string(), r.to_string());
    if bv != want || !eq {
        acc.viol(Violation::new("evr", format!("{:?} formats as {:?} and parses back as {:?}", want, text, bv), case()).sig("clause", "evr-roundtrip"));
    }
    let wn = (if e.is_empty() { "0".to_string() } else { e.to_string() }, v.to_string(), r.to_string());
    if nbv != wn {
        acc.viol(Violation::new("evr", format!("normalised {:?} parses back as {:?}", norm, nbv), case()).sig("clause", "evr-normalised"));
    }
    acc.nontrivial += 1;
    acc.count("evr");
    acc.sample(prio, || json!({"evr": text, "normalised": norm}));
}

fn check_nopanic(s: &str, acc: &mut Acc) {
    acc.evals += 1;
    let r = catch(|| {
        let a = Nevra::parse(s);
        let _ = a.to_string();
        let _ = a.as_normalized_form();
        let _ = Nevra::parse_values(s);
        let b = Evr::parse(s);
        let _ = b.to_string();
        let _ = Evr::parse_values(s);
        let _ = rpm::rpm_evr_compare(s, "1");
        CompressionType::from_str(s).is_ok()
    });
    match r {
        Err(p) => acc.viol(panic_violation("no-panic", &p, json!({"kind": "text", "text": s}))),
        Ok(ok) => acc.count(if ok { "compression-name" } else { "other-text" }),
    }
}

pub fn run(ctx: &Ctx) -> i32 {
    let names: Vec<String> = strings(&["a", "1", "-", "."], 1, if ctx.thorough() { 4 } else { 3 }).into_iter().filter(|s| !s.starts_with('-')).collect();
    let epochs = ["", "0", "1", "12", "00", "01", "2147483647", "2147483648", "4294967295"];
    let vers = strings(&["1", "a", ".", "0"], 1, 2);
    let rels = strings(&["1", "a", ".", "0"], 1, 2);
    // dependency versions have no release: EVRs (not NEVRAs) also with an empty release
    let evr_rels: Vec<String> = std::iter::once(String::new()).chain(rels.iter().cloned()).collect();
    // longer versions with zero-padded numeric segments
    let evr_vers: Vec<String> = vers.iter().cloned().chain(["1.05", "2023.01.09", "5.008", "00", "0.0", "1.0a01", "007"].iter().map(|s| s.to_string())).collect();
    let archs = ["x", "noarch", "x86_64", ""]; // "" as in gpg-pubkey packages
    let rad = [names.len() as u64, epochs.len() as u64, vers.len() as u64, rels.len() as u64, archs.len() as u64];
    let n = vlib::par::product(&rad);
    let a = merge(par_fold(n, Acc::new, |i, acc| {
        let d = vlib::par::decode(i, &rad);
        check_nevra(&names[d[0] as usize], epochs[d[1] as usize], &vers[d[2] as usize], &rels[d[3] as usize], archs[d[4] as usize], i.wrapping_mul(0x9e3779b97f4a7c15), acc);
    }));
    let mut s1 = SubReport::new(
        "nevra",
        "A",
        &format!("all {} tuples: name ∈ strings of length 1..3 over {{a,1,-,.}} not starting with '-', epoch ∈ {:?}, version and release ∈ strings of length 1..2 over {{1,a,.,0}}, arch ∈ {:?}; to_string/parse, as_normalized_form/parse, parse_values, nvra; plus the asset packages' own NEVRAs, plus 891 tuples whose name contains the package's own version, release, architecture or the whole '-V-R.A' text (once, twice, with a suffix)", n, epochs, archs),
        a,
    );
    // asset packages
    let mut assets = Acc::new();
    for rel in crate::common_assets::ASSETS {
        let p = ctx.asset(rel);
        match rpm::PackageMetadata::open(&p) {
            Ok(m) => {
                let name = m.get_name().unwrap_or("").to_string();
                let epoch = m.get_epoch().map(|e| e.to_string()).unwrap_or_default();
                let ver = m.get_version().unwrap_or("").to_string();
                let rel_ = m.get_release().unwrap_or("").to_string();
                let arch = m.get_arch().unwrap_or("").to_string();
                check_nevra(&name, &epoch, &ver, &rel_, &arch, 0, &mut assets);
                check_evr(&epoch, &ver, &rel_, 0, &mut assets);
            }
            Err(e) => crate::ctx::machinery(&format!("cannot open asset {}: {}", p.display(), e)),
        }
    }
    s1.acc.merge(assets);
    // names that contain (pieces of) the package's own version-release.arch text, as kernel module and debuginfo packages do
    let mut selfsim = Acc::new();
    for v in ["1", "1.a", "5.17.5"] {
        for r in ["1", "a", "200.fc35"] {
            for a in ["a", "x86_64", "noarch"] {
                for e in ["", "0", "7"] {
                    let pieces = [
                        format!("x-{}-{}.{}", v, r, a),
                        format!("{}-{}.{}", v, r, a),
                        format!("x-{}-{}.{}-y", v, r, a),
                        format!("x-0:{}-{}.{}", v, r, a).replace(':', "_"),
                        format!("x-{}", v),
                        format!("x-{}-{}", v, r),
                        format!("x.{}", a),
                        format!("{}.{}", r, a),
                        format!("x-{}-{}.{}-{}-{}.{}", v, r, a, v, r, a),
                        v.to_string(),
                        a.to_string(),
                    ];
                    for n in pieces {
                        check_nevra(&n, e, v, r, a, 1 << 60, &mut selfsim);
                    }
                }
            }
        }
    }
    s1.acc.merge(selfsim);

    let erad = [epochs.len() as u64, evr_vers.len() as u64, evr_rels.len() as u64];
    let en = vlib::par::product(&erad);
    let b = merge(par_fold(en, Acc::new, |i, acc| {
        let d = vlib::par::decode(i, &erad);
        check_evr(epochs[d[0] as usize], &evr_vers[d[1] as usize], &evr_rels[d[2] as usize], i, acc);
    }));
    let s2 = SubReport::new("evr", "A", &format!("all {} (epoch, version, release) tuples over the same component sets, plus seven longer versions with zero-padded numeric segments (1.05, 2023.01.09, …) and the empty release (a dependency version such as 4:5.30)", en), b);

    // compression types
    let mut c = Acc::new();
    for t in [CompressionType::None, CompressionType::Gzip, CompressionType::Zstd, CompressionType::Xz, CompressionType::Bzip2] {
        c.evals += 1;
        let text = t.to_string();
        let case = json!({"kind": "compression", "text": text});
        match catch(|| CompressionType::from_str(&text)) {
            Err(p) => c.viol(panic_violation("compression", &p, case)),
            Ok(Ok(back)) if back == t => {
                c.nontrivial += 1;
                c.count("round-trips");
                c.sample(c.evals, || json!({"compression": text}));
            }
            Ok(other) => c.viol(Violation::new("compression", format!("{:?} prints as {:?} which parses as {:?}", t, text, other.map_err(|e| e.to_string())), case).sig("clause", "compression-roundtrip").sig("type", text.clone())),
        }
    }
    let s3 = SubReport::new("compression", "A", "all five CompressionType values through Display then FromStr", c);

    let alpha = ["a", "1", "-", ".", ":"];
    let l = if ctx.thorough() { 10 } else { 6 };
    let nn = strings_count(alpha.len(), l);
    let d = merge(par_fold(nn, Acc::new, |i, acc| {
        let mut t = vec![];
        strings_nth(i, alpha.len(), &mut t);
        let s: String = t.iter().map(|x| alpha[*x]).collect();
        check_nopanic(&s, acc);
        if i < 4 {
            acc.sample(i, || json!({"text": s}));
        }
    }));
    // the whole character domain: every Unicode scalar value inside each component
    let u = merge(par_fold(0x11_0000, Acc::new, |cp, acc| {
        let Some(c) = char::from_u32(cp as u32) else { return };
        // the characters that delimit the components cannot be inside every component; NUL is not text for rpm
        if matches!(c, '-' | ':' | '.' | '\0') {
            return;
        }
        check_nevra(&format!("a{}b", c), "1", &format!("2{}", c), &format!("{}3", c), "x", cp.wrapping_mul(0x9e3779b97f4a7c15), acc);
        check_evr("", &format!("{}", c), &format!("r{}", c), cp.wrapping_mul(0x9e3779b97f4a7c15), acc);
        check_nopanic(&format!("{0}-{0}:{0}-{0}.{0}", c), acc);
    }));
    let mut s5_extra = Acc::new();
    let mut s5 = SubReport::new("unicode-scalars", "A", "the values Default::default() gives; every Unicode scalar value except '-', ':', '.' and NUL inside the name, the version and the release of a NEVRA and of an EVR (round trip as for the tuples), and in every component position of a text given to the parsers (no panic)", u);
    // values that come from Default::default()
    {
        let e = Evr::default();
        check_evr(e.epoch(), e.version(), e.release(), 1 << 60, &mut s5_extra);
        let n = Nevra::default();
        check_nopanic(&n.to_string(), &mut s5_extra);
        check_nopanic(&n.as_normalized_form(), &mut s5_extra);
        s5_extra.evals += 1;
        if Nevra::parse(&n.to_string()) != n || Evr::parse(&e.to_string()) != e {
            s5_extra.viol(Violation::new("unicode-scalars", format!("the default value formats as {:?} / {:?} and does not parse back to itself", n.to_string(), e.to_string()), json!({"kind": "default"})).sig("clause", "default-roundtrip"));
        }
    }
    s5.acc.merge(s5_extra);
    let mut s4 = SubReport::new("no-panic", "A", &format!("every string of length ≤ {} over {{a,1,-,.,:}} plus \"none\", \"gzip\", …, every sequence of ≤ 3 words from the vocabulary of compressor names and rpm payload flags (gzip … none, gzdio … ufdio, w, 9, 19, T, L, '.', ' ', '-') in both cases, and texts of length 3 … 4096 (every power of two ± 1) with a 2-, 3- or 4-byte character straddling the boundary, through Nevra::parse, Evr::parse, parse_values, rpm_evr_compare, CompressionType::from_str", l), d);
    for w in ["none", "gzip", "zstd", "xz", "bzip2", "", "é", "-:-.", ":::", "---"] {
        check_nopanic(w, &mut s4.acc);
    }
    // the vocabulary of compressor names: the five names, rpm's payload-flag spellings (w9.gzdio, w19.zstdio, w.ufdio …) and their pieces
    {
        let voc = ["gzip", "zstd", "xz", "bzip2", "none", "gzdio", "zstdio", "xzdio", "bzdio", "ufdio", "lzdio", "w", "9", "19", "T", "L", ".", " ", "-"];
        let n = strings_count(voc.len(), 3);
        let extra = merge(par_fold(n, Acc::new, |i, acc| {
            let mut t = vec![];
            strings_nth(i, voc.len(), &mut t);
            let s: String = t.iter().map(|x| voc[*x]).collect();
            check_nopanic(&s, acc);
            check_nopanic(&s.to_uppercase(), acc);
        }));
        s4.acc.merge(extra);
    }
    // texts whose length sits at a power of two, with a multi-byte character straddling the boundary
    for l in [3usize, 4, 7, 8, 15, 16, 17, 31, 32, 33, 63, 64, 65, 127, 128, 129, 255, 256, 257, 1023, 1024, 4095, 4096] {
        for (fill, tail) in [("a", "é"), ("a", "語"), ("a", "😀"), ("-", "é"), (":", "é"), (".", "語")] {
            for back in 0..4usize {
                let mut t = fill.repeat(l.saturating_sub(back));
                t.push_str(tail);
                t.push_str("tail-1.2-3.x");
                check_nopanic(&t, &mut s4.acc);
            }
        }
        check_nopanic(&"語".repeat(l), &mut s4.acc);
        check_nopanic(&"é".repeat(l), &mut s4.acc);
    }
    s4.acc.nontrivial = s4.acc.evals; // every string is a case of the no-panic clause
    ctx.finish(
        "exploration",
        vec![s1, s2, s3, s4, s5],
        &["component values a real package can carry: name without ':' not starting with '-'; version/release without '-' and ':'; arch without '.' and '-'"],
        vec![],
    )
}

pub fn replay(_ctx: &Ctx, v: &Value) -> i32 {
    let c = &v["case"];
    let mut acc = Acc::new();
    let g = |k: &str| c[k].as_str().unwrap_or("").to_string();
    match c["kind"].as_str() {
        Some("nevra") => check_nevra(&g("name"), &g("epoch"), &g("version"), &g("release"), &g("arch"), 0, &mut acc),
        Some("evr") => check_evr(&g("epoch"), &g("version"), &g("release"), 0, &mut acc),
        Some("text") => check_nopanic(&g("text"), &mut acc),
        Some("compression") => {
            let t = g("text");
            println!("CompressionType::from_str({:?}) = {:?}", t, CompressionType::from_str(&t).map_err(|e| e.to_string()));
            return if CompressionType::from_str(&t).is_ok() { 0 } else { 1 };
        }
        _ => crate::ctx::machinery("unknown case kind"),
    }
    for v in acc.viols.values() {
        println!("REPRODUCED {}: {}", v.key(), v.what);
    }
    if acc.viols.is_empty() {
        println!("not reproduced (case passes)");
        0
    } else {
        1
    }
}
