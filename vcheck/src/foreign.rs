//! Hand-encoded ("foreign") packages with file lists and cpio payloads, assembled
//! with the reference codecs. Used by C04 (hostile cpio), C07 (ghost files,
//! reordered archives, stripped entries) and C12 (hostile paths).
#![allow(dead_code)]
use crate::oracles::*;
use crate::pkgtool::*;
use vlib::refcpio::{self, Newc};
use vlib::refhdr::{RawLead, Val};

#[derive(Clone, Debug)]
pub struct FFile {
    pub dir: String,  // e.g. "/usr/bin/" (as stored in DIRNAMES)
    pub base: String, // BASENAMES item
    pub mode: u16,
    pub content: Vec<u8>,
    pub linkto: String,
    pub flags: u32,
    pub user: String,
    pub group: String,
    pub mtime: u32,
    pub caps: Option<String>,
}

impl FFile {
    pub fn regular(dir: &str, base: &str, content: &[u8]) -> Self {
        FFile {
            dir: dir.into(),
            base: base.into(),
            mode: 0o100644,
            content: content.to_vec(),
            linkto: String::new(),
            flags: 0,
            user: "root".into(),
            group: "root".into(),
            mtime: 1_500_000_000,
            caps: None,
        }
    }
    pub fn dir(dir: &str, base: &str, perm: u16) -> Self {
        let mut f = FFile::regular(dir, base, b"");
        f.mode = 0o040000 | perm;
        f
    }
    pub fn symlink(dir: &str, base: &str, target: &str) -> Self {
        let mut f = FFile::regular(dir, base, b"");
        f.mode = 0o120777;
        f.linkto = target.into();
        f
    }
    pub fn path(&self) -> String {
        format!("{}{}", self.dir, self.base)
    }
    /// name of the entry in the cpio archive ("." + absolute path)
    pub fn cpio_name(&self) -> String {
        format!(".{}", self.path())
    }
    /// data stored in the archive for this file (symlinks store their target)
    pub fn archive_data(&self) -> Vec<u8> {
        if self.mode & 0o170000 == 0o120000 {
            self.linkto.as_bytes().to_vec()
        } else {
            self.content.clone()
        }
    }
}

/// Main-header records describing `files` (in the given order).
pub fn file_records(files: &[FFile], long_sizes: bool) -> Vec<(u32, Val)> {
    if files.is_empty() {
        return vec![];
    }
    let mut dirs: Vec<String> = vec![];
    let mut dirindex = vec![];
    for f in files {
        let i = match dirs.iter().position(|d| *d == f.dir) {
            Some(i) => i,
            None => {
                dirs.push(f.dir.clone());
                dirs.len() - 1
            }
        };
        dirindex.push(i as u32);
    }
    let s = |v: Vec<String>| Val::StrArray(v.into_iter().map(|x| x.into_bytes()).collect());
    let sizes: Vec<u64> = files.iter().map(|f| f.archive_data().len() as u64).collect();
    let mut r = vec![
        (1117, s(files.iter().map(|f| f.base.clone()).collect())),
        (1118, s(dirs)),
        (1116, Val::Int32(dirindex)),
        (1030, Val::Int16(files.iter().map(|f| f.mode).collect())),
        (1033, Val::Int16(files.iter().map(|_| 0).collect())),
        (1034, Val::Int32(files.iter().map(|f| f.mtime).collect())),
        (
            1035,
            s(files
                .iter()
                .map(|f| if f.mode & 0o170000 == 0o100000 { sha256_hex(&f.content) } else { String::new() })
                .collect()),
        ),
        (1036, s(files.iter().map(|f| f.linkto.clone()).collect())),
        (1037, Val::Int32(files.iter().map(|f| f.flags).collect())),
        (1039, s(files.iter().map(|f| f.user.clone()).collect())),
        (1040, s(files.iter().map(|f| f.group.clone()).collect())),
        (1095, Val::Int32(files.iter().map(|_| 1).collect())),
        (1096, Val::Int32((1..=files.len() as u32).collect())),
        (1097, s(files.iter().map(|_| String::new()).collect())),
        (1045, Val::Int32(files.iter().map(|_| u32::MAX).collect())),
        (5011, Val::Int32(vec![8])),
    ];
    if long_sizes {
        r.push((5008, Val::Int64(sizes)));
    } else {
        r.push((1028, Val::Int32(sizes.iter().map(|x| *x as u32).collect())));
    }
    if files.iter().any(|f| f.caps.is_some()) {
        r.push((5010, s(files.iter().map(|f| f.caps.clone().unwrap_or_default()).collect())));
    }
    r
}

/// Standard newc archive holding `order` (indices into `files`), then the trailer.
pub fn newc_archive(files: &[FFile], order: &[usize]) -> Vec<u8> {
    let mut o = vec![];
    for &i in order {
        let f = &files[i];
        let mut e = Newc::file(&f.cpio_name(), f.mode as u32, i as u32 + 1, &f.archive_data());
        e.mtime = f.mtime;
        refcpio::write_newc(&mut o, &e);
    }
    refcpio::write_trailer(&mut o);
    o
}

/// As `newc_archive`, with the entry names as rpmbuild writes them into source packages: the bare path, no "./" in front.
pub fn newc_archive_bare(files: &[FFile], order: &[usize]) -> Vec<u8> {
    let mut o = vec![];
    for &i in order {
        let f = &files[i];
        let mut e = Newc::file(f.path().trim_start_matches('/'), f.mode as u32, i as u32 + 1, &f.archive_data());
        e.mtime = f.mtime;
        refcpio::write_newc(&mut o, &e);
    }
    refcpio::write_trailer(&mut o);
    o
}

/// rpm's stripped archive (as rpm writes it for packages with files > 4 GiB).
pub fn stripped_archive(files: &[FFile], order: &[usize]) -> Vec<u8> {
    let mut o = vec![];
    for &i in order {
        refcpio::write_stripped(&mut o, i as u32, &files[i].archive_data());
    }
    refcpio::write_trailer(&mut o);
    o
}

pub fn base_records(name: &str) -> Vec<(u32, Val)> {
    vec![
        (1000, Val::str(name)),
        (1001, Val::str("1.0")),
        (1002, Val::str("1")),
        (1004, Val::i18n(&["summary"])),
        (1005, Val::i18n(&["description"])),
        (1014, Val::str("MIT")),
        (1021, Val::str("linux")),
        (1022, Val::str("noarch")),
        (1044, Val::str("hand-1.0-1.src.rpm")),
        (1124, Val::str("cpio")),
    ]
}

/// A complete foreign package: header describing `files`, the given (raw) archive,
/// optionally compressed by the caller, all four digests recorded.
pub fn package(name: &str, files: &[FFile], archive: Vec<u8>, compressor: Option<&str>, long_sizes: bool) -> Parts {
    let mut main = base_records(name);
    main.extend(file_records(files, long_sizes));
    // as rpmbuild computes it: the sizes of the regular files
    let total: u64 = files.iter().filter(|f| f.mode & 0o170000 == 0o100000).map(|f| f.content.len() as u64).sum();
    if long_sizes {
        main.push((5009, Val::Int64(vec![total])));
    } else {
        main.push((1009, Val::Int32(vec![total as u32])));
    }
    if let Some(c) = compressor {
        main.push((1125, Val::str(c)));
    }
    let p = Parts {
        lead: RawLead::new(name),
        sig: vec![],
        main,
        payload: archive,
        order: (0, 0),
    };
    let (x, _) = with_digests(&p, &DigestPlan { md5: D::Correct, sha1: D::Correct, sha256: D::Correct, payload: D::Correct, algo: 8 });
    split(&x).expect("foreign package splits")
}

/// The same newc archive with the hexadecimal header fields printed in upper case (`%08X`, as GNU cpio and
/// the kernel's gen_init_cpio write them).
pub fn newc_upper_hex(a: &[u8]) -> Vec<u8> {
    let mut out = a.to_vec();
    let mut o = 0usize;
    while o + 110 <= out.len() && &out[o..o + 5] == b"07070" {
        let field = |k: usize, buf: &[u8]| usize::from_str_radix(std::str::from_utf8(&buf[o + 6 + 8 * k..o + 14 + 8 * k]).unwrap_or("0"), 16).unwrap_or(0);
        let (filesize, namesize) = (field(6, &out), field(11, &out));
        for b in out[o + 6..o + 110].iter_mut() {
            b.make_ascii_uppercase();
        }
        let mut next = o + 110 + namesize;
        next = (next + 3) / 4 * 4;
        next += filesize;
        next = (next + 3) / 4 * 4;
        if next <= o {
            break;
        }
        o = next;
    }
    out
}

pub fn sample_files() -> Vec<FFile> {
    let mut cfg = FFile::regular("/etc/", "hand.conf", b"key=value\n");
    cfg.flags = 1;
    cfg.caps = None;
    let mut bin = FFile::regular("/usr/bin/", "hand", b"#!/bin/sh\necho hand\n");
    bin.mode = 0o100755;
    bin.caps = Some("cap_chown=p".into());
    vec![cfg, bin, FFile::symlink("/usr/bin/", "hand-link", "hand")]
}
