//! Hooks compiled into rpm-rs/rpm behind the `verif-hooks` cargo feature.
pub fn set_force_large_files(on: bool) {
    rpm::verif_hooks::set_force_large_files(on);
}
