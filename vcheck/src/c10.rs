//! C10 — after any signing history a package verifies with exactly the last signer's key
//! (engine B: explicit-state search whose transitions are the real sign / clear / write+parse).
use crate::common::*;
use crate::common_assets::ASSETS;
use crate::ctx::Ctx;
use crate::keys::{Key, ALL_KEYS, FAST_KEYS};
use crate::oracles::*;
use crate::spec::*;
use rpm::signature::pgp::Verifier;
use serde_json::{json, Value};
use sha2::{Digest, Sha256};
use vlib::bfs::{bfs, Node};
use vlib::refhdr::scan;
use vlib::report::{catch, Acc, SubReport, Violation};

#[derive(Clone, Copy, Debug, PartialEq, Eq)]
enum Signer {
    None,
    Foreign,
    Ours(Key),
}

/// Signers that cannot sign: the operation fails and must leave the package as it was.
#[derive(Debug, Clone, Copy)]
enum Failing {
    ReturnsErr,
    ReturnsGarbage,
}

impl rpm::signature::Signing for Failing {
    type Signature = Vec<u8>;
    fn sign(&self, mut data: impl std::io::Read, _t: rpm::Timestamp) -> Result<Vec<u8>, rpm::Error> {
        let mut v = vec![];
        let _ = data.read_to_end(&mut v);
        match self {
            Failing::ReturnsErr => Err(rpm::Error::KeyNotFoundError { key_ref: "hardware token unplugged".into() }),
            Failing::ReturnsGarbage => Ok(b"this is not an OpenPGP packet".to_vec()),
        }
    }
    fn algorithm(&self) -> rpm::signature::AlgorithmType {
        rpm::signature::AlgorithmType::RSA
    }
}

#[derive(Clone)]
struct St {
    pkg: rpm::Package,
    /// reference model: who signed last since the last clear
    last: Signer,
    /// freshly re-parsed from bytes (true) or the in-memory result of an operation (false)
    reparsed: bool,
    start: usize,
    /// false if the last signature carries no issuer key id subpacket of the primary key (fingerprint only, no issuer,
    /// made by a subkey): which id signature_key_ids() then reports is not judged
    id_reported: bool,
    /// false if the last signature was made by a subkey and does not name it by key id: whether the
    /// library finds the right subkey then is not judged (no other key may verify all the same)
    must_verify: bool,
}

struct Start {
    name: String,
    header: Vec<u8>,
    payload: Vec<u8>,
}

const TIMES: [u32; 2] = [1_600_000_000, 1_700_000_000];

fn bytes_of(p: &rpm::Package) -> Vec<u8> {
    let mut o = vec![];
    p.write(&mut o).expect("write to Vec");
    o
}

pub fn run(ctx: &Ctx) -> i32 {
    let env = Env::new(&ctx.repo, "c10");
    let keys: Vec<Key> = if ctx.thorough() { ALL_KEYS.to_vec() } else { FAST_KEYS.to_vec() };
    let verifiers: Vec<(Key, Verifier)> = ALL_KEYS.iter().map(|k| (*k, k.verifier(&ctx.repo))).collect();
    let ids: Vec<(Key, String)> = ALL_KEYS.iter().map(|k| (*k, k.key_id(&ctx.repo))).collect();

    // start states
    let mut starts: Vec<Start> = vec![];
    let mut inits: Vec<(String, St)> = vec![];
    let add = |name: String, pkg: rpm::Package, last: Signer, starts: &mut Vec<Start>, inits: &mut Vec<(String, St)>| {
        let b = bytes_of(&pkg);
        let l = scan(&b).unwrap_or_else(|| crate::ctx::machinery("start package does not scan")).3;
        starts.push(Start { name: name.clone(), header: b[l.hdr_off..l.payload_off].to_vec(), payload: b[l.payload_off..].to_vec() });
        inits.push((format!("start({})", name), St { pkg, last, reparsed: false, start: starts.len() - 1, id_reported: true, must_verify: true }));
    };
    let mut specs = vec![("built-empty", BuildSpec::minimal()), ("built-one-file", crate::corpus::one_file())];
    let mut gz = crate::corpus::rich();
    gz.compression = Comp::Gzip(6);
    specs.push(("built-rich-gzip", gz));
    if ctx.thorough() {
        let mut z = crate::corpus::sizes();
        z.compression = Comp::Zstd(3);
        specs.push(("built-sizes-zstd", z));
        let mut signed = crate::corpus::one_file();
        signed.sign = Some(Key::Ed25519);
        specs.push(("built-signed-ed25519", signed));
    }
    for (n, s) in specs {
        let last = match s.sign {
            Some(k) => Signer::Ours(k),
            None => Signer::None,
        };
        let p = s.build(&env).unwrap_or_else(|e| crate::ctx::machinery(&format!("cannot build start package {}: {}", n, e)));
        add(n.to_string(), p, last, &mut starts, &mut inits);
    }
    let assets: Vec<&str> = if ctx.thorough() { ASSETS.to_vec() } else { vec![ASSETS[2], ASSETS[5]] };
    for rel in assets {
        let p = rpm::Package::open(ctx.asset(rel)).unwrap_or_else(|e| crate::ctx::machinery(&format!("{}: {}", rel, e)));
        // a foreign package may be signed by somebody else or not at all; neither is one of our keys
        add(rel.rsplit('/').next().unwrap().to_string(), p, Signer::Foreign, &mut starts, &mut inits);
    }

    // the same signatures in the older layouts rpm itself writes: header-only RSA / DSA tags, header+payload PGP tag,
    // each alone, without the OpenPGP tag (derived by re-encoding the signature header; main header and payload untouched)
    {
        use base64::Engine;
        use vlib::refhdr::{assemble, RawHeader, Val};
        let reencode = |x: &[u8], edit: &dyn Fn(&mut Vec<(u32, Val)>)| -> Option<rpm::Package> {
            let (lead, _, hdr, l) = scan(x)?;
            let mut recs = crate::pkgtool::split(x)?.sig;
            edit(&mut recs);
            let (y, _) = assemble(&lead, &RawHeader::layout_region(62, &recs), 0, &hdr, &x[l.payload_off..]);
            match parse_pkg(&y) {
                Ok(Ok(p)) => Some(p),
                _ => None,
            }
        };
        let foreign: Vec<&str> = if ctx.thorough() { ASSETS.to_vec() } else { vec![ASSETS[2], ASSETS[5]] };
        for rel in foreign {
            let x = std::fs::read(ctx.asset(rel)).unwrap_or_else(|e| crate::ctx::machinery(&format!("{}: {}", rel, e)));
            let short = rel.rsplit('/').next().unwrap();
            for (what, drop) in [("header-only RSA/DSA tags alone", vec![1002u32, 1005, 278]), ("header+payload PGP/GPG tags alone", vec![268, 267, 278]), ("no signature tag at all", vec![268, 267, 1002, 1005, 278])] {
                if let Some(p) = reencode(&x, &|r| r.retain(|(t, _)| !drop.contains(t))) {
                    add(format!("{} [{}]", short, what), p, Signer::Foreign, &mut starts, &mut inits);
                }
            }
        }
        for (k, tag) in [(Key::Rsa4096, 268u32), (Key::Ed25519, 267)] {
            let mut sp = crate::corpus::one_file();
            sp.sign = Some(k);
            let x = sp.build_bytes(&env).unwrap_or_else(|e| crate::ctx::machinery(&format!("legacy start: {}", e))).1;
            let p = reencode(&x, &|r| {
                let sig = r.iter().find(|(t, _)| *t == 278).and_then(|(_, v)| if let Val::StrArray(a) = v { a.first().cloned() } else { None });
                if let Some(b64) = sig {
                    if let Ok(raw) = base64::engine::general_purpose::STANDARD.decode(&b64) {
                        r.retain(|(t, _)| *t != 278);
                        r.push((tag, Val::Bin(raw)));
                    }
                }
            });
            match p {
                Some(p) => add(format!("built-one-file signed by {} [signature moved to the header-only tag {}]", k.name(), tag), p, Signer::Ours(k), &mut starts, &mut inits),
                None => crate::ctx::machinery("legacy-layout start package does not parse"),
            }
        }
    }

    let mut foreign_signers: Vec<(Key, crate::fsigner::ForeignSigner)> = vec![];
    let fkeys: Vec<Key> = if ctx.thorough() { keys.clone() } else { vec![Key::Ed25519, Key::Rsa2048] };
    for k in &fkeys {
        for l in crate::fsigner::LAYOUTS {
            for subkey in [false, true] {
                if l == crate::fsigner::Layout::LikeLibrary && !subkey {
                    continue; // what sign(k, t) already does
                }
                if let Some(f) = crate::fsigner::ForeignSigner::new(&ctx.repo, *k, l, crate::fsigner::What::TheData, subkey) {
                    foreign_signers.push((*k, f));
                }
            }
        }
    }
    let max_depth = 6;
    let keys_ref = &keys;
    let protected_attempts = ctx.thorough();
    // the state space closes after a few hundred (thorough: a few thousand) states when signing leaves no trace of earlier
    // signatures; a search that passes this bound is stopped and reported instead of exhausting the machine
    let state_cap: u64 = if ctx.thorough() { 400_000 } else { 40_000 };
    vlib::bfs::MAX_STATES.with(|c| c.set(state_cap));
    let (stats, accs) = bfs(
        inits,
        max_depth,
        |s: &St| {
            let mut h = Sha256::new();
            h.update(bytes_of(&s.pkg));
            h.update([s.reparsed as u8, s.start as u8, s.id_reported as u8, s.must_verify as u8]);
            h.update(format!("{:?}", s.last));
            h.finalize().to_vec()
        },
        // transitions: every enabled operation on a fresh clone of the real object
        |node: &Node<St>, acc: &mut Acc| {
            let mut out = vec![];
            let s = &node.state;
            for k in keys_ref {
                for t in TIMES {
                    let mut p = s.pkg.clone();
                    let label = format!("sign({}, {})", k.name(), t);
                    match catch(|| p.sign_with_timestamp(env.signer(*k), t)) {
                        Ok(Ok(())) => out.push((label, St { pkg: p, last: Signer::Ours(*k), reparsed: false, start: s.start, id_reported: true, must_verify: true })),
                        Ok(Err(e)) => acc.viol(Violation::new("histories", format!("{} fails: {}", label, e), json!({"history": node.path, "op": label})).sig("clause", "operation-fails").sig("op", "sign")),
                        Err(pn) => acc.viol(panic_violation("histories", &pn, json!({"history": node.path, "op": label}))),
                    }
                }
            }
            // failed signing attempts: Err, and the package is exactly what it was
            // valid signatures laid out as other OpenPGP tools lay them out, attached through the public Signing trait
            for fs in foreign_signers.iter() {
                let mut p = s.pkg.clone();
                let label = format!("sign({}, foreign layout {:?}{})", fs.0.name(), fs.1.layout, if fs.1.subkey { ", made by the signing subkey" } else { "" });
                match catch(|| p.sign_with_timestamp(&fs.1, TIMES[0])) {
                    Ok(Ok(())) => out.push((label, St { pkg: p, last: Signer::Ours(fs.0), reparsed: false, start: s.start, id_reported: fs.1.layout_has_exactly_one_issuer() && !fs.1.subkey, must_verify: !(fs.1.subkey && !fs.1.has_issuer_key_id()) })),
                    Ok(Err(e)) => acc.viol(Violation::new("histories", format!("{} fails: {}", label, e), json!({"history": node.path, "op": label})).sig("clause", "operation-fails").sig("op", "sign")),
                    Err(pn) => acc.viol(panic_violation("histories", &pn, json!({"history": node.path, "op": label}))),
                }
            }
            let before = bytes_of(&s.pkg);
            let mut attempts: Vec<(String, rpm::Package, Result<Result<(), rpm::Error>, vlib::report::Panic>)> = vec![];
            for f in [Failing::ReturnsErr, Failing::ReturnsGarbage] {
                let mut p = s.pkg.clone();
                let r = catch(|| p.sign_with_timestamp(f, TIMES[0]));
                attempts.push((format!("failed-sign({:?})", f), p, r));
            }
            if protected_attempts {
                for pass in [None, Some("wrong passphrase")] {
                    let mut p = s.pkg.clone();
                    let raw = std::fs::read(env.repo.join("tests/assets/signing_keys/secret_rsa3072_protected.asc")).unwrap_or_default();
                    let mut signer = rpm::signature::pgp::Signer::load_from_asc_bytes(&raw).expect("protected key loads");
                    if let Some(pw) = pass {
                        signer = signer.with_key_passphrase(pw);
                    }
                    let r = catch(|| p.sign_with_timestamp(signer, TIMES[0]));
                    attempts.push((format!("failed-sign(protected key, passphrase {:?})", pass), p, r));
                }
            }
            for (label, p, r) in attempts {
                match r {
                    Err(pn) => acc.viol(panic_violation("histories", &pn, json!({"history": node.path, "op": label}))),
                    Ok(Ok(())) => acc.count("a signer that cannot sign was accepted (successor not judged)"),
                    Ok(Err(_)) => {
                        if bytes_of(&p) != before {
                            let mut path = node.path.clone();
                            path.push(label.clone());
                            acc.viol(
                                Violation::new("histories", format!("{} returned an error but changed the package (last signer {:?})", label, s.last), json!({"start": starts[s.start].name, "history": path}))
                                    .sig("clause", "failed-operation-changes-package")
                                    .rank(node.depth as u64),
                            );
                            // keep exploring from the changed package: by the reference model nothing was signed or cleared
                            out.push((label, St { pkg: p, last: s.last, reparsed: false, start: s.start, id_reported: s.id_reported, must_verify: s.must_verify }));
                        } else {
                            acc.count("failed signing attempt left the package unchanged");
                        }
                    }
                }
            }
            {
                let mut p = s.pkg.clone();
                match catch(|| p.clear_signatures()) {
                    Ok(Ok(())) => out.push(("clear".to_string(), St { pkg: p, last: Signer::None, reparsed: false, start: s.start, id_reported: true, must_verify: true })),
                    Ok(Err(e)) => acc.viol(Violation::new("histories", format!("clear_signatures fails: {}", e), json!({"history": node.path, "op": "clear"})).sig("clause", "operation-fails").sig("op", "clear")),
                    Err(pn) => acc.viol(panic_violation("histories", &pn, json!({"history": node.path, "op": "clear"}))),
                }
            }
            {
                // re-parse through a reader that returns 3 bytes per read
                struct Slow<'a>(&'a [u8]);
                impl std::io::Read for Slow<'_> {
                    fn read(&mut self, buf: &mut [u8]) -> std::io::Result<usize> {
                        let n = buf.len().min(3).min(self.0.len());
                        buf[..n].copy_from_slice(&self.0[..n]);
                        self.0 = &self.0[n..];
                        Ok(n)
                    }
                }
                let b = bytes_of(&s.pkg);
                let r = catch(|| rpm::Package::parse(&mut std::io::BufReader::with_capacity(3, Slow(&b))));
                match r {
                    Ok(Ok(p)) => out.push(("write+parse(3-byte reads)".to_string(), St { pkg: p, last: s.last, reparsed: true, start: s.start, id_reported: s.id_reported, must_verify: s.must_verify })),
                    Ok(Err(e)) => acc.viol(Violation::new("histories", format!("the written package does not parse from a reader that returns 3 bytes at a time: {}", e), json!({"history": node.path, "op": "write+parse(3-byte reads)"})).sig("clause", "operation-fails").sig("op", "write+parse(3-byte reads)")),
                    Err(pn) => acc.viol(panic_violation("histories", &pn, json!({"history": node.path, "op": "write+parse(3-byte reads)"}))),
                }
            }
            {
                let b = bytes_of(&s.pkg);
                match parse_pkg(&b) {
                    Ok(Ok(p)) => out.push(("write+parse".to_string(), St { pkg: p, last: s.last, reparsed: true, start: s.start, id_reported: s.id_reported, must_verify: s.must_verify })),
                    _ => acc.viol(Violation::new("histories", "written package does not parse", json!({"history": node.path, "op": "write+parse"})).sig("clause", "operation-fails").sig("op", "write+parse")),
                }
            }
            acc.evals += out.len() as u64;
            out
        },
        // invariant, evaluated in every discovered state
        |node: &Node<St>, acc: &mut Acc| {
            let s = &node.state;
            let case = || json!({"start": starts[s.start].name, "history": node.path});
            acc.nontrivial += 1;
            let rank = node.depth as u64;
            let mut row = vec![];
            for (k, v) in &verifiers {
                let want = s.last == Signer::Ours(*k);
                match catch(|| s.pkg.verify_signature(v)) {
                    Err(pn) => acc.viol(panic_violation("histories", &pn, case()).rank(rank)),
                    Ok(r) => {
                        row.push(r.is_ok());
                        if r.is_ok() != want && (s.must_verify || r.is_ok()) {
                            acc.viol(
                                Violation::new("histories", format!("last signer is {:?} but verification with the {} key {}", s.last, k.name(), if r.is_ok() { "succeeds".to_string() } else { format!("fails: {}", r.unwrap_err()) }), case())
                                    .sig("clause", if want { "last-signer-does-not-verify" } else { "other-key-verifies" })
                                    .rank(rank),
                            );
                        }
                    }
                }
            }
            acc.count(&format!("verify matrix {:?}", row));
            match (s.last, catch(|| s.pkg.signature_key_ids())) {
                (_, Err(pn)) => acc.viol(panic_violation("histories", &pn, case()).rank(rank)),
                (Signer::Ours(_), Ok(_)) if !s.id_reported => acc.count("signature without an issuer key id of the primary key: reported id not judged"),
                (Signer::Ours(k), Ok(r)) => {
                    let want = vec![ids.iter().find(|(x, _)| *x == k).unwrap().1.clone()];
                    if r.as_ref().ok() != Some(&want) {
                        acc.viol(Violation::new("histories", format!("signed by {} (key id {}), signature_key_ids() = {:?}", k.name(), want[0], r.map_err(|e| e.to_string())), case()).sig("clause", "reported-signer").rank(rank));
                    }
                }
                (Signer::None, Ok(r)) => {
                    if r.is_ok() {
                        acc.viol(Violation::new("histories", format!("unsigned package reports signer {:?}", r), case()).sig("clause", "reported-signer-when-unsigned").rank(rank));
                    }
                }
                (Signer::Foreign, _) => {}
            }
            // what a foreign start package says about its own digests is its own business
            if s.last != Signer::Foreign {
                match catch(|| s.pkg.verify_digests()) {
                    Ok(Ok(())) => {}
                    Ok(Err(e)) => acc.viol(Violation::new("histories", format!("verify_digests fails: {}", e), case()).sig("clause", "digests").rank(rank)),
                    Err(pn) => acc.viol(panic_violation("histories", &pn, case()).rank(rank)),
                }
            }
            let b = bytes_of(&s.pkg);
            match scan(&b) {
                Some((_, _, _, l)) => {
                    if b[l.hdr_off..l.payload_off] != starts[s.start].header[..] {
                        acc.viol(Violation::new("histories", "main header bytes differ from the start package", case()).sig("clause", "header-untouched").rank(rank));
                    }
                    if b[l.payload_off..] != starts[s.start].payload[..] {
                        acc.viol(Violation::new("histories", "payload differs from the start package", case()).sig("clause", "payload-untouched").rank(rank));
                    }
                }
                None => acc.viol(Violation::new("histories", "state does not scan", case()).sig("clause", "scan").rank(rank)),
            }
            if node.depth <= 2 {
                acc.sample(node.depth as u64 * 1000 + node.path.len() as u64, case);
            }
        },
        Acc::new,
    );
    let acc = merge(accs);
    // a search that was stopped at the bound decides nothing by itself: whatever invariant violations it found on the way are
    // reported; if it found none, the harness's assumption (equal histories give equal bytes) no longer holds and it says so
    if stats.capped && acc.viols.is_empty() {
        crate::ctx::machinery(&format!("the state space does not close: more than {} distinct package states after {} operations and no invariant violation among them — equal histories no longer give equal bytes, the search cannot decide", state_cap, stats.depth_reached + 1));
    }
    let n_states = stats.states;
    let s = SubReport::new(
        "histories",
        "B",
        &format!(
            "state graph of {{sign(k, t) for k ∈ {:?}, t ∈ {:?}; clear; write+parse; sign(k) with valid signatures in the subpacket layouts of other OpenPGP tools (issuer unhashed / fingerprint only / none / twice / next to a foreign id; by the primary key or its signing subkey); signing attempts that fail (signer returns an error / returns bytes that are no OpenPGP packet; thorough: protected key without / with a wrong passphrase)}} from {} start packages (built empty / with files / rich gzip{}; foreign assets as shipped and with each family of signature tags alone; library-signed packages re-encoded to the header-only RSA / DSA tag layout); states = (bytes of the real package, in-memory vs re-parsed, reference last-signer), deduplicated by SHA-256 of the full byte image; invariant in every state: each of the 4 public keys verifies ⇔ it signed last, signature_key_ids() = [that key's id] (error when unsigned), digests verify, main header and payload byte-identical to the start package; a failed signing attempt leaves the bytes unchanged. Search ends at the fixpoint or at depth {}. non-trivial = state in which the invariant was evaluated",
            keys.iter().map(|k| k.name()).collect::<Vec<_>>(), TIMES, starts.len(), if ctx.thorough() { " / sizes zstd / already signed" } else { "" }, max_depth
        ),
        acc,
    )
    .extra("closed", json!(stats.closed))
    .extra("depth_reached", json!(stats.depth_reached))
    .extra("states_per_depth", json!(stats.states_per_depth));
    let mut s = s;
    s.exhaustive = stats.closed;
    if n_states < 5 {
        crate::ctx::machinery("state graph suspiciously small: vacuous");
    }
    ctx.finish(
        "model_checking",
        vec![s, generated_keys(ctx), large_headers(ctx, &env), layouts(ctx, &env), key_files(ctx, &env), signature_population(ctx, &env)],
        &[
            "all four signers are deterministic for a fixed timestamp, so equal histories give equal bytes and the graph closes; the result then holds for histories of any length over this alphabet",
            "every transition is a call of the real API (no separate model to validate): traces_validated_against_impl = transitions",
            "key ids are computed with the pgp crate from the public key files",
        ],
        vec![
            ("states", json!(stats.states)),
            ("transitions", json!(stats.transitions)),
            ("traces_validated_against_impl", json!(stats.transitions)),
            ("closure_reached", json!(stats.closed)),
            ("max_depth", json!(max_depth)),
        ],
    )
}

/// Keys generated by the harness (deterministic seeds): the reported key id must be the full 16 hex digits whatever
/// digits it starts with, a package signed with such a key verifies with it and with no other.
/// One fixed history — sign(ed25519), write + parse, sign(ecdsa-p256), write + parse, clear, write + parse — judged after every
/// step like the states of the search: verifies with exactly the last signer's key, digests verify, header and payload unchanged.
fn linear_history(sub: &str, ctx: &Ctx, env: &Env, start: &rpm::Package, rank0: u64, case: &dyn Fn(&str) -> Value, acc: &mut Acc) {
    let (ka, kb) = (Key::Ed25519, Key::EcdsaP256);
        let b0 = bytes_of(&start);
        let Some((_, _, _, l0)) = vlib::refhdr::scan(&b0) else { return acc.count("not scanned") };
        let rest0 = Sha256::digest(&b0[l0.hdr_off..]).to_vec();
        let mut p = start.clone();
        let mut last: Option<Key> = None;
        for (k, step) in ["sign(ed25519)", "write + parse", "sign(ecdsa-p256)", "write + parse", "clear", "write + parse"].iter().enumerate() {
            acc.evals += 1;
            let r = catch(|| match *step {
                "sign(ed25519)" => p.sign_with_timestamp(env.signer(ka), 1_600_000_000u32),
                "sign(ecdsa-p256)" => p.sign_with_timestamp(env.signer(kb), 1_600_000_000u32),
                "clear" => p.clear_signatures(),
                _ => {
                    let b = bytes_of(&p);
                    p = rpm::Package::parse(&mut &b[..])?;
                    Ok(())
                }
            });
            let rank = rank0 + k as u64;
            match r {
                Err(pn) => return acc.viol(panic_violation(sub, &pn, case(step)).rank(rank)),
                Ok(Err(e)) => return acc.viol(Violation::new(sub, format!("{} fails: {}", step, e), case(step)).sig("clause", "operation-fails").rank(rank)),
                Ok(Ok(())) => {}
            }
            match *step {
                "sign(ed25519)" => last = Some(ka),
                "sign(ecdsa-p256)" => last = Some(kb),
                "clear" => last = None,
                _ => {}
            }
            acc.nontrivial += 1;
            for key in [ka, kb] {
                let ok = catch(|| p.verify_signature(key.verifier(&ctx.repo))).map(|r| r.is_ok()).unwrap_or(false);
                if ok != (last == Some(key)) {
                    acc.viol(
                        Violation::new(sub, format!("after {}: verify_signature with {} = {}, last signer = {:?}", step, key.name(), ok, last.map(|k| k.name())), case(step))
                            .sig("clause", if ok { "other-key-verifies" } else { "last-signer-does-not-verify" })
                            .rank(rank),
                    );
                }
            }
            if catch(|| p.verify_digests()).map(|r| r.is_ok()).unwrap_or(false) == false {
                acc.viol(Violation::new(sub, format!("after {}: the digests do not verify", step), case(step)).sig("clause", "digests").rank(rank));
            }
            let b = bytes_of(&p);
            match vlib::refhdr::scan(&b) {
                Some((_, _, _, l)) if Sha256::digest(&b[l.hdr_off..]).to_vec() == rest0 => {}
                _ => acc.viol(Violation::new(sub, format!("after {}: main header and payload are not the bytes of the starting package", step), case(step)).sig("clause", "header-payload-changed").rank(rank)),
            }
        }
}

/// Packages whose main header is large (a signer or verifier that reads the data in pieces, or only up to a limit, shows here):
/// sign, write + parse, sign with another key, clear — judged after every step like the histories.
fn large_headers(ctx: &Ctx, env: &Env) -> SubReport {
    let mut sizes: Vec<usize> = vec![(1 << 16) + 100, (1 << 20) + 100, (16 << 20) - 4096, (16 << 20) + 4096, (32 << 20) + 4096];
    if ctx.thorough() {
        sizes.extend([(8 << 20) + 4096, (64 << 20) + 4096, (128 << 20) + 4096]);
    }
    let accs = vlib::par::par_fold(sizes.len() as u64, Acc::new, |i, acc| {
        let n = sizes[i as usize];
        let case = |step: &str| json!({"package": format!("no files, description of {} bytes (main header > {} MiB)", n, n >> 20), "history_up_to": step});
        let built = catch(|| rpm::PackageBuilder::new("big", "1", "MIT", "noarch", "s").description("d".repeat(n)).compression(rpm::CompressionType::None).source_date(1_600_000_000u32).build());
        let start = match built {
            Ok(Ok(p)) => p,
            _ => return acc.count("package does not build (not judged)"),
        };
        linear_history("large-headers", ctx, env, &start, i * 10, &case, acc);
        acc.count(&format!("main header of {} MiB and more", n >> 20));
    });
    let acc = Acc::merge_all(accs);
    SubReport::new("large-headers", "A", &format!("packages without files whose description has {:?} bytes (main headers up to and beyond 16 MiB and 32 MiB): after each step of sign(ed25519), write + parse, sign(ecdsa-p256), write + parse, clear, write + parse: verifies with exactly the last signer's key, digests verify, main header and payload byte-identical to the start", sizes), acc)
}

/// Key files that hold more than one certificate: a verifier loaded from such a file stands for ONE key (the first
/// certificate, as `Signer::load_from_asc_bytes` of the matching secret file does); signatures of the other certificates
/// in the file are another key's signatures.
fn key_files(ctx: &Ctx, env: &Env) -> SubReport {
    use pgp::composed::Deserializable;
    use pgp::types::PublicKeyTrait;
    let mut acc = Acc::new();
    let pkg = crate::corpus::one_file().build(env).unwrap_or_else(|e| crate::ctx::machinery(&format!("c10 key files: {}", e)));
    let mut rank = 0u64;
    for key in ALL_KEYS {
        let path = ctx.repo.join("tests/assets/signing_keys").join(key.files().0);
        let raw = std::fs::read_to_string(&path).unwrap_or_else(|e| crate::ctx::machinery(&format!("{}: {}", path.display(), e)));
        let certs: Vec<pgp::SignedSecretKey> = match pgp::SignedSecretKey::from_armor_many(std::io::Cursor::new(raw.as_bytes())) {
            Ok((it, _)) => it.filter_map(|k| k.ok()).collect(),
            Err(e) => crate::ctx::machinery(&format!("{}: {}", path.display(), e)),
        };
        let verifier_id = key.key_id(&ctx.repo);
        acc.count(&format!("{} certificate(s) in a key file", certs.len()));
        for (idx, ssk) in certs.into_iter().enumerate() {
            rank += 1;
            acc.evals += 1;
            let id = hex::encode(ssk.key_id().as_ref());
            let case = || json!({"secret_key_file": key.files().0, "certificate_index": idx, "signing_key_id": id, "verifier": format!("loaded from {} (key id {})", key.files().1, verifier_id)});
            let signer = match rpm::signature::pgp::Signer::new(ssk) {
                Ok(s) => if key == Key::Rsa3072Protected { s.with_key_passphrase("thisisN0Tasecuredpassphrase") } else { s },
                Err(e) => {
                    acc.count(&format!("certificate not usable as a signer: {}", e).chars().take(70).collect::<String>());
                    continue;
                }
            };
            let mut p = pkg.clone();
            match catch(|| p.sign_with_timestamp(&signer, 1_600_000_000u32)) {
                Err(pn) => {
                    acc.viol(panic_violation("key-files", &pn, case()).rank(rank));
                    continue;
                }
                Ok(Err(e)) => {
                    acc.count(&format!("signing fails: {}", e).chars().take(70).collect::<String>());
                    continue;
                }
                Ok(Ok(())) => {}
            }
            let b = bytes_of(&p);
            let Ok(q) = rpm::Package::parse(&mut &b[..]) else { continue };
            acc.nontrivial += 1;
            let ok = catch(|| q.verify_signature(key.verifier(&ctx.repo))).map(|r| r.is_ok()).unwrap_or(false);
            let want = id == verifier_id;
            acc.count(if want { "signed by the verifier's own key" } else { "signed by another certificate of the same file" });
            if ok != want {
                acc.viol(
                    Violation::new("key-files", format!("signed by certificate {} (key id {}) of {}; the verifier stands for key id {}; verify_signature = {}", idx, id, key.files().0, verifier_id, ok), case())
                        .sig("clause", if ok { "other-key-verifies" } else { "last-signer-does-not-verify" })
                        .rank(rank),
                );
            }
            // and no other standard key verifies it
            for other in ALL_KEYS.iter().filter(|o| **o != key) {
                if catch(|| q.verify_signature(other.verifier(&ctx.repo))).map(|r| r.is_ok()).unwrap_or(false) {
                    acc.viol(Violation::new("key-files", format!("signed by key id {}, verifies with the {} key", id, other.name()), case()).sig("clause", "other-key-verifies").rank(rank));
                }
            }
        }
    }
    SubReport::new("key-files", "A", "every certificate of every secret key file of the five standard keys (one of the files holds two) as a signer of a built package: the package verifies with the verifier loaded from the matching public file exactly when the signing key is the one that verifier stands for (its first certificate), and with no other standard key", acc)
}

/// Many signatures per key: the encoding of a signature varies from one to the next (an MPI drops its leading zero bytes,
/// so one signature in 128 is a byte shorter and its base64 text ends differently); every one of them must behave alike.
fn signature_population(ctx: &Ctx, env: &Env) -> SubReport {
    let pkg = crate::corpus::one_file().build(env).unwrap_or_else(|e| crate::ctx::machinery(&format!("c10 population: {}", e)));
    let plan: Vec<(Key, u32)> = vec![(Key::Ed25519, if ctx.thorough() { 8192 } else { 1536 }), (Key::EcdsaP256, if ctx.thorough() { 8192 } else { 1536 }), (Key::Rsa4096, if ctx.thorough() { 512 } else { 24 })];
    let mut cases: Vec<(Key, u32)> = vec![];
    for (k, n) in &plan {
        for j in 0..*n {
            cases.push((*k, 1_700_000_000 + j));
        }
    }
    let ids: Vec<(Key, String)> = ALL_KEYS.iter().map(|k| (*k, k.key_id(&ctx.repo))).collect();
    let acc = Acc::merge_all(vlib::par::par_fold(cases.len() as u64, Acc::new, |i, acc| {
        let (key, t) = cases[i as usize];
        acc.evals += 1;
        let case = || json!({"key": key.name(), "signed_at": t});
        let mut p = pkg.clone();
        match catch(|| p.sign_with_timestamp(env.signer(key), t)) {
            Err(pn) => return acc.viol(panic_violation("signature-population", &pn, case()).rank(i)),
            Ok(Err(e)) => return acc.viol(Violation::new("signature-population", format!("signing fails: {}", e), case()).sig("clause", "operation-fails").rank(i)),
            Ok(Ok(())) => {}
        }
        let b = bytes_of(&p);
        let q = match rpm::Package::parse(&mut &b[..]) {
            Ok(q) => q,
            Err(e) => return acc.viol(Violation::new("signature-population", format!("write + parse fails: {}", e), case()).sig("clause", "operation-fails").rank(i)),
        };
        acc.nontrivial += 1;
        // length of the signature packet (from the legacy binary tag), to show that the shorter encodings occurred
        if let Some((_, sig, _, _)) = vlib::refhdr::scan(&b) {
            for tag in [268u32, 267] {
                if let Some(e) = sig.entries.iter().skip(1).find(|e| e.tag == tag) {
                    acc.count(&format!("{} signature packet of {} bytes (≡ {} mod 3)", key.name(), e.count, e.count % 3));
                }
            }
        }
        let own = catch(|| q.verify_signature(key.verifier(&ctx.repo))).map(|r| r.is_ok()).unwrap_or(false);
        if !own {
            acc.viol(Violation::new("signature-population", format!("the package signed at second {} does not verify with the {} key that signed it", t, key.name()), case()).sig("clause", "last-signer-does-not-verify").rank(i));
        }
        let other = if key == Key::Ed25519 { Key::EcdsaP256 } else { Key::Ed25519 };
        if catch(|| q.verify_signature(other.verifier(&ctx.repo))).map(|r| r.is_ok()).unwrap_or(false) {
            acc.viol(Violation::new("signature-population", format!("the package verifies with the {} key", other.name()), case()).sig("clause", "other-key-verifies").rank(i));
        }
        let want = ids.iter().find(|(k, _)| *k == key).map(|(_, id)| vec![id.clone()]);
        let got = catch(|| q.signature_key_ids()).ok().and_then(|r| r.ok());
        if got != want {
            acc.viol(Violation::new("signature-population", format!("signed by {:?}, signature_key_ids() = {:?}", want, got), case()).sig("clause", "reported-signer").rank(i));
        }
    }));
    SubReport::new("signature-population", "A", &format!("a built package signed at {} consecutive seconds with the Ed25519 key, as many with the ECDSA key and {} with the RSA-4096 key (the outcome counts list the signature packet lengths that occurred: about one signature in 128 has a shorter integer): each verifies with its key after write + parse, not with another key, and reports exactly that key's id", plan[0].1, plan[2].1), acc)
}

/// Every payload layout the builder can produce, through the same history.
fn layouts(ctx: &Ctx, env: &Env) -> SubReport {
    let mut specs: Vec<BuildSpec> = vec![];
    for base in [BuildSpec::minimal(), crate::corpus::one_file(), crate::corpus::rich()] {
        for comp in [Comp::None, Comp::Gzip(1), Comp::Zstd(1), Comp::Xz(0), Comp::Default] {
            for large in [false, true] {
                let mut s = base.clone();
                s.compression = comp.clone();
                s.large_files = large;
                specs.push(s);
            }
        }
    }
    let accs = vlib::par::par_fold(specs.len() as u64, Acc::new, |i, acc| {
        let spec = &specs[i as usize];
        let case = |step: &str| json!({"package": spec.to_json(), "history_up_to": step});
        match catch(|| spec.build(env)) {
            Ok(Ok(p)) => {
                linear_history("layouts", ctx, env, &p, i * 10, &case, acc);
                acc.count(&format!("{:?} {}", spec.compression.name().unwrap_or("none"), if spec.large_files { "large-file layout" } else { "ordinary layout" }));
            }
            _ => crate::ctx::machinery("c10 layouts: a start package does not build"),
        }
    });
    SubReport::new("layouts", "A", "30 start packages = {no files, one file, the rich configuration} × {uncompressed, gzip, zstd, xz, default} × {ordinary, forced large-file layout}: after each step of sign(ed25519), write + parse, sign(ecdsa-p256), write + parse, clear, write + parse: verifies with exactly the last signer's key, digests verify, main header and payload byte-identical to the start", Acc::merge_all(accs))
}

fn generated_keys(ctx: &Ctx) -> SubReport {
    use pgp::composed::{KeyType, SecretKeyParamsBuilder};
    use pgp::types::PublicKeyTrait;
    use rand::SeedableRng;
    let env = Env::new(&ctx.repo, "c10k");
    let pkg = crate::corpus::one_file().build(&env).unwrap_or_else(|e| crate::ctx::machinery(&format!("c10 keys: {}", e)));
    let n_seeds: u64 = if ctx.thorough() { 256 } else { 48 };
    // generate in parallel; keep every key whose id has a leading zero digit or zero bytes inside, and the first eight others
    let made: Vec<Option<(u64, String, rpm::signature::pgp::Signer, rpm::signature::pgp::Verifier)>> = vlib::par::par_fold(n_seeds, Vec::new, |seed, out: &mut Vec<_>| {
        let mut rng = rand::rngs::StdRng::seed_from_u64(0x5eed_0000 + seed);
        let params = SecretKeyParamsBuilder::default()
            .key_type(KeyType::EdDSALegacy)
            .can_sign(true)
            .can_certify(true)
            .primary_user_id(format!("generated key {} <k{}@example.org>", seed, seed))
            .created_at(chrono::TimeZone::timestamp_opt(&chrono::Utc, 1_500_000_000, 0).unwrap())
            .build();
        let r = (|| -> Result<_, String> {
            let sk = params.map_err(|e| e.to_string())?.generate(&mut rng).map_err(|e| e.to_string())?;
            let mut ssk = sk.sign(&mut rng, String::new).map_err(|e| e.to_string())?;
            // every other key carries a validity period, as `gpg --quick-generate-key … 5y` writes it: a Key Expiration Time
            // subpacket (seconds after the key's creation) in the self-signature of the user id; the test signature below is
            // made 100 000 000 s (about 3.2 years) after the creation, within the period
            if seed % 2 == 1 {
                use pgp::packet::{PacketTrait, SignatureConfig, SignatureType, Subpacket, SubpacketData};
                use pgp::types::SecretKeyTrait;
                let id0 = ssk.details.users[0].id.clone();
                let mut cfg = SignatureConfig::v4(SignatureType::CertPositive, ssk.algorithm(), pgp::crypto::hash::HashAlgorithm::SHA2_256);
                cfg.hashed_subpackets = ssk.details.users[0].signatures[0].config.hashed_subpackets.clone();
                cfg.hashed_subpackets.push(Subpacket::regular(SubpacketData::KeyExpirationTime(chrono::Duration::seconds(5 * 365 * 86_400))));
                cfg.unhashed_subpackets = vec![Subpacket::regular(SubpacketData::Issuer(ssk.key_id()))];
                let sig = cfg.sign_certification(&ssk, String::new, id0.tag(), &id0).map_err(|e| e.to_string())?;
                ssk.details.users[0].signatures = vec![sig];
                if pgp::SignedPublicKey::from(ssk.clone()).details.key_expiration_time().is_none() {
                    return Err("the generated key carries no expiration".into());
                }
            }
            let id = hex::encode(ssk.key_id().as_ref());
            let spk: pgp::SignedPublicKey = ssk.clone().into();
            let asc = spk.to_armored_string(None.into()).map_err(|e| e.to_string())?;
            let verifier = rpm::signature::pgp::Verifier::load_from_asc_bytes(asc.as_bytes()).map_err(|e| e.to_string())?;
            let signer = rpm::signature::pgp::Signer::new(ssk).map_err(|e| e.to_string())?;
            Ok((seed, id, signer, verifier))
        })();
        match r {
            Ok(x) => out.push(Some(x)),
            Err(e) => crate::ctx::machinery(&format!("c10 keys: key generation failed: {}", e)),
        }
    })
    .into_iter()
    .flatten()
    .collect();
    let mut keys: Vec<_> = made.into_iter().flatten().collect();
    keys.sort_by_key(|k| k.0);
    let interesting = |id: &str| id.starts_with('0') || id.contains("00");
    let mut chosen = vec![];
    let mut plain = 0;
    for k in keys {
        if interesting(&k.1) {
            chosen.push(k);
        } else if plain < 8 {
            plain += 1;
            chosen.push(k);
        }
    }
    let mut acc = Acc::new();
    for (i, (seed, id, signer, verifier)) in chosen.iter().enumerate() {
        acc.evals += 1;
        let case = || json!({"generated_key_seed": seed, "key_id": id});
        let mut p = pkg.clone();
        let r = catch(|| {
            p.sign_with_timestamp(signer, 1_600_000_000u32)?;
            let b = bytes_of(&p);
            let q = rpm::Package::parse(&mut &b[..])?;
            Ok::<_, rpm::Error>((q.signature_key_ids(), q.verify_signature(verifier).is_ok(), chosen.iter().enumerate().filter(|(j, _)| *j != i).take(3).map(|(_, o)| q.verify_signature(&o.3).is_ok()).collect::<Vec<_>>()))
        });
        match r {
            Err(pn) => acc.viol(panic_violation("generated-keys", &pn, case()).rank(i as u64)),
            Ok(Err(e)) => acc.viol(Violation::new("generated-keys", format!("signing with a freshly generated Ed25519 key fails: {}", e), case()).sig("clause", "operation-fails").rank(i as u64)),
            Ok(Ok((ids, own, others))) => {
                acc.nontrivial += 1;
                acc.count(if seed % 2 == 1 { "key with a validity period of five years, signature made within it" } else { "key without expiration" });
                acc.count(if id.starts_with('0') { "key id with a leading zero digit" } else if id.contains("00") { "key id with a zero byte inside" } else { "other key id" });
                if ids.as_ref().ok() != Some(&vec![id.clone()]) {
                    acc.viol(Violation::new("generated-keys", format!("signed by the key with id {}, signature_key_ids() = {:?}", id, ids.map_err(|e| e.to_string())), case()).sig("clause", "reported-signer").rank(i as u64));
                }
                if !own {
                    acc.viol(Violation::new("generated-keys", format!("the package does not verify with the key ({}) that signed it", id), case()).sig("clause", "last-signer-does-not-verify").rank(i as u64));
                }
                if others.iter().any(|x| *x) {
                    acc.viol(Violation::new("generated-keys", "the package verifies with another generated key", case()).sig("clause", "other-key-verifies").rank(i as u64));
                }
                acc.sample(i as u64, case);
            }
        }
    }
    SubReport::new("generated-keys", "A", &format!("{} Ed25519 keys generated from fixed seeds; every one whose 64-bit key id starts with a zero digit or contains a zero byte, and eight others ({} keys; every other seed's key carries a five-year validity period in its self-signature, the signature is made within it): sign a built package, write, parse: signature_key_ids() is exactly the 16-digit id, the key verifies the package, three other generated keys do not", n_seeds, chosen.len()), acc)
}

pub fn replay(ctx: &Ctx, v: &Value) -> i32 {
    let c = &v["case"];
    let Some(hist) = c["history"].as_array() else {
        println!("no history in case");
        return 0;
    };
    let env = Env::new(&ctx.repo, "c10-replay");
    let start = hist[0].as_str().unwrap_or("");
    let name = start.trim_start_matches("start(").trim_end_matches(')');
    let mut pkg = match name {
        "built-empty" => BuildSpec::minimal().build(&env).unwrap(),
        "built-one-file" => crate::corpus::one_file().build(&env).unwrap(),
        "built-rich-gzip" => {
            let mut g = crate::corpus::rich();
            g.compression = Comp::Gzip(6);
            g.build(&env).unwrap()
        }
        other => match ASSETS.iter().find(|a| a.ends_with(other)) {
            Some(a) => rpm::Package::open(ctx.asset(a)).unwrap(),
            None => crate::ctx::machinery("unknown start package"),
        },
    };
    for op in &hist[1..] {
        let op = op.as_str().unwrap_or("");
        if op == "clear" {
            pkg.clear_signatures().unwrap();
        } else if op == "write+parse" {
            pkg = rpm::Package::parse(&mut &bytes_of(&pkg)[..]).unwrap();
        } else if let Some(rest) = op.strip_prefix("sign(") {
            let mut it = rest.trim_end_matches(')').split(", ");
            let k = ALL_KEYS.iter().find(|k| Some(k.name()) == it.next()).copied().unwrap();
            let t: u32 = it.next().unwrap().parse().unwrap();
            pkg.sign_with_timestamp(env.signer(k), t).unwrap();
        }
        println!("applied {}", op);
    }
    for k in ALL_KEYS {
        println!("verify with {:<18} = {:?}", k.name(), pkg.verify_signature(k.verifier(&ctx.repo)).map_err(|e| e.to_string()));
    }
    println!("signature_key_ids = {:?}", pkg.signature_key_ids().map_err(|e| e.to_string()));
    println!("verify_digests = {:?}", pkg.verify_digests().map_err(|e| e.to_string()));
    println!("(compare with the violation text in the replay file)");
    1
}
