//! C16 — reported segment offsets are the real byte boundaries (engine A).
use crate::common::*;
use crate::ctx::Ctx;
use crate::oracles::*;
use serde_json::{json, Value};
use crate::sweep::{run_sweep, Sweep};
use vlib::par::{decode, product};
use vlib::refhdr::{assemble, RawEntry, RawHeader, RawLead};
use vlib::report::{Acc, SubReport};

fn hdr(n_entries: usize, store_len: usize, tag0: u32) -> RawHeader {
    // n Bin entries sharing the store (overlap is legal for the lenient parser)
    let store: Vec<u8> = (0..store_len).map(|k| 0x41 + (k % 26) as u8).collect();
    let entries = (0..n_entries)
        .map(|k| RawEntry { tag: tag0 + k as u32, ty: 7, offset: 0, count: store_len as u32 })
        .collect();
    RawHeader::new(entries, store)
}

pub fn sweeps(ctx: &Ctx) -> Vec<Sweep> {
    let payloads: [&'static [u8]; 3] = [b"", b"\x01", b"123456789"];
    let max_main_store = if ctx.thorough() { 24u64 } else { 9 };
    let max_entries = if ctx.thorough() { 6u64 } else { 4 };
    let rad = [max_entries, 17, max_entries, max_main_store, 3];
    let n = product(&rad);
    let lead = RawLead::new("n");
    let rule = format!("signature entries 0..{} × signature store length 0..=16 (every residue mod 8) × main entries 0..{} × main store length 0..{} × payload length {{0,1,9}}; oracle: offsets equal the harness's layout and an independent scan of the written bytes (intro magic at both header offsets, len − payload = |content|, strictly increasing); non-trivial = accepted", max_entries - 1, max_entries - 1, max_main_store - 1);
    vec![Sweep::new("hand-encoded", rule, n, move |i, acc| {
        let d = decode(i, &rad);
        acc.evals += 1;
        let sig = hdr(d[0] as usize, d[1] as usize, 1000);
        let main = hdr(d[2] as usize, d[3] as usize, 1000);
        let (x, l) = assemble(&lead, &sig, 0, &main, payloads[d[4] as usize]);
        let case = || json!({"bytes_hex": vlib::hex(&x), "sig_entries": d[0], "sig_store": d[1], "main_entries": d[2], "main_store": d[3], "payload_len": payloads[d[4] as usize].len()});
        match parse_pkg(&x) {
            Ok(Ok(p)) => {
                acc.nontrivial += 1;
                acc.count(&format!("sig padding {}", l.pad_len));
                oracle_offsets("hand-encoded", &p, i, &case, acc);
                // and against the harness's own layout knowledge
                let o = p.metadata.get_package_segment_offsets();
                if (o.signature_header as usize, o.header as usize, o.payload as usize) != (l.sig_off, l.hdr_off, l.payload_off) {
                    acc.viol(vlib::report::Violation::new("hand-encoded", format!("offsets {:?} but the package was laid out as {:?}", o, l), case()).sig("clause", "layout").rank(i));
                }
                acc.sample(i.wrapping_mul(0x9e3779b97f4a7c15), || json!({"sig_entries": d[0], "sig_store": d[1], "main_entries": d[2], "main_store": d[3], "payload_len": payloads[d[4] as usize].len(), "offsets": format!("{:?}", o)}));
            }
            Ok(Err(k)) => acc.count(&format!("rejected: {}", k)),
            Err(_) => acc.count("parse: panic (C04's business)"),
        }
    }), crate::c01::run_dribble(), crate::c01::run_unknown_types(), {
        // every data type (0..9) in every position of a two-entry index, for both headers
        let st = crate::c01::stores();
        let few: Vec<Vec<u8>> = [0usize, 5, 40, 100].iter().map(|i| st[*i].clone()).collect();
        crate::c01::run_headers("types-hdr", false, 2, &[1000, 1001], &[0, -1], &[0, 1, 2], &few, &[b"pay"])
    }, {
        let st = crate::c01::stores();
        let few: Vec<Vec<u8>> = [0usize, 5, 40, 100].iter().map(|i| st[*i].clone()).collect();
        crate::c01::run_headers("types-sig", true, 2, &[1000, 1001], &[0, -1], &[0, 1, 2], &few, &[b"pay"])
    }, crate::c01::run_empty_and_truncated(), crate::c01::run_lead(), crate::c01::run_section_edges(), crate::c01::run_entry_geometry(), crate::c01::run_entry_counts()]
}

pub fn run(ctx: &Ctx) -> i32 {
    let sw = sweeps(ctx);
    let (s1, _ev) = run_sweep(ctx, &sw[0]);
    let (s_dr, _ev) = run_sweep(ctx, &sw[1]);
    let (s_ut, _ev) = run_sweep(ctx, &sw[2]);
    let (s_th, _ev) = run_sweep(ctx, &sw[3]);
    let (s_ts, _ev) = run_sweep(ctx, &sw[4]);
    let (s_et, _ev) = run_sweep(ctx, &sw[5]);
    let (s_ld, _ev) = run_sweep(ctx, &sw[6]);
    let (s_se, _ev) = run_sweep(ctx, &sw[7]);
    let (s_eg, _ev) = run_sweep(ctx, &sw[8]);
    let (s_ec, _ev) = run_sweep(ctx, &sw[9]);
    // the public header API: Header::clear() / Header::new_empty() on the signature header
    let mut h = Acc::new();
    {
        let env = crate::spec::Env::new(&ctx.repo, "c16");
        let mut pkgs: Vec<(String, rpm::Package)> = vec![];
        for rel in crate::common_assets::ASSETS {
            pkgs.push((rel.to_string(), rpm::Package::open(ctx.asset(rel)).unwrap_or_else(|e| crate::ctx::machinery(&format!("{}: {}", rel, e)))));
        }
        for (n, mut sp) in [("built-one-file", crate::corpus::one_file()), ("built-rich", crate::corpus::rich())] {
            for k in [None, Some(crate::keys::Key::Ed25519), Some(crate::keys::Key::Rsa2048)] {
                sp.sign = k;
                pkgs.push((format!("{} signed {:?}", n, k), sp.build(&env).unwrap_or_else(|e| crate::ctx::machinery(&format!("build: {}", e)))));
            }
        }
        for (k, (name, p)) in pkgs.iter().enumerate() {
            let next = &pkgs[(k + 1) % pkgs.len()].1;
            for op in ["signature.clear()", "signature = Header::new_empty()", "clear_signatures()", "signature.clear() then clear_signatures()", "signature.clone_from(the next package's)", "header.clone_from(the next package's)", "metadata.clone_from(the next package's)", "signature = the next package's, cloned"] {
                h.evals += 1;
                let mut q = p.clone();
                match op {
                    "signature.clear()" => q.metadata.signature.clear(),
                    "signature = Header::new_empty()" => q.metadata.signature = rpm::Header::<rpm::IndexSignatureTag>::new_empty(),
                    "clear_signatures()" => {
                        let _ = q.clear_signatures();
                    }
                    "signature.clone_from(the next package's)" => q.metadata.signature.clone_from(&next.metadata.signature),
                    "header.clone_from(the next package's)" => q.metadata.header.clone_from(&next.metadata.header),
                    "metadata.clone_from(the next package's)" => q.metadata.clone_from(&next.metadata),
                    "signature = the next package's, cloned" => q.metadata.signature = next.metadata.signature.clone(),
                    _ => {
                        q.metadata.signature.clear();
                        let _ = q.clear_signatures();
                    }
                }
                let case = || json!({"package": name, "operation": op});
                oracle_offsets("header-api", &q, k as u64, &case, &mut h);
                h.nontrivial += 1;
                if k < 2 {
                    h.sample((k * 10) as u64 + op.len() as u64, case);
                }
            }
        }
    }
    let s_api = SubReport::new("header-api", "A", "assets and built packages (unsigned / Ed25519 / RSA-2048) after Header::clear() on the signature header, Header::new_empty(), clear_signatures(), their combination, and after the signature header / main header / metadata was overwritten in place with another package's (clone_from, assignment of a clone): offsets vs the written bytes", h);
    // packages as the builder hands them over (never re-parsed): the reachable residues mod 8 of the main header's data section,
    // in the ordinary and in the large-file layout, unsigned and signed
    let mut bd = Acc::new();
    {
        let env = crate::spec::Env::new(&ctx.repo, "c16b");
        let mut rank = 0u64;
        for len in 1..=16usize {
            for large in [false, true] {
                for comp in [crate::spec::Comp::None, crate::spec::Comp::Gzip(1)] {
                    for key in [None, Some(crate::keys::Key::Ed25519)] {
                        rank += 1;
                        bd.evals += 1;
                        let mut sp = crate::corpus::one_file();
                        sp.name = "n".repeat(1 + len / 9);
                        sp.license = "L".repeat(len);
                        sp.large_files = large;
                        sp.compression = comp.clone();
                        sp.sign = key;
                        let case = || json!({"built": sp.to_json()});
                        match vlib::report::catch(|| sp.build(&env)) {
                            Err(pn) => bd.viol(panic_violation("built-direct", &pn, case()).rank(rank)),
                            Ok(Err(e)) => crate::ctx::machinery(&format!("c16 built-direct: {}", e)),
                            Ok(Ok(p)) => {
                                bd.nontrivial += 1;
                                oracle_offsets("built-direct", &p, rank, &case, &mut bd);
                                oracle_payload_start("built-direct", &p, rank, &case, &mut bd);
                                let o = p.metadata.get_package_segment_offsets();
                                bd.count(&format!("main header size ≡ {} (mod 8)", (o.payload - o.header) % 8));
                            }
                        }
                    }
                }
            }
        }
    }
    let s_bd = SubReport::new("built-direct", "A", "128 packages straight from the builder (not re-parsed): licence texts of 1..=16 characters and two name lengths (the builder's data section always ends a fixed 85 bytes after a 4-aligned entry, so its size is ≡ 1 or 5 mod 8; both occur, see the outcome counts) × {ordinary, forced large-file layout with 64-bit size entries} × {uncompressed, gzip} × {unsigned, signed}: reported offsets vs the written bytes, payload length vs the in-memory payload, and the archive's magic number at the reported payload offset", bd);
    let s2 = crate::c01::run_assets(ctx, "assets");
    let s3 = crate::corpus::run_shared(ctx, "corpus", &["C16"]);
    for s in [&s1, &s3] {
        if s.acc.nontrivial == 0 {
            crate::ctx::machinery(&format!("sub-check {} judged nothing: vacuous", s.name));
        }
    }
    ctx.finish(
        "exploration",
        vec![s1, s_dr, s_ut, s_th, s_ts, s_et, s_ld, s_se, s_eg, s_ec, s_api, s_bd, s2, s3],
        &["offset arithmetic is exercised for every signature-store residue mod 8; header sizes beyond the enumerated ones are covered by the assets and the corpus only"],
        vec![],
    )
}

pub fn replay(_ctx: &Ctx, v: &Value) -> i32 {
    replay_bytes(v, &|x, acc| {
        if let Ok(Ok(p)) = parse_pkg(x) {
            oracle_offsets("replay", &p, 0, &|| json!({}), acc);
        }
    })
}
