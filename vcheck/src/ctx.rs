use serde_json::{json, Value};
use std::path::PathBuf;
use vlib::report::{load_known, write_replay, Evidence, Known, SubReport, Violation};

#[derive(Clone, Copy, PartialEq, Eq, Debug)]
pub enum Tier {
    Quick,
    Thorough,
}

impl Tier {
    pub fn parse(s: &str) -> Option<Tier> {
        match s {
            "quick" => Some(Tier::Quick),
            "thorough" => Some(Tier::Thorough),
            _ => None,
        }
    }
    pub fn name(&self) -> &'static str {
        match self {
            Tier::Quick => "quick",
            Tier::Thorough => "thorough",
        }
    }
}

pub struct Ctx {
    pub property: String,
    pub tier: Tier,
    pub seed: u64,
    pub root: PathBuf,
    pub repo: PathBuf,
    pub known: Vec<Known>,
    pub start: std::time::Instant,
}

impl Ctx {
    pub fn new(property: &str, tier: Tier) -> Ctx {
        let root = std::env::var("VERIF_ROOT").map(PathBuf::from).unwrap_or_else(|_| PathBuf::from("/verif"));
        let repo = std::env::var("VERIF_REPO").map(PathBuf::from).unwrap_or_else(|_| PathBuf::from("/repo"));
        let seed = std::env::var("VERIF_SEED").ok().and_then(|s| s.parse().ok()).unwrap_or(0);
        let known = load_known(&root.join("known_findings.json"));
        Ctx {
            property: property.to_uppercase(),
            tier,
            seed,
            root,
            repo,
            known,
            start: std::time::Instant::now(),
        }
    }
    pub fn quick(&self) -> bool {
        self.tier == Tier::Quick
    }
    pub fn thorough(&self) -> bool {
        self.tier == Tier::Thorough
    }
    pub fn asset(&self, rel: &str) -> PathBuf {
        self.repo.join(rel)
    }
    pub fn exe(&self) -> PathBuf {
        std::env::current_exe().expect("current_exe")
    }

    /// Write evidence, print verdict lines, return the exit code.
    pub fn finish(&self, level: &str, subs: Vec<SubReport>, assumptions: &[&str], extra: Vec<(&str, Value)>) -> i32 {
        let mut ev = Evidence::new(&self.property, self.tier.name(), self.seed, level);
        ev.start = self.start;
        let mut evals = 0u64;
        let mut nontrivial = 0u64;
        let mut exhaustive = true;
        let mut rules = vec![];
        let mut samples: Vec<Value> = vec![];
        let mut subj = serde_json::Map::new();
        let mut viols: Vec<Violation> = vec![];
        for s in &subs {
            evals += s.acc.evals;
            nontrivial += s.acc.nontrivial;
            exhaustive &= s.exhaustive;
            rules.push(format!("[{}] {}", s.name, s.rule));
            for (_, v) in s.acc.samples.iter().take(3) {
                samples.push(json!({"subcheck": s.name, "case": v}));
            }
            subj.insert(s.name.clone(), s.to_json());
            for v in s.acc.viols.values() {
                viols.push(v.clone());
            }
        }
        // VERIF_SEED only rotates which samples are shown first
        if !samples.is_empty() {
            let r = (self.seed as usize) % samples.len();
            samples.rotate_left(r);
            samples.truncate(12);
        }
        ev.set("evaluations", json!(evals));
        ev.set("distinct_nontrivial", json!(nontrivial));
        ev.set("rule", json!(rules.join(" || ")));
        ev.set("samples", json!(samples));
        ev.set("exhaustive", json!(exhaustive));
        ev.set("subchecks", Value::Object(subj));
        for (k, v) in extra {
            ev.set(k, v);
        }
        for a in assumptions {
            ev.assume(a);
        }

        let mut unlisted = 0u64;
        let mut known_hits = 0u64;
        let mut n = 0usize;
        let mut vsum = vec![];
        for v in &viols {
            if let Some(k) = self.known.iter().find(|k| k.matches(&self.property, v)) {
                known_hits += 1;
                println!(
                    "KNOWN-FINDING: property={} {} [{}; {} occurrence(s)]",
                    self.property, k.what, v.key(), v.count
                );
                vsum.push(json!({"key": v.key(), "known": true, "count": v.count}));
            } else {
                unlisted += 1;
                if n < 25 {
                    let p = write_replay(&self.root.join("replays"), &self.property, n, self.tier.name(), v);
                    println!("VIOLATION property={} replay={}", self.property, p.display());
                    println!("  subcheck={} cause={} :: {}", v.subcheck, v.key(), v.what);
                    n += 1;
                }
                vsum.push(json!({"key": v.key(), "known": false, "count": v.count, "what": v.what}));
            }
        }
        ev.set("violation_classes", json!(vsum));
        ev.set("known_findings_matched", json!(known_hits));
        if let Err(e) = ev.write(&self.root.join("evidence"), unlisted) {
            eprintln!("MACHINERY: cannot write evidence: {}", e);
            return 2;
        }
        println!(
            "{} tier={} evaluations={} nontrivial={} exhaustive={} violations={} known={} wall={:.1}s",
            self.property,
            self.tier.name(),
            evals,
            nontrivial,
            exhaustive,
            unlisted,
            known_hits,
            self.start.elapsed().as_secs_f64()
        );
        for s in &subs {
            println!("  [{}] evals={} nontrivial={} outcomes={}", s.name, s.acc.evals, s.acc.nontrivial, s.acc.hist.len());
        }
        if unlisted > 0 {
            1
        } else {
            0
        }
    }
}

/// Scratch directory of this run (shared with its worker processes, removed by the top-level process).
pub fn run_dir() -> PathBuf {
    let tag = std::env::var("VCHECK_RUN_TAG").unwrap_or_else(|_| std::process::id().to_string());
    // a memory file system if there is one (the checks create and remove very many small files), else the temporary directory
    let shm = std::path::Path::new("/dev/shm");
    let base = if std::env::var("VCHECK_SCRATCH_ON_DISK").is_err() && shm.is_dir() && !shm.metadata().map(|m| m.permissions().readonly()).unwrap_or(true) { shm.to_path_buf() } else { std::env::temp_dir() };
    base.join(format!("vcheck-run-{}", tag))
}

/// Called by the top-level process before anything else; returns true if this process owns the run dir.
pub fn claim_run_dir() -> bool {
    if std::env::var("VCHECK_RUN_TAG").is_ok() {
        return false;
    }
    std::env::set_var("VCHECK_RUN_TAG", std::process::id().to_string());
    let _ = std::fs::remove_dir_all(run_dir());
    let _ = std::fs::create_dir_all(run_dir());
    true
}

pub fn release_run_dir() {
    let _ = std::env::set_current_dir("/");
    let _ = std::fs::remove_dir_all(run_dir());
    // scratch of the same name on the memory file system (C12 jails)
    if let Some(n) = run_dir().file_name() {
        let _ = std::fs::remove_dir_all(std::path::Path::new("/dev/shm").join(n));
    }
}

pub fn machinery(msg: &str) -> ! {
    eprintln!("MACHINERY: {}", msg);
    if std::env::var("VCHECK_RUN_OWNER").map(|p| p == std::process::id().to_string()).unwrap_or(false) {
        release_run_dir();
    }
    std::process::exit(2)
}
