//! Strict structural validator for emitted packages (C09), modelled on rpm's
//! rpmLeadCheck / hdrblobVerifyRegion / hdrblobVerifyInfo / hdrblobVerifyLengths
//! and its cpio reader. Every rule has an id; `validate` returns the ids violated.
#![allow(dead_code)]
use std::io::Read;
use vlib::refcpio::{read_archive, Ent};
use vlib::refhdr::{decode_opts, type_align, value, RawHeader, RawLead, Val, LEAD_MAGIC};

#[derive(Debug, Clone, PartialEq)]
pub struct Broken {
    pub rule: &'static str,
    pub detail: String,
}

fn b(rule: &'static str, detail: impl Into<String>) -> Broken {
    Broken { rule, detail: detail.into() }
}

pub fn decompress(compressor: Option<&str>, data: &[u8]) -> Result<Vec<u8>, String> {
    let mut out = vec![];
    match compressor {
        None | Some("none") => return Ok(data.to_vec()),
        Some("gzip") => {
            flate2::read::GzDecoder::new(data).read_to_end(&mut out).map_err(|e| e.to_string())?;
        }
        Some("zstd") => {
            zstd::stream::read::Decoder::new(data).map_err(|e| e.to_string())?.read_to_end(&mut out).map_err(|e| e.to_string())?;
        }
        Some("xz") => {
            liblzma::read::XzDecoder::new(data).read_to_end(&mut out).map_err(|e| e.to_string())?;
        }
        Some(other) => return Err(format!("unknown compressor {}", other)),
    }
    Ok(out)
}

/// table type of the tags the builder and signer can emit (rpm's tag table)
fn table_type(sig: bool, tag: u32) -> Option<u32> {
    const STRING: u32 = 6;
    const I18N: u32 = 9;
    const INT16: u32 = 3;
    const INT32: u32 = 4;
    const INT64: u32 = 5;
    const BIN: u32 = 7;
    const SA: u32 = 8;
    if sig {
        return match tag {
            62 | 267 | 268 | 1002 | 1004 | 1005 => Some(BIN),
            269 | 273 => Some(STRING),
            274 | 278 => Some(SA),
            1000 | 1007 | 275 => Some(INT32),
            270 | 271 => Some(INT64),
            _ => None,
        };
    }
    Some(match tag {
        63 => BIN,
        100 => SA,
        1000 | 1001 | 1002 | 1007 | 1010 | 1011 | 1014 | 1015 | 1020 | 1021 | 1022 | 1023 | 1024 | 1025 | 1026 | 1044 | 1064 | 1079 | 1094 | 1122 | 1124 | 1125 | 1126 | 1132 | 5034 | 5062 | 1151 | 1152 | 5103 | 5104 => STRING,
        1004 | 1005 | 1016 => I18N,
        1003 | 1006 | 1009 | 1028 | 1034 | 1037 | 1045 | 1048 | 1053 | 1080 | 1095 | 1096 | 1112 | 1114 | 1116 | 5011 | 5020..=5027 | 5093 | 5107 | 5108 | 5048 | 5051 | 5054 | 5057 => INT32,
        1030 | 1033 => INT16,
        5008 | 5009 => INT64,
        1035 | 1036 | 1039 | 1040 | 1047 | 1049 | 1050 | 1054 | 1055 | 1081 | 1082 | 1085..=1088 | 1090 | 1091 | 1097 | 1113 | 1115 | 1117 | 1118 | 1153 | 1154 | 5010 | 5046 | 5047 | 5049 | 5050 | 5052 | 5053 | 5055 | 5056 | 5092 | 5097 | 5105 | 5106 => SA,
        _ => return None,
    })
}

pub struct Checked {
    pub hdr: RawHeader,
    pub len: usize,
}

/// Rules for one header. `strict_region`: the region must cover exactly all entries.
pub fn check_header(bytes: &[u8], sig: bool, strict_region: bool, out: &mut Vec<Broken>) -> Option<Checked> {
    let pfx = if sig { "signature header" } else { "main header" };
    if bytes.len() < 16 {
        out.push(b("HDR-1", format!("{}: truncated intro", pfx)));
        return None;
    }
    if bytes[0..4] != [0x8e, 0xad, 0xe8, 0x01] {
        out.push(b("HDR-1", format!("{}: intro magic/version {:02x?}", pfx, &bytes[0..4])));
        return None;
    }
    let Ok((h, len)) = decode_opts(bytes, false) else {
        out.push(b("HDR-2", format!("{}: declared sizes exceed the data", pfx)));
        return None;
    };
    let il = h.nindex as usize;
    let dl = h.hsize as usize;
    if il < 1 || il > 0xffff || dl > 0x0fff_ffff {
        out.push(b("HDR-2", format!("{}: il={} dl={}", pfx, il, dl)));
        return Some(Checked { hdr: h, len });
    }
    let region = if sig { 62 } else { 63 };
    let e0 = &h.entries[0];
    let mut trailer_at: Option<usize> = None;
    if e0.tag != region || e0.ty != 7 || e0.count != 16 {
        out.push(b("REG-1", format!("{}: first entry is {:?}", pfx, e0)));
    } else if e0.offset < 0 || e0.offset as usize + 16 > dl {
        out.push(b("REG-2", format!("{}: region trailer offset {} outside the store", pfx, e0.offset)));
    } else {
        let t = &h.store[e0.offset as usize..e0.offset as usize + 16];
        let w = |i: usize| u32::from_be_bytes(t[i..i + 4].try_into().unwrap());
        let toff = w(8) as i32;
        let ril = (-(toff as i64)) / 16;
        let ok_shape = w(0) == region && w(4) == 7 && w(12) == 16 && toff < 0 && (-(toff as i64)) % 16 == 0;
        if !ok_shape || ril < 1 || ril as usize > il || (strict_region && ril as usize != il) {
            out.push(b("REG-2", format!("{}: trailer (tag {}, type {}, offset {}, count {}) does not point back over {} entries", pfx, w(0), w(4), toff, w(12), il)));
        }
        trailer_at = Some(e0.offset as usize);
    }
    let mut prev_tag: Option<u32> = None;
    let mut prev_end = 0usize;
    for (i, e) in h.entries.iter().enumerate().skip(1) {
        let at = format!("{} entry {} (tag {})", pfx, i, e.tag);
        if let Some(p) = prev_tag {
            if e.tag <= p {
                out.push(b("ENT-1", format!("{}: tag not above the previous tag {}", at, p)));
            }
        }
        prev_tag = Some(e.tag);
        if e.ty < 1 || e.ty > 9 {
            out.push(b("ENT-2", format!("{}: type {}", at, e.ty)));
            continue;
        }
        if e.offset < 0 || e.offset as usize > dl || (e.offset as usize) % type_align(e.ty) != 0 {
            out.push(b("ENT-3", format!("{}: offset {} (type {}, store {})", at, e.offset, e.ty, dl)));
            continue;
        }
        if e.count == 0 {
            out.push(b("ENT-4", format!("{}: count 0", at)));
            continue;
        }
        let v = match value(e, &h.store) {
            Ok(v) => v,
            Err(vlib::refhdr::Why::Unterminated) => {
                out.push(b("ENT-7", format!("{}: string not terminated inside the store", at)));
                continue;
            }
            Err(w) => {
                out.push(b("ENT-4", format!("{}: data does not fit the store ({:?})", at, w)));
                continue;
            }
        };
        let len = v.bytes().len();
        if len == 0 {
            out.push(b("ENT-4", format!("{}: zero-length data", at)));
        }
        let start = e.offset as usize;
        if start < prev_end {
            out.push(b("ENT-5", format!("{}: data at {} starts before the end ({}) of the previous entry's data", at, start, prev_end)));
        }
        prev_end = prev_end.max(start + len);
        if let Some(t) = trailer_at {
            if start < t + 16 && start + len > t {
                out.push(b("REG-3", format!("{}: data {}..{} overlaps the region trailer at {}", at, start, start + len, t)));
            }
        }
        if e.ty == 6 && e.count != 1 {
            out.push(b("ENT-6", format!("{}: STRING with count {}", at, e.count)));
        }
        if let Some(want) = table_type(sig, e.tag) {
            // scriptlet interpreters: rpm's table says argv (string array), older rpmbuild writes a single STRING; rpm accepts both
            let prog = !sig && matches!(e.tag, 1085..=1088 | 1091 | 1092 | 1153 | 1154 | 5105 | 5106);
            if want != e.ty && !(prog && e.ty == 6) {
                out.push(b("ENT-8", format!("{}: type {} but the tag table says {}", at, e.ty, want)));
            }
        }
    }
    Some(Checked { hdr: h, len })
}

fn first<'a>(h: &'a RawHeader, tag: u32) -> Option<Val> {
    h.entries.iter().skip(1).find(|e| e.tag == tag).and_then(|e| value(e, &h.store).ok())
}

fn strs(v: Option<Val>) -> Vec<String> {
    match v {
        Some(Val::StrArray(x)) | Some(Val::I18n(x)) => x.iter().map(|s| String::from_utf8_lossy(s).to_string()).collect(),
        _ => vec![],
    }
}

/// Validate a complete package. `emitted`: apply the rules that only packages from this
/// library must satisfy (region covers exactly all entries).
pub fn validate(x: &[u8], emitted: bool) -> Vec<Broken> {
    let mut out = vec![];
    // ---- lead
    let Some(lead) = RawLead::decode(x) else {
        return vec![b("LEAD-1", "shorter than a lead")];
    };
    if lead.magic != LEAD_MAGIC {
        out.push(b("LEAD-1", format!("magic {:02x?}", lead.magic)));
    }
    if lead.major != 3 && lead.major != 4 {
        out.push(b("LEAD-2", format!("major {}", lead.major)));
    }
    if lead.ptype > 1 {
        out.push(b("LEAD-3", format!("type {}", lead.ptype)));
    }
    if lead.sigtype != 5 {
        out.push(b("LEAD-4", format!("signature type {}", lead.sigtype)));
    }
    if !lead.name.contains(&0) {
        out.push(b("LEAD-5", "name not NUL-terminated"));
    }
    // ---- signature header
    let Some(sig) = check_header(&x[96..], true, emitted, &mut out) else { return out };
    let pad = (8 - sig.hdr.hsize as usize % 8) % 8;
    let pad_at = 96 + sig.len;
    if x.len() < pad_at + pad || x[pad_at..pad_at + pad].iter().any(|c| *c != 0) {
        out.push(b("SIG-1", format!("signature header (store {} bytes) not followed by {} zero bytes", sig.hdr.hsize, pad)));
        if x.len() < pad_at + pad {
            return out;
        }
    }
    // ---- main header
    let hdr_off = pad_at + pad;
    let Some(main) = check_header(&x[hdr_off..], false, emitted, &mut out) else { return out };
    if out.iter().any(|r| r.rule.starts_with("ENT") || r.rule.starts_with("HDR") || r.rule.starts_with("REG")) {
        return out; // the payload rules need a sound header
    }
    let h = &main.hdr;
    // the lead says "source package" exactly when the header does (rpm writes the lead from the header)
    let is_source = h.entries.iter().any(|e| e.tag == 1106);
    if (lead.ptype == 1) != is_source {
        out.push(b("LEAD-6", format!("lead type {} but the header {} a source package", lead.ptype, if is_source { "marks" } else { "does not mark" })));
    }
    let payload = &x[hdr_off + main.len..];
    // ---- payload
    let compressor = match first(h, 1125) {
        Some(Val::Str(s)) => Some(String::from_utf8_lossy(&s).to_string()),
        _ => None,
    };
    let archive = match decompress(compressor.as_deref(), payload) {
        Ok(a) => a,
        Err(e) => {
            out.push(b("PAY-1", format!("payload does not decompress as {:?}: {}", compressor, e)));
            return out;
        }
    };
    let basenames = strs(first(h, 1117));
    let dirnames = strs(first(h, 1118));
    let dirindexes: Vec<u32> = match first(h, 1116) {
        Some(Val::Int32(v)) => v,
        _ => vec![],
    };
    let modes: Vec<u16> = match first(h, 1030) {
        Some(Val::Int16(v)) => v,
        _ => vec![],
    };
    let flags: Vec<u32> = match first(h, 1037) {
        Some(Val::Int32(v)) => v,
        _ => vec![],
    };
    let sizes: Vec<u64> = match (first(h, 5008), first(h, 1028)) {
        (Some(Val::Int64(v)), _) => v,
        (_, Some(Val::Int32(v))) => v.iter().map(|x| *x as u64).collect(),
        _ => vec![],
    };
    let n = basenames.len();
    if dirindexes.len() != n || (n > 0 && (modes.len() != n || sizes.len() != n || flags.len() != n)) {
        out.push(b("PAY-3", "per-file header arrays of unequal length"));
        return out;
    }
    let paths: Vec<String> = (0..n).map(|i| format!("{}{}", dirnames.get(dirindexes[i] as usize).cloned().unwrap_or_default(), basenames[i])).collect();
    let requires = strs(first(h, 1049));
    let has = |f: &str| requires.iter().any(|r| r == &format!("rpmlib({})", f));
    let large = has("LargeFiles");
    let (ents, rest) = match read_archive(&archive, &sizes) {
        Ok(r) => r,
        Err(e) => {
            let rule: &'static str = if e.starts_with("PAY-4") { "PAY-4" } else { "PAY-2" };
            out.push(b(rule, e));
            return out;
        }
    };
    let _ = rest; // bytes after the trailer are tolerated (rpm stops at the trailer)
    // entries in header order (ghost files may be absent), names / sizes / modes as in the header
    let mut next = 0usize;
    let mut prefix_used = false;
    for ent in &ents {
        match ent {
            Ent::Newc(c) => {
                if large {
                    out.push(b("PAY-2", "newc entry in a package that requires rpmlib(LargeFiles)"));
                }
                let name = String::from_utf8_lossy(&c.name).to_string();
                let is_src = h.entries.iter().any(|e| e.tag == 1106);
                let want_of = |p: &str| if is_src { p.trim_start_matches('/').to_string() } else { format!(".{}", p) };
                if name.starts_with("./") {
                    prefix_used = true;
                }
                let mut found = None;
                for k in next..n {
                    if want_of(&paths[k]) == name {
                        found = Some(k);
                        break;
                    }
                    if flags[k] & (1 << 6) == 0 {
                        break; // only %ghost files may be skipped
                    }
                }
                let Some(k) = found else {
                    out.push(b("PAY-3", format!("archive entry {:?} is not the next file of the header (expected {:?})", name, paths.get(next))));
                    return out;
                };
                next = k + 1;
                if c.mode as u16 != modes[k] || c.mode > 0xffff {
                    out.push(b("PAY-3", format!("{}: mode {:o} in the archive, {:o} in the header", name, c.mode, modes[k])));
                }
                let is_dir = modes[k] & 0o170000 == 0o040000;
                if !is_dir && c.nlink <= 1 && c.data.len() as u64 != sizes[k] {
                    out.push(b("PAY-3", format!("{}: {} bytes in the archive, size {} in the header", name, c.data.len(), sizes[k])));
                }
            }
            Ent::Stripped { index, data } => {
                if !large {
                    out.push(b("PAY-2", "stripped entry in a package that does not require rpmlib(LargeFiles)"));
                }
                let k = *index as usize;
                if k < next || k >= n {
                    out.push(b("PAY-3", format!("stripped entry index {} out of order / range", k)));
                    return out;
                }
                next = k + 1;
                if data.len() as u64 != sizes[k] {
                    out.push(b("PAY-3", format!("stripped entry {}: {} bytes, header says {}", k, data.len(), sizes[k])));
                }
            }
        }
    }
    for k in next..n {
        if flags[k] & (1 << 6) == 0 {
            out.push(b("PAY-3", format!("header file {:?} is missing from the archive", paths[k])));
        }
    }
    // ---- rpmlib() features
    let algo = match first(h, 5011) {
        Some(Val::Int32(v)) if !v.is_empty() => Some(v[0]),
        _ => None,
    };
    let mut need: Vec<&str> = vec![];
    if n > 0 {
        need.push("CompressedFileNames");
    }
    if n > 0 && algo.map(|a| a != 1).unwrap_or(false) {
        need.push("FileDigests");
    }
    if prefix_used {
        need.push("PayloadFilesHavePrefix");
    }
    match compressor.as_deref() {
        Some("zstd") => need.push("PayloadIsZstd"),
        Some("xz") => need.push("PayloadIsXz"),
        Some("bzip2") => need.push("PayloadIsBzip2"),
        _ => {}
    }
    if h.entries.iter().any(|e| e.tag == 5010) {
        need.push("FileCaps");
    }
    if h.entries.iter().any(|e| e.tag == 5008) {
        need.push("LargeFiles");
    }
    for f in need {
        if !has(f) {
            out.push(b("LIB", format!("rpmlib({}) is used but not required", f)));
        }
    }
    out
}

/// Self-check: hand-broken packages, each of which must be rejected by the intended rule.
pub fn self_test() -> Result<usize, String> {
    use crate::foreign;
    use crate::pkgtool::*;
    use vlib::refhdr::assemble;
    let files = foreign::sample_files();
    let order: Vec<usize> = (0..files.len()).collect();
    let mut good = foreign::package("hand", &files, foreign::newc_archive(&files, &order), None, false);
    set(&mut good.main, 1049, Some(Val::strs(&["rpmlib(CompressedFileNames)", "rpmlib(FileDigests)", "rpmlib(PayloadFilesHavePrefix)", "rpmlib(FileCaps)"])));
    set(&mut good.main, 1048, Some(Val::Int32(vec![0x0100_0008; 4])));
    set(&mut good.main, 1050, Some(Val::strs(&["3.0.4-1", "4.6.0-1", "4.0-1", "4.6.1-1"])));
    let (gx, _) = good.join();
    let v = validate(&gx, true);
    if !v.is_empty() {
        return Err(format!("the well-formed hand-encoded package is rejected: {:?}", v));
    }
    type Edit = Box<dyn Fn(&Parts) -> Vec<u8>>;
    let raw = |f: Box<dyn Fn(&mut Vec<u8>, &vlib::refhdr::Layout)>| -> Edit {
        Box::new(move |p: &Parts| {
            let (mut x, l) = p.join();
            f(&mut x, &l);
            x
        })
    };
    let hdr_edit = |f: Box<dyn Fn(&mut RawHeader)>, sig: bool| -> Edit {
        Box::new(move |p: &Parts| {
            let mut s = p.sig_header();
            let mut m = p.main_header();
            if sig {
                f(&mut s)
            } else {
                f(&mut m)
            }
            assemble(&p.lead, &s, 0, &m, &p.payload).0
        })
    };
    let parts_edit = |f: Box<dyn Fn(&mut Parts)>| -> Edit {
        Box::new(move |p: &Parts| {
            let mut q = p.clone();
            f(&mut q);
            q.join().0
        })
    };
    let cases: Vec<(&str, Edit)> = vec![
        ("LEAD-1", raw(Box::new(|x, _| x[0] = 0))),
        ("LEAD-2", raw(Box::new(|x, _| x[4] = 9))),
        ("LEAD-3", raw(Box::new(|x, _| x[7] = 2))),
        ("LEAD-6", raw(Box::new(|x, _| x[7] = 1))),
        ("LEAD-4", raw(Box::new(|x, _| x[79] = 1))),
        ("LEAD-5", raw(Box::new(|x, _| x[10..76].iter_mut().for_each(|b| *b = b'x')))),
        ("HDR-1", raw(Box::new(|x, l| x[l.hdr_off + 2] = 0))),
        ("HDR-1", raw(Box::new(|x, l| x[l.sig_off + 3] = 2))),
        ("HDR-2", hdr_edit(Box::new(|h| { h.nindex = 0; h.entries.clear(); h.store.clear(); h.hsize = 0; }), true)),
        ("REG-1", hdr_edit(Box::new(|h| h.entries[0].tag = 64), false)),
        ("REG-1", hdr_edit(Box::new(|h| { h.entries.remove(0); h.nindex -= 1; }), false)),
        ("REG-2", hdr_edit(Box::new(|h| { let o = h.entries[0].offset as usize; h.store[o + 11] ^= 0x10; }), false)),
        ("REG-2", hdr_edit(Box::new(|h| h.entries[0].offset = 1 << 20), true)),
        ("REG-3", hdr_edit(Box::new(|h| { let o = h.entries[0].offset; let k = h.entries.len() - 1; h.entries[k].offset = o; h.entries[k].ty = 7; h.entries[k].count = 4; }), false)),
        ("ENT-1", hdr_edit(Box::new(|h| h.entries.swap(1, 2)), false)),
        ("ENT-1", hdr_edit(Box::new(|h| h.entries[2].tag = h.entries[1].tag), false)),
        ("ENT-2", hdr_edit(Box::new(|h| h.entries[1].ty = 0), false)),
        ("ENT-2", hdr_edit(Box::new(|h| h.entries[1].ty = 10), false)),
        ("ENT-3", hdr_edit(Box::new(|h| h.entries[1].offset = -1), false)),
        ("ENT-3", hdr_edit(Box::new(|h| { let e = h.entries.iter_mut().find(|e| e.ty == 4).unwrap(); e.offset += 1; }), false)),
        ("ENT-4", hdr_edit(Box::new(|h| h.entries[1].count = 0), false)),
        ("ENT-4", hdr_edit(Box::new(|h| { let e = h.entries.iter_mut().find(|e| e.ty == 4).unwrap(); e.count = 1 << 24; }), false)),
        ("ENT-5", hdr_edit(Box::new(|h| { let o = h.entries[1].offset; h.entries[2].offset = o; }), false)),
        ("ENT-6", hdr_edit(Box::new(|h| h.entries[1].count = 2), false)),
        ("ENT-7", hdr_edit(Box::new(|h| { let k = h.entries.len() - 1; let e = &mut h.entries[k]; e.ty = 6; e.count = 1; e.offset = h.hsize as i32 - 1; let l = h.store.len(); h.store[l - 1] = b'x'; }), true)),
        ("ENT-8", hdr_edit(Box::new(|h| { let e = h.entries.iter_mut().find(|e| e.tag == 1004).unwrap(); e.ty = 6; }), false)),
        ("SIG-1", Box::new(|p: &Parts| assemble(&p.lead, &p.sig_header(), 0x01, &p.main_header(), &p.payload).0)),
        ("PAY-1", parts_edit(Box::new(|p| set(&mut p.main, 1125, Some(Val::str("gzip")))))),
        ("PAY-2", parts_edit(Box::new(|p| p.payload[3] = b'9'))),
        ("PAY-2", parts_edit(Box::new(|p| p.payload[54] = b'g'))),
        ("PAY-3", parts_edit(Box::new(|p| p.payload[112] = b'X'))),
        ("PAY-3", parts_edit(Box::new(|p| set(&mut p.main, 1028, Some(Val::Int32(vec![1, 2, 3])))))),
        ("PAY-3", parts_edit(Box::new(|p| set(&mut p.main, 1030, Some(Val::Int16(vec![0o100600, 0o100755, 0o120777])))))),
        ("PAY-4", parts_edit(Box::new(|p| { let l = p.payload.len(); p.payload.truncate(l - 124); }))),
        ("LIB", parts_edit(Box::new(|p| set(&mut p.main, 1049, Some(Val::strs(&["rpmlib(CompressedFileNames)", "rpmlib(FileDigests)", "rpmlib(PayloadFilesHavePrefix)", "rpmlib(Other)"])))))),
        ("LIB", parts_edit(Box::new(|p| set(&mut p.main, 1049, Some(Val::strs(&["a", "b", "c", "d"])))))),
    ];
    let mut n = 0;
    for (rule, edit) in cases {
        let x = edit(&good);
        let v = validate(&x, true);
        if !v.iter().any(|r| r.rule == rule) {
            return Err(format!("hand-broken package #{} intended for rule {} was reported as {:?}", n, rule, v));
        }
        n += 1;
    }
    Ok(n)
}
