//! C01 — parse then write reproduces the package byte for byte (engine A + fixpoint chain).
use crate::common::*;
use crate::common_assets::ASSETS;
use crate::ctx::Ctx;
use crate::oracles::*;
use serde_json::{json, Value};
use vlib::par::{decode, product};
use vlib::refhdr::{assemble, RawEntry, RawHeader, RawLead, Val};
use crate::sweep::{run_sweep, Sweep};
use vlib::report::{Acc, SubReport};

/// all strings of length ≤ 4 over {0x00, 'a', 0xFF}: 121 stores
pub fn stores() -> Vec<Vec<u8>> {
    let sym = [0u8, b'a', 0xFF];
    let mut out = vec![];
    let n = vlib::par::strings_count(3, 4);
    let mut t = vec![];
    for i in 0..n {
        vlib::par::strings_nth(i, 3, &mut t);
        out.push(t.iter().map(|x| sym[*x]).collect());
    }
    out
}

fn minimal_main() -> RawHeader {
    RawHeader::layout(&[(1000, Val::str("n"))])
}
fn minimal_sig() -> RawHeader {
    RawHeader::new(vec![], vec![])
}

const PAYLOADS: [&[u8]; 3] = [b"", b"\x07", b"payload"];

/// Decode an entry from its axis digits; None if the offset digit exceeds the store.
fn entry(tags: &[u32], d_tag: u64, d_ty: u64, d_off: u64, d_cnt: u64, offs: &[i64], counts: &[u32], store_len: usize) -> Option<RawEntry> {
    let off = offs[d_off as usize];
    let off = if off < 0 { store_len as i64 } else { off }; // -1 encodes "== store_len"
    if off > store_len as i64 {
        return None;
    }
    Some(RawEntry {
        tag: tags[d_tag as usize],
        ty: d_ty as u32,
        offset: off as i32,
        count: counts[d_cnt as usize],
    })
}

pub fn run_headers(name: &str, which_sig: bool, n_entries: usize, tags: &[u32], offs: &[i64], counts: &[u32], store_list: &[Vec<u8>], payloads: &[&'static [u8]]) -> Sweep {
    let (tags, offs, counts, store_list, payloads) = (tags.to_vec(), offs.to_vec(), counts.to_vec(), store_list.to_vec(), payloads.to_vec());
    let name = name.to_string();
    let per = [tags.len() as u64, 10, offs.len() as u64, counts.len() as u64];
    let mut rad = vec![];
    for _ in 0..n_entries {
        rad.extend_from_slice(&per);
    }
    rad.push(store_list.len() as u64);
    rad.push(payloads.len() as u64);
    let n = product(&rad);
    let lead = RawLead::new("n");
    let rule = format!(
            "{} header with {} index entr{}: per entry tag ∈ {:?} × type 0..9 × offset ∈ {:?} (−1 = store length; digits beyond the store skipped) × count ∈ {:?}; {} stores over {{00,'a',FF}}; {} payloads; other header minimal. Oracle: W(P(x)) = x up to reserved/padding bytes, P(W(P(x))) = P(x), second write identical, metadata-only API consistent. non-trivial = accepted by the parser",
            if which_sig { "signature" } else { "main" },
            n_entries,
            if n_entries == 1 { "y" } else { "ies" },
            tags,
            offs,
            counts,
            store_list.len(),
            payloads.len()
        );
    let nm = name.clone();
    Sweep::new(&nm, rule, n, move |i, acc| {
        let name = name.as_str();
        let (tags, offs, counts) = (&tags[..], &offs[..], &counts[..]);
        let d = decode(i, &rad);
        let store = &store_list[d[4 * n_entries] as usize];
        let payload = payloads[d[4 * n_entries + 1] as usize];
        let mut es = vec![];
        for k in 0..n_entries {
            match entry(tags, d[4 * k], d[4 * k + 1], d[4 * k + 2], d[4 * k + 3], offs, counts, store.len()) {
                Some(e) => es.push(e),
                None => return, // offset digit beyond this store: not a point of the domain
            }
        }
        acc.evals += 1;
        let h = RawHeader::new(es, store.clone());
        let (x, _) = if which_sig { assemble(&lead, &h, 0, &minimal_main(), payload) } else { assemble(&lead, &minimal_sig(), 0, &h, payload) };
        let case = || json!({"bytes_hex": vlib::hex(&x), "varied": if which_sig {"signature header"} else {"main header"}, "entries": format!("{:?}", h.entries), "store_hex": vlib::hex(&h.store)});
        if let Some(p) = oracle_roundtrip(name, &x, i, &case, acc) {
            acc.nontrivial += 1;
            oracle_offsets(name, &p, i, &case, acc);
            acc.sample(i.wrapping_mul(0x9e3779b97f4a7c15), case);
        }
    })
}

fn run_intro() -> Sweep {
    // every intro byte wrong once (and in combination), reserved bytes non-zero, for both headers
    let rad = [2u64, 2, 2, 2, 3, 2, 2, 3];
    let n = product(&rad);
    let lead = RawLead::new("n");
    Sweep::new("intro", "both header intros: each magic byte ∈ {correct, +1}, version ∈ {1,0,2}, reserved bytes zero / non-zero, non-zero signature padding, 3 payloads (all 576 combinations)".into(), n, move |i, acc| {
        let d = decode(i, &rad);
        acc.evals += 1;
        let mut h = RawHeader::layout(&[(1000, Val::str("n")), (1003, Val::Int32(vec![5]))]);
        h.magic = [0x8e + d[1] as u8, 0xad + d[2] as u8, 0xe8 + d[3] as u8];
        h.version = [1u8, 0, 2][d[4] as usize];
        h.reserved = if d[5] == 1 { [0xde, 0xad, 0xbe, 0xef] } else { [0; 4] };
        let other_reserved = if d[6] == 1 { [1, 2, 3, 4] } else { [0; 4] };
        let payload = PAYLOADS[d[7] as usize];
        let (x, _) = if d[0] == 0 {
            let mut s = RawHeader::layout(&[(273, Val::str("x"))]);
            s.reserved = other_reserved;
            assemble(&lead, &s, 0x55, &h, payload)
        } else {
            let mut m = minimal_main();
            m.reserved = other_reserved;
            assemble(&lead, &h, 0x55, &m, payload)
        };
        let case = || json!({"bytes_hex": vlib::hex(&x), "varied": if d[0] == 0 {"main intro"} else {"signature intro"}, "magic": format!("{:02x?}", h.magic), "version": h.version});
        if let Some(p) = oracle_roundtrip("intro", &x, i, &case, acc) {
            acc.nontrivial += 1;
            oracle_offsets("intro", &p, i, &case, acc);
            acc.sample(i, case);
        }
    })
}

pub fn run_lead() -> Sweep {
    let vals16 = [0u16, 1, 0xFFFF];
    let vals8 = [3u8, 0, 0xFF];
    let rad = [3u64, 3, 3, 3, 3, 3, 4, 2, 6];
    let n = product(&rad);
    Sweep::new("lead", "lead: major/minor ∈ {3,0,FF}, type/arch/os/sigtype ∈ {0,1,FFFF}, 4 name shapes (no NUL, non-UTF-8, bytes after NUL), reserved zero/non-zero, each magic byte wrong once / all zero".into(), n, move |i, acc| {
        let d = decode(i, &rad);
        acc.evals += 1;
        let mut l = RawLead::new("n");
        l.major = vals8[d[0] as usize];
        l.minor = vals8[d[1] as usize];
        l.ptype = vals16[d[2] as usize];
        l.arch = vals16[d[3] as usize];
        l.os = vals16[d[4] as usize];
        l.sigtype = vals16[d[5] as usize];
        l.name = match d[6] {
            0 => l.name,
            1 => [b'x'; 66],              // no NUL terminator
            2 => [0xFF; 66],              // not UTF-8
            _ => {
                let mut n = [0u8; 66];
                n[0] = b'a';
                n[2] = b'b'; // data after the first NUL
                n[65] = 0x80;
                n
            }
        };
        if d[7] == 1 {
            l.reserved = [0xA5; 16];
        }
        if d[8] > 0 && d[8] < 5 {
            l.magic[d[8] as usize - 1] ^= 1;
        } else if d[8] == 5 {
            l.magic = [0; 4];
        }
        let (x, _) = assemble(&l, &RawHeader::layout(&[(273, Val::str("ab"))]), 0, &minimal_main(), b"p");
        let case = || json!({"bytes_hex": vlib::hex(&x), "varied": "lead"});
        if let Some(p) = oracle_roundtrip("lead", &x, i, &case, acc) {
            acc.nontrivial += 1;
            oracle_offsets("lead", &p, i, &case, acc);
            acc.sample(i.wrapping_mul(0x9e3779b97f4a7c15), case);
        }
    })
}

fn run_sigpad() -> Sweep {
    let rad = [17u64, 3, 3, 2];
    let n = product(&rad);
    let lead = RawLead::new("n");
    Sweep::new("sigpad", "signature store length 0..=16 (all paddings mod 8) × padding bytes {00, AA, 01} × 3 payloads × reserved zero/non-zero".into(), n, move |i, acc| {
        let d = decode(i, &rad);
        acc.evals += 1;
        let len = d[0] as usize;
        let store: Vec<u8> = (0..len).map(|k| 0x30 + k as u8).collect();
        let entries = if len == 0 { vec![] } else { vec![RawEntry { tag: 1004, ty: 7, offset: 0, count: len as u32 }] };
        let mut sig = RawHeader::new(entries, store);
        if d[3] == 1 {
            sig.reserved = [9, 9, 9, 9];
        }
        let fill = [0u8, 0xAA, 0x01][d[1] as usize];
        let (x, _) = assemble(&lead, &sig, fill, &minimal_main(), PAYLOADS[d[2] as usize]);
        let case = || json!({"bytes_hex": vlib::hex(&x), "varied": "signature store length / padding", "sig_store_len": len, "pad_fill": fill});
        if let Some(p) = oracle_roundtrip("sigpad", &x, i, &case, acc) {
            acc.nontrivial += 1;
            oracle_offsets("sigpad", &p, i, &case, acc);
            acc.sample(i, case);
        }
    })
}

/// Size-like tags (signature SIZE / LONGSIZE / PAYLOADSIZE / LONGARCHIVESIZE, main ARCHIVESIZE /
/// SIZE / LONGSIZE) that disagree with the bytes actually present: the payload is whatever
/// follows the header, whatever a tag claims.
fn run_declared_sizes() -> Sweep {
    let tags: [(bool, u32, u32); 7] = [(true, 1000, 4), (true, 270, 5), (true, 1007, 4), (true, 271, 5), (false, 1046, 4), (false, 5009, 5), (false, 1009, 4)];
    let plens = [0usize, 1, 7, 64];
    let rad = [tags.len() as u64, 13, plens.len() as u64];
    let n = product(&rad);
    Sweep::new("declared-sizes", "one size-like tag (signature SIZE, LONGSIZE, PAYLOADSIZE, LONGARCHIVESIZE; main ARCHIVESIZE, LONGSIZE, SIZE) with a value from {0, 1, H−1, H, H+1, H+P−1, H+P, H+P+1, P−1, P, P+1, 2^31, 2^32−1} (H = main header length, P = payload length) × payload length ∈ {0,1,7,64}: the written bytes must equal the input whatever the tag claims".into(), n, move |i, acc| {
        let d = decode(i, &rad);
        acc.evals += 1;
        let (in_sig, tag, ty) = tags[d[0] as usize];
        let p = plens[d[2] as usize];
        let payload: Vec<u8> = (0..p).map(|k| 0x40 + (k % 50) as u8).collect();
        let mk = |v: u64| if ty == 4 { Val::Int32(vec![v as u32]) } else { Val::Int64(vec![v]) };
        // header length does not depend on the value
        let build = |v: u64| {
            let mut main = vec![(1000u32, Val::str("n"))];
            let mut sig = vec![];
            if in_sig {
                sig.push((tag, mk(v)));
            } else {
                main.push((tag, mk(v)));
            }
            (RawHeader::layout_region(62, &sig), RawHeader::layout_region(63, &main))
        };
        let h = build(0).1.encoded_len() as u64;
        let pp = p as u64;
        let vals = [0, 1, h - 1, h, h + 1, (h + pp).saturating_sub(1), h + pp, h + pp + 1, pp.saturating_sub(1), pp, pp + 1, 1 << 31, u32::MAX as u64];
        let v = vals[d[1] as usize];
        let (sg, mn) = build(v);
        let (x, _) = assemble(&RawLead::new("n"), &sg, 0, &mn, &payload);
        let case = || json!({"bytes_hex": vlib::hex(&x), "varied": "declared size", "tag": tag, "in_signature_header": in_sig, "value": v, "main_header_len": h, "payload_len": p});
        if let Some(pk) = oracle_roundtrip("declared-sizes", &x, i, &case, acc) {
            acc.nontrivial += 1;
            oracle_offsets("declared-sizes", &pk, i, &case, acc);
            if i % 37 == 0 {
                acc.sample(i, case);
            }
        }
    })
}

/// Headers with entries behind the immutable region (the region trailer covers fewer entries than the index holds).
/// Headers without any index entry but with a data section; and every truncation of a package whose headers carry no region.
pub fn run_empty_and_truncated() -> Sweep {
    // (a) 2 headers × store length; (b) truncations of one no-region package
    let lens = [0usize, 1, 7, 8, 9, 16, 17];
    let main = RawHeader::layout(&[(1003, Val::Int32(vec![7])), (1004, Val::i18n(&["s"])), (1000, Val::str("a-last-string-without-region"))]);
    let sig = RawHeader::layout(&[(1000, Val::Int32(vec![1])), (273, Val::str("0123456789abcdef"))]);
    let (whole, _) = assemble(&RawLead::new("n"), &sig, 0, &main, b"pay");
    let na = (lens.len() * 2) as u64;
    let n = na + whole.len() as u64 + 1;
    Sweep::new("empty-index-and-truncations", format!("(a) signature / main header with NO index entry and a data section of {:?} bytes; (b) every truncation 0..={} of a hand-encoded package whose headers carry no region entry (the data section ends with a string): whatever the parser accepts must round-trip byte for byte and report true offsets", lens, whole.len()), n, move |i, acc| {
        acc.evals += 1;
        let x: Vec<u8> = if i < na {
            let in_sig = i % 2 == 1;
            let len = lens[(i / 2) as usize];
            let h = RawHeader::new(vec![], (0..len).map(|k| 0x41 + k as u8).collect());
            if in_sig { assemble(&RawLead::new("n"), &h, 0, &minimal_main(), b"pay").0 } else { assemble(&RawLead::new("n"), &minimal_sig(), 0, &h, b"pay").0 }
        } else {
            whole[..(i - na) as usize].to_vec()
        };
        let case = || json!({"bytes_hex": vlib::hex(&x), "varied": if i < na { "header without index entries, with data section".to_string() } else { format!("no-region package truncated to {} of {} bytes", i - na, whole.len()) }});
        match oracle_roundtrip("empty-index-and-truncations", &x, i, &case, acc) {
            Some(p) => {
                acc.nontrivial += 1;
                oracle_offsets("empty-index-and-truncations", &p, i, &case, acc);
                acc.count("accepted");
            }
            None => acc.count("rejected by the parser (not judged)"),
        }
    })
}

/// Headers with many entries and entries with many items: counts around the powers of two at which index arithmetic changes width.
pub fn run_entry_counts() -> Sweep {
    // every number of items up to 1100 (so every residue of the index size modulo any block size up to 17 KiB), then the powers of two
    let counts: Vec<usize> = (0..=1100).chain([4095, 4096, 65_535, 65_536]).collect();
    const COUNTED: [&str; 4] = ["index entries", "items of one INT32 entry", "items of one STRING_ARRAY entry", "bytes of one BIN entry"];
    // (which header, what is counted: entries of the header / items of one INT32 / items of one string array / bytes of one BIN)
    let n = (counts.len() * 4 * 2) as u64;
    Sweep::new("entry-counts", format!("a header (as signature header and as main header) with n index entries, or with one INT32 / STRING_ARRAY / BIN entry of n items, for every n from 0 to 1100 and n ∈ {{4095, 4096, 65 535, 65 536}}: round trip byte for byte and true offsets"), n, move |i, acc| {
        acc.evals += 1;
        let in_sig = i % 2 == 1;
        let what = (i / 2 % 4) as usize;
        let c = counts[(i / 8) as usize];
        let recs: Vec<(u32, Val)> = match what {
            0 => (0..c).map(|k| (10_000 + k as u32, Val::Int32(vec![k as u32]))).collect(),
            1 => vec![(1000, Val::str("n")), (1009, Val::Int32((0..c as u32).collect()))],
            2 => vec![(1000, Val::str("n")), (1117, Val::StrArray((0..c).map(|k| format!("{}", k % 10).into_bytes()).collect()))],
            _ => vec![(1000, Val::str("n")), (1043, Val::Bin((0..c).map(|k| k as u8).collect()))],
        };
        let h = RawHeader::layout(&recs);
        let (x, _) = if in_sig { assemble(&RawLead::new("n"), &h, 0, &minimal_main(), b"pay") } else { assemble(&RawLead::new("n"), &minimal_sig(), 0, &h, b"pay") };
        let case = || json!({"header": if in_sig { "signature" } else { "main" }, "counted": COUNTED[what], "n": c, "bytes_hex": if x.len() < 4096 { vlib::hex(&x) } else { String::new() }});
        match oracle_roundtrip("entry-counts", &x, i, &case, acc) {
            Some(p) => {
                acc.nontrivial += 1;
                oracle_offsets("entry-counts", &p, i, &case, acc);
                acc.count("accepted");
            }
            None => acc.count("rejected by the parser (not judged)"),
        }
    })
}

/// The geometry of one entry: its offset and count moved to and beyond the edges of the data section, in either header.
pub fn run_entry_geometry() -> Sweep {
    // three entries of different kinds; the data section ends with the text of the last one
    let recs = [(1000u32, Val::str("name")), (1009, Val::Int32(vec![1, 2])), (1043, Val::Bin(vec![9, 8, 7])), (1117, Val::strs(&["a", "bc"])), (1001, Val::str("tail"))];
    let base = RawHeader::layout(&recs);
    let store_len = base.store.len() as i64;
    let offs: Vec<i64> = vec![-2, -1, 0, 1, store_len - 5, store_len - 2, store_len - 1, store_len, store_len + 1, store_len + 16, 0x7fff_ffff, 0x8000_0000, 0xffff_ffff];
    let counts: Vec<i64> = vec![-1, 0, 1, 2, 3, 5, 65_536];
    let n_ent = base.entries.len() as u64;
    let n = 2 * n_ent * (offs.len() * counts.len()) as u64 * 2;
    Sweep::new("entry-geometry", format!("a header of five entries (STRING, INT32 ×2, BIN ×3, STRING_ARRAY ×2, STRING at the very end of the data section; {} bytes of data) as signature header and as main header: one entry's offset ∈ {{as laid out − 2 … , 0, 1, the last bytes of the data section, its size, beyond it, 2^31 ∓ 1, 2^32 − 1}} × count ∈ {{as laid out − 1, 0, 1, 2, 3, 5, 65 536}} × the data section with and without its final NUL: whatever the parser accepts must round-trip byte for byte and report true offsets", store_len), n, move |i, acc| {
        acc.evals += 1;
        let no_nul = i % 2 == 1;
        let j = i / 2;
        let in_sig = j % 2 == 1;
        let j = j / 2;
        let (e, oc) = ((j % n_ent) as usize, j / n_ent);
        let (oi, ci) = ((oc % offs.len() as u64) as usize, (oc / offs.len() as u64) as usize);
        let mut h = base.clone();
        let laid = (h.entries[e].offset as i64, h.entries[e].count as i64);
        // the first two offset digits are relative to the laid-out offset (−2 bytes, unchanged); offsets ≥ 2^31 are negative i32 values
        let off = if oi == 0 { laid.0 - 2 } else if oi == 1 { laid.0 } else { offs[oi] };
        let cnt = if ci == 0 { laid.1 - 1 } else { counts[ci] };
        if off < 0 || cnt < 0 {
            return;
        }
        h.entries[e].offset = off as u32 as i32;
        h.entries[e].count = cnt as u32;
        if no_nul {
            h.store.pop();
        }
        let (x, _) = if in_sig { assemble(&RawLead::new("n"), &h, 0, &minimal_main(), b"pay") } else { assemble(&RawLead::new("n"), &minimal_sig(), 0, &h, b"pay") };
        let case = || json!({"bytes_hex": vlib::hex(&x), "header": if in_sig { "signature" } else { "main" }, "entry": e, "tag": h.entries[e].tag, "offset": off, "count": cnt, "data_section_bytes": h.store.len(), "final_nul_removed": no_nul});
        match oracle_roundtrip("entry-geometry", &x, i, &case, acc) {
            Some(p) => {
                acc.nontrivial += 1;
                oracle_offsets("entry-geometry", &p, i, &case, acc);
                acc.count("accepted");
            }
            None => acc.count("rejected by the parser (not judged)"),
        }
    })
}

/// The bytes between the sections: alignment padding removed or added, and inputs that start at a section boundary.
pub fn run_section_edges() -> Sweep {
    let lens = [1usize, 3, 4, 7, 8, 9, 12, 15, 16];
    let shifts: [i64; 9] = [-7, -4, -2, -1, 0, 1, 3, 7, 8];
    let main = minimal_main();
    // (a) signature store length × padding shortened / lengthened by k bytes × reader
    let na = (lens.len() * shifts.len()) as u64;
    // (b) a complete package cut at its section boundaries: every non-empty subsequence of [lead, signature header + padding, main header, payload]
    let nb = 15u64;
    Sweep::new("section-edges", format!("(a) signature data sections of {:?} bytes with the alignment padding behind them shortened or lengthened by {:?} bytes; (b) the 15 non-empty selections of the four sections [lead, signature header with padding, main header, payload] of a package, in order (a bare main header, a package without lead, …): whatever the parser accepts must round-trip byte for byte and report true offsets", lens, shifts), na + nb, move |i, acc| {
        acc.evals += 1;
        let (x, what): (Vec<u8>, String) = if i < na {
            let len = lens[(i / shifts.len() as u64) as usize];
            let shift = shifts[(i % shifts.len() as u64) as usize];
            let sig = RawHeader::new(vec![RawEntry { tag: 1004, ty: 7, offset: 0, count: len as u32 }], (0..len).map(|k| 0x30 + k as u8).collect());
            let (whole, lay) = assemble(&RawLead::new("n"), &sig, 0, &main, b"pay");
            let pad_start = lay.hdr_off - (8 - (16 + 16 + len) % 8) % 8;
            let mut y = whole[..pad_start].to_vec();
            let pad = (lay.hdr_off - pad_start) as i64 + shift;
            if pad < 0 {
                return;
            }
            y.extend(std::iter::repeat(0u8).take(pad as usize));
            y.extend_from_slice(&whole[lay.hdr_off..]);
            (y, format!("signature data section of {} bytes, padding of {} instead of {} bytes", len, pad, lay.hdr_off - pad_start))
        } else {
            let mask = i - na + 1;
            let sig = RawHeader::layout_region(62, &[(273, Val::str("0123456789abcdef")), (1000, Val::Int32(vec![7]))]);
            let (whole, lay) = assemble(&RawLead::new("n"), &sig, 0, &RawHeader::layout_region(63, &[(1000, Val::str("n")), (1004, Val::i18n(&["s"]))]), b"payload-bytes");
            let parts: [&[u8]; 4] = [&whole[..lay.sig_off], &whole[lay.sig_off..lay.hdr_off], &whole[lay.hdr_off..lay.payload_off], &whole[lay.payload_off..]];
            let mut y = vec![];
            let mut names = vec![];
            for (k, part) in parts.iter().enumerate() {
                if mask & (1 << k) != 0 {
                    y.extend_from_slice(part);
                    names.push(["lead", "signature header", "main header", "payload"][k]);
                }
            }
            (y, format!("input consisting of {:?}", names))
        };
        let case = || json!({"bytes_hex": vlib::hex(&x), "varied": what});
        match oracle_roundtrip("section-edges", &x, i, &case, acc) {
            Some(p) => {
                acc.nontrivial += 1;
                oracle_offsets("section-edges", &p, i, &case, acc);
                acc.count("accepted");
            }
            None => acc.count("rejected by the parser (not judged)"),
        }
    })
}

pub fn run_dribble() -> Sweep {
    let extras: Vec<Vec<(u32, Val)>> = vec![
        vec![],
        vec![(1008, Val::Int32(vec![0x0102_0304]))],
        vec![(1008, Val::Int32(vec![1])), (1129, Val::Int32(vec![2, 3]))],
        vec![(5000, Val::str("appended"))],
        vec![(999, Val::Bin(vec![9, 8, 7])), (5001, Val::strs(&["a", "b"])), (5002, Val::Int64(vec![u64::MAX]))],
    ];
    let rad = [extras.len() as u64, extras.len() as u64, 3];
    let n = product(&rad);
    Sweep::new("region-dribble", "signature and main header built like rpm's (sorted entries, region entry and trailer) with 0–3 entries of various types appended behind the immutable region × 3 payloads: byte round trip and offsets".into(), n, move |i, acc| {
        let d = decode(i, &rad);
        acc.evals += 1;
        let sig = RawHeader::layout_region_dribble(62, &[(273, Val::str("0123456789abcdef")), (1000, Val::Int32(vec![77]))], &extras[d[0] as usize]);
        let main = RawHeader::layout_region_dribble(63, &[(1000, Val::str("n")), (1001, Val::str("1")), (1004, Val::i18n(&["s"]))], &extras[d[1] as usize]);
        let (x, _) = assemble(&RawLead::new("n"), &sig, 0, &main, PAYLOADS[d[2] as usize]);
        let case = || json!({"bytes_hex": vlib::hex(&x), "varied": "entries behind the region", "signature_extra": d[0], "main_extra": d[1]});
        match oracle_roundtrip("region-dribble", &x, i, &case, acc) {
            Some(p) => {
                acc.nontrivial += 1;
                oracle_offsets("region-dribble", &p, i, &case, acc);
                acc.sample(i, case);
            }
            None => acc.viol(vlib::report::Violation::new("region-dribble", "a header with entries behind the region (as rpm itself produces) is rejected", case()).sig("clause", "well-formed-package-rejected").rank(i)),
        }
    })
}

/// Index entries whose data type number is not one of the ten defined types, among otherwise valid entries.
pub fn run_unknown_types() -> Sweep {
    let types: [u32; 8] = [10, 11, 15, 16, 255, 256, 65_536, u32::MAX];
    let counts: [u32; 3] = [0, 1, 2];
    let rad = [2u64, types.len() as u64, 3, counts.len() as u64, 2, 2];
    let n = product(&rad);
    Sweep::new("unknown-types", format!("signature / main header with two ordinary entries and one entry of data type ∈ {:?} in first / middle / last index position × count ∈ {:?} × offset ∈ {{0, store length}} × plain / region layout ({} inputs): if the parser accepts such a header, bytes and offsets must still round-trip", types, counts, n), n, move |i, acc| {
        let d = decode(i, &rad);
        let sig = d[0] == 1;
        acc.evals += 1;
        let recs = [(1000u32, Val::str("name")), (1001, Val::Int32(vec![7]))];
        let mut h = if d[5] == 1 { RawHeader::layout_region(if sig { 62 } else { 63 }, &recs) } else { RawHeader::layout(&recs) };
        let first = if d[5] == 1 { 1 } else { 0 };
        let odd = vlib::refhdr::RawEntry { tag: 1005, ty: types[d[1] as usize], offset: if d[4] == 0 { 0 } else { h.store.len() as i32 }, count: counts[d[3] as usize] };
        let pos = match d[2] {
            0 => first,
            1 => first + 1,
            _ => h.entries.len(),
        };
        h.entries.insert(pos, odd);
        h.nindex = h.entries.len() as u32;
        let lead = RawLead::new("n");
        let (x, _) = if sig { assemble(&lead, &h, 0, &minimal_main(), b"pay") } else { assemble(&lead, &minimal_sig(), 0, &h, b"pay") };
        let case = || json!({"bytes_hex": vlib::hex(&x), "varied": if sig {"signature header"} else {"main header"}, "entries": format!("{:?}", h.entries)});
        match oracle_roundtrip("unknown-types", &x, i, &case, acc) {
            Some(p) => {
                acc.nontrivial += 1;
                oracle_offsets("unknown-types", &p, i, &case, acc);
                acc.count("accepted");
            }
            None => acc.count("rejected by the parser (not judged)"),
        }
        if i % 97 == 0 {
            acc.sample(i, || json!({"type": types[d[1] as usize], "position": d[2], "header": if sig {"signature"} else {"main"}}));
        }
    })
}

pub fn run_assets(ctx: &Ctx, sub: &str) -> SubReport {
    let mut acc = Acc::new();
    for (k, rel) in ASSETS.iter().enumerate() {
        let x = std::fs::read(ctx.asset(rel)).unwrap_or_else(|e| crate::ctx::machinery(&format!("asset {}: {}", rel, e)));
        acc.evals += 1;
        let case = || json!({"asset": rel});
        match oracle_roundtrip(sub, &x, k as u64, &case, &mut acc) {
            Some(p) => {
                acc.nontrivial += 1;
                oracle_offsets(sub, &p, k as u64, &case, &mut acc);
                oracle_file_api(sub, &x, k as u64, &case, &mut acc);
                acc.sample(k as u64, || json!({"asset": rel, "bytes": x.len()}));
                // bytes appended after the payload belong to the payload
                for extra in [1usize, 9] {
                    acc.evals += 1;
                    let mut y = x.clone();
                    y.extend(std::iter::repeat(0x5a).take(extra));
                    let c2 = || json!({"asset": rel, "appended_bytes": extra});
                    if oracle_roundtrip(sub, &y, 200 + k as u64, &c2, &mut acc).is_some() {
                        acc.nontrivial += 1;
                    }
                }
                // truncated payload is still accepted and round-trips
                let l = vlib::refhdr::scan(&x).expect("asset scans").3;
                for cut in [l.payload_off, l.payload_off + 1, (l.payload_off + x.len()) / 2] {
                    acc.evals += 1;
                    let c2 = || json!({"asset": rel, "truncated_to": cut});
                    if oracle_roundtrip(sub, &x[..cut], 100 + k as u64, &c2, &mut acc).is_some() {
                        acc.nontrivial += 1;
                    }
                    oracle_file_api(sub, &x[..cut], 100 + k as u64, &c2, &mut acc);
                }
            }
            None => crate::ctx::machinery(&format!("asset {} is rejected by the parser: the run would be vacuous", rel)),
        }
    }
    SubReport::new(sub, "A", "the six rpmbuild-produced asset packages, whole, with 1 and 9 bytes appended, and with the payload truncated at three offsets; the path-based entry points (Package::open, PackageMetadata::open, write_file) must agree with parse / write", acc)
}

pub fn sweeps(ctx: &Ctx) -> Vec<Sweep> {
    let st = stores();
    let repr: Vec<Vec<u8>> = [0usize, 1, 2, 5, 7, 40, 80, 120, 13, 100].iter().map(|i| st[*i].clone()).collect();
    let tags6 = [63u32, 100, 1000, 1004, 1000, 99_999];
    let tags3 = [100u32, 1000, 99_999];
    let offs = [0i64, 1, 2, 3, -1];
    let counts = [0u32, 1, 2, 3];
    let mut v = vec![];
    for sig in [false, true] {
        let nm = if sig { "sig" } else { "hdr" };
        v.push(run_headers(&format!("{}1", nm), sig, 1, &tags6, &offs, &counts, &st, &PAYLOADS));
        if ctx.quick() {
            v.push(run_headers(&format!("{}2", nm), sig, 2, &[1000, 1000], &offs, &counts, &repr, &PAYLOADS[..1]));
        } else {
            v.push(run_headers(&format!("{}2", nm), sig, 2, &tags3, &offs, &counts, &st, &PAYLOADS[..1]));
            v.push(run_headers(&format!("{}3", nm), sig, 3, &[1000], &[0, 1, -1], &[0, 2], &st, &PAYLOADS[..1]));
        }
    }
    v.push(run_intro());
    v.push(run_lead());
    v.push(run_sigpad());
    v.push(run_declared_sizes());
    v.push(run_dribble());
    v.push(run_unknown_types());
    v.push(run_empty_and_truncated());
    v.push(run_section_edges());
    v.push(run_entry_geometry());
    v.push(run_entry_counts());
    v
}

pub fn run(ctx: &Ctx) -> i32 {
    let mut subs = vec![];
    for s in sweeps(ctx) {
        let (sub, _events) = run_sweep(ctx, &s); // crashes while parsing are C04's business; they are counted in the histogram
        subs.push(sub);
    }
    subs.push(run_assets(ctx, "assets"));
    subs.push(crate::corpus::run_shared(ctx, "corpus", &["C01", "C16"]));
    for s in &subs {
        if s.acc.nontrivial == 0 && s.name != "unknown-types" {
            crate::ctx::machinery(&format!("sub-check {} accepted no input: vacuous", s.name));
        }
    }
    ctx.finish(
        "exploration",
        subs,
        &[
            "the reference codec (vlib::refhdr) lays packages out as documented in rpm's file-format manual",
            "headers with more than 3 hand-enumerated entries are covered only by the corpus and the assets",
            "a panic, abort or hang while parsing counts as 'not accepted' here and is reported by C04",
        ],
        vec![],
    )
}

pub fn replay(_ctx: &Ctx, v: &Value) -> i32 {
    replay_bytes(v, &|x, acc| {
        let case = || json!({});
        if let Some(p) = oracle_roundtrip("replay", x, 0, &case, acc) {
            oracle_offsets("replay", &p, 0, &case, acc);
        }
    })
}
