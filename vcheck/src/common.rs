//! Helpers shared by several property checks.
#![allow(dead_code)]
use serde_json::Value;
use vlib::report::{Acc, Violation};

pub fn merge(v: Vec<Acc>) -> Acc {
    Acc::merge_all(v)
}

/// Report a caught panic as a violation with a stable cause key.
pub fn panic_violation(sub: &str, p: &vlib::report::Panic, case: Value) -> Violation {
    Violation::new(sub, format!("panic at {}", p.at), case)
        .sig("clause", "no-panic")
        .sig("panic_file", p.file())
}
