//! Helpers shared by several property checks.
#![allow(dead_code)]
use serde_json::Value;
use vlib::report::{Acc, Violation};

pub fn merge(v: Vec<Acc>) -> Acc {
    Acc::merge_all(v)
}

/// Report a caught panic as a violation with a stable cause key.
pub fn panic_violation(sub: &str, p: &vlib::report::Panic, case: Value) -> Violation {
    Violation::new(sub, format!("panic at {}", p.at), case)
        .sig("clause", "no-panic")
        .sig("panic_file", p.file())
}

/// Generic replay of a case that carries `bytes_hex` (or an asset path).
pub fn replay_bytes(v: &Value, f: &dyn Fn(&[u8], &mut Acc)) -> i32 {
    let c = &v["case"];
    let bytes = if let Some(h) = c["bytes_hex"].as_str() {
        vlib::unhex(h).unwrap_or_else(|| crate::ctx::machinery("bad hex in replay file"))
    } else if let Some(a) = c["asset"].as_str() {
        let mut b = std::fs::read(std::path::Path::new("/repo").join(a)).unwrap_or_else(|_| crate::ctx::machinery("cannot read asset"));
        if let Some(t) = c["truncated_to"].as_u64() {
            b.truncate(t as usize);
        }
        if let Some(t) = c["appended_bytes"].as_u64() {
            b.extend(std::iter::repeat(0x5a).take(t as usize));
        }
        b
    } else {
        println!("this case is not byte-addressed; re-run the check to re-evaluate it:\n{}", c);
        return 0;
    };
    let mut acc = Acc::new();
    f(&bytes, &mut acc);
    for (k, n) in &acc.hist {
        println!("observed: {} x{}", k, n);
    }
    for v in acc.viols.values() {
        println!("REPRODUCED {}: {}", v.key(), v.what);
    }
    if acc.viols.is_empty() {
        println!("not reproduced (case passes)");
        0
    } else {
        1
    }
}
