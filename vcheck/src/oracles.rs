//! Oracles that apply to *any* package bytes (used on enumerated inputs and on the
//! shared corpus of built / signed / asset packages): C01 byte round trip,
//! C16 segment offsets, C03 digest verdict.
#![allow(dead_code)]
use md5::Md5;
use rpm::{Package, PackageMetadata};
use serde_json::{json, Value};
use sha1::Sha1;
use sha2::{Digest, Sha256};
use vlib::refhdr::{self, scan_opts, value, RawHeader, Val};
use vlib::report::{catch, Acc, Panic, Violation};

pub fn parse_pkg(b: &[u8]) -> Result<Result<Package, String>, Panic> {
    catch(|| Package::parse(&mut &b[..]).map_err(|e| err_kind(&e)))
}

pub fn parse_meta(b: &[u8]) -> Result<Result<PackageMetadata, String>, Panic> {
    catch(|| PackageMetadata::parse(&mut &b[..]).map_err(|e| err_kind(&e)))
}

pub fn write_pkg(p: &Package) -> Result<Vec<u8>, String> {
    let mut o = Vec::new();
    p.write(&mut o).map_err(|e| e.to_string())?;
    Ok(o)
}

/// Error variant name (identity of errors is not compared, only classified for the histogram).
pub fn err_kind(e: &rpm::Error) -> String {
    let d = format!("{:?}", e);
    d.split(|c: char| !c.is_alphanumeric()).next().unwrap_or("Error").to_string()
}

pub fn hexcase(b: &[u8]) -> Value {
    json!({"bytes_hex": vlib::hex(b)})
}

fn region_of(i: usize, l: &refhdr::Layout, len: usize) -> &'static str {
    if i < 96 {
        "lead"
    } else if i < l.sig_off + 16 {
        "sig-intro"
    } else if i < l.pad_off {
        "sig-index-or-store"
    } else if i < l.hdr_off {
        "sig-padding"
    } else if i < l.hdr_off + 16 {
        "hdr-intro"
    } else if i < l.payload_off {
        "hdr-index-or-store"
    } else if i < len {
        "payload"
    } else {
        "past-end"
    }
}

/// C01: for an accepted input x, W(P(x)) == x except reserved/padding bytes (input byte
/// or zero), P(W(P(x))) == P(x) and W of that == W(P(x)); same for PackageMetadata.
/// Returns Some(parsed) if the parser accepted.
pub fn oracle_roundtrip(sub: &str, x: &[u8], rank: u64, case: &dyn Fn() -> Value, acc: &mut Acc) -> Option<Package> {
    let p = match parse_pkg(x) {
        Err(_) => {
            acc.count("parse: panic (C04's business)");
            return None;
        }
        Ok(Err(k)) => {
            acc.count(&format!("rejected: {}", k));
            return None;
        }
        Ok(Ok(p)) => p,
    };
    let mut bad = |clause: &str, region: &str, what: String| {
        acc.viol(Violation::new(sub, what, case()).sig("clause", clause).sig("region", region).rank(rank));
    };
    let w = match catch(|| write_pkg(&p)) {
        Err(pn) => {
            bad("write-panics", "", format!("write of an accepted package panics at {}", pn.at));
            return Some(p);
        }
        Ok(Err(e)) => {
            bad("write-fails", "", format!("write of an accepted package fails: {}", e));
            return Some(p);
        }
        Ok(Ok(w)) => w,
    };
    // where may the output differ?
    let lay = scan_opts(x, false).map(|t| t.3);
    match &lay {
        None => bad("layout", "", "parser accepted an input whose declared structure cannot be followed".into()),
        Some(l) => {
            if w.len() != x.len() {
                bad("bytes-differ", "length", format!("input has {} bytes, written package {}", x.len(), w.len()));
            } else {
                for i in 0..x.len() {
                    if w[i] != x[i] {
                        let reserved = (i >= l.sig_off + 4 && i < l.sig_off + 8) || (i >= l.hdr_off + 4 && i < l.hdr_off + 8) || (i >= l.pad_off && i < l.pad_off + l.pad_len);
                        if !(reserved && w[i] == 0) {
                            bad(
                                "bytes-differ",
                                region_of(i, l, x.len()),
                                format!("byte {} ({}) is {:#04x} in the input and {:#04x} after parse+write", i, region_of(i, l, x.len()), x[i], w[i]),
                            );
                            break;
                        }
                    }
                }
            }
        }
    }
    // the written bytes do not depend on the sink's appetite, including sinks with vectored writes
    for chunk in [5usize, 4096] {
        let mut sm = Small { out: vec![], chunk };
        match catch(|| p.write(&mut sm)) {
            Ok(Ok(())) if sm.out == w => {}
            Ok(Ok(())) => bad("bytes-depend-on-sink", "", format!("a sink taking {} bytes per (vectored) call received {} bytes, a Vec {}", chunk, sm.out.len(), w.len())),
            _ => bad("bytes-depend-on-sink", "", format!("writing to a sink taking {} bytes per call fails", chunk)),
        }
    }
    // a clone is the same package
    match catch(|| write_pkg(&p.clone())) {
        Ok(Ok(wc)) if wc == w => {}
        _ => bad("clone-differs", "", "a clone of the parsed package does not write the same bytes".into()),
    }
    // fixpoint
    match parse_pkg(&w) {
        Ok(Ok(p2)) => {
            if p2.metadata != p.metadata || p2.content != p.content {
                bad("fixpoint-value", "", "written bytes parse to a different value".into());
            }
            match write_pkg(&p2) {
                Ok(w2) if w2 == w => {}
                _ => bad("fixpoint-bytes", "", "second write differs from the first".into()),
            }
        }
        _ => bad("fixpoint-parse", "", "written bytes are not accepted by the parser".into()),
    }
    // metadata-only API
    match parse_meta(x) {
        Ok(Ok(m)) => {
            if m != p.metadata {
                bad("metadata-parse", "", "PackageMetadata::parse differs from Package::parse".into());
            }
            let mut mw = vec![];
            if m.write(&mut mw).is_err() || w.len() < mw.len() || mw[..] != w[..mw.len()] || mw.len() + p.content.len() != w.len() {
                bad("metadata-write", "", "PackageMetadata::write is not the metadata prefix of Package::write".into());
            }
        }
        _ => bad("metadata-parse", "", "PackageMetadata::parse rejects what Package::parse accepts".into()),
    }
    acc.count("accepted");
    Some(p)
}

/// A sink that takes at most `chunk` bytes per call — also per *vectored* call, across slice boundaries.
pub struct Small {
    pub out: Vec<u8>,
    pub chunk: usize,
}

impl std::io::Write for Small {
    fn write(&mut self, b: &[u8]) -> std::io::Result<usize> {
        let n = b.len().min(self.chunk);
        self.out.extend_from_slice(&b[..n]);
        Ok(n)
    }
    fn write_vectored(&mut self, bufs: &[std::io::IoSlice<'_>]) -> std::io::Result<usize> {
        let mut budget = self.chunk;
        let mut n = 0;
        for b in bufs {
            let k = b.len().min(budget);
            self.out.extend_from_slice(&b[..k]);
            n += k;
            budget -= k;
            if budget == 0 {
                break;
            }
        }
        Ok(n)
    }
    fn flush(&mut self) -> std::io::Result<()> {
        Ok(())
    }
}

/// C16: reported offsets are the real boundaries in W(p).
pub fn oracle_offsets(sub: &str, p: &Package, rank: u64, case: &dyn Fn() -> Value, acc: &mut Acc) {
    let mut bad = |clause: &str, what: String| {
        acc.viol(Violation::new(sub, what, case()).sig("clause", clause).rank(rank));
    };
    let r = catch(|| (p.metadata.get_package_segment_offsets(), write_pkg(p)));
    let (o, w) = match r {
        Err(pn) => return bad("no-panic", format!("panic at {}", pn.at)),
        Ok((_, Err(e))) => return bad("write", e),
        Ok((o, Ok(w))) => (o, w),
    };
    // the same bytes must come out whatever the sink's appetite (the offsets describe "the" written bytes)
    for chunk in [1usize, 3, 4096] {
        let mut sm = Small { out: vec![], chunk };
        match catch(|| p.write(&mut sm)) {
            Ok(Ok(())) if sm.out == w => {}
            Ok(Ok(())) => {
                let at = sm.out.iter().zip(w.iter()).position(|(a, b)| a != b).unwrap_or(sm.out.len().min(w.len()));
                bad("written-bytes-depend-on-sink", format!("a sink taking {} byte(s) per call received {} bytes, a Vec {}; first difference at {} (segments after it no longer start at the reported offsets)", chunk, sm.out.len(), w.len(), at));
            }
            _ => bad("written-bytes-depend-on-sink", format!("writing to a sink taking {} byte(s) per call fails", chunk)),
        }
    }
    // independent scan of the written bytes
    let Some((_, _, _, l)) = scan_opts(&w, false) else {
        return bad("scan", "written package cannot be scanned".into());
    };
    if o.lead != 0 {
        bad("lead", format!("lead offset {}", o.lead));
    }
    if o.signature_header != 96 || o.signature_header as usize != l.sig_off {
        bad("signature_header", format!("reported {} real {}", o.signature_header, l.sig_off));
    }
    if o.header as usize != l.hdr_off {
        bad("header", format!("reported {} real {} (sig store {} bytes)", o.header, l.hdr_off, l.sig_len));
    }
    if o.payload as usize != l.payload_off {
        bad("payload", format!("reported {} real {}", o.payload, l.payload_off));
    }
    if !(o.lead < o.signature_header && o.signature_header < o.header && o.header < o.payload) {
        bad("increasing", format!("{:?}", o));
    }
    let magic_at = |off: u64| w.get(off as usize..off as usize + 3).map(|m| m == refhdr::HEADER_MAGIC).unwrap_or(false);
    if !magic_at(o.signature_header) || !magic_at(o.header) {
        bad("intro-magic", "no header intro at a reported header offset".into());
    }
    if (w.len() as u64).checked_sub(o.payload) != Some(p.content.len() as u64) {
        bad("payload-length", format!("len {} - payload {} != content {}", w.len(), o.payload, p.content.len()));
    }
}

/// For packages the library emitted: the payload really starts at the reported payload offset — the bytes there open
/// with the magic number of the compressor the header names (or with a cpio entry header), so an offset that is consistent
/// with the intro fields but not with where the archive was written is noticed.
pub fn oracle_payload_start(sub: &str, p: &Package, rank: u64, case: &dyn Fn() -> Value, acc: &mut Acc) {
    let Ok((o, Ok(w))) = catch(|| (p.metadata.get_package_segment_offsets(), write_pkg(p))) else { return };
    let Some((_, _, hdr, _)) = scan_opts(&w, false) else { return };
    let comp = hdr.entries.iter().skip(1).find(|e| e.tag == 1125).and_then(|e| refhdr::value(e, &hdr.store).ok());
    let magic: &[u8] = match comp {
        Some(refhdr::Val::Str(s)) => match &s[..] {
            b"gzip" => &[0x1f, 0x8b],
            b"zstd" => &[0x28, 0xb5, 0x2f, 0xfd],
            b"xz" => &[0xfd, 0x37, 0x7a, 0x58, 0x5a, 0x00],
            b"bzip2" => b"BZh",
            _ => return,
        },
        None => b"0707",
        _ => return,
    };
    let at = w.get(o.payload as usize..).unwrap_or(&[]);
    if at.is_empty() {
        return;
    }
    if !at.starts_with(magic) {
        // where does it start, then?
        let real = (o.header as usize..w.len().saturating_sub(magic.len())).find(|i| w[*i..].starts_with(magic));
        acc.viol(
            Violation::new(sub, format!("the payload does not start at the reported payload offset {}: the bytes there are {:02x?}, the archive ({:02x?}…) was written at {:?}", o.payload, &at[..at.len().min(6)], magic, real), case())
                .sig("clause", "payload-start")
                .rank(rank),
        );
    }
}

// ---------------------------------------------------------------- digests (C03)

pub fn sha256_hex(b: &[u8]) -> String {
    hex::encode(Sha256::digest(b))
}
pub fn sha1_hex(b: &[u8]) -> String {
    hex::encode(Sha1::digest(b))
}
pub fn md5_raw(parts: &[&[u8]]) -> Vec<u8> {
    let mut h = Md5::new();
    for p in parts {
        h.update(p);
    }
    h.finalize().to_vec()
}

pub const SIGTAG_MD5: u32 = 1004;
pub const SIGTAG_SHA1: u32 = 269;
pub const SIGTAG_SHA256: u32 = 273;
pub const TAG_PAYLOADDIGEST: u32 = 5092;
pub const TAG_PAYLOADDIGESTALGO: u32 = 5093;
pub const TAG_PAYLOADDIGESTALT: u32 = 5097;

#[derive(Debug, Clone, PartialEq, Eq)]
pub enum DigestVerdict {
    Ok,
    Mismatch,
    /// a payload digest is recorded with an algorithm other than SHA-256
    Unsupported,
    /// header digest mismatch *and* unsupported payload algorithm: either error is fine
    MismatchOrUnsupported,
    /// a digest is recorded in its standard tag with an unusual data type and does NOT match: whatever the
    /// library makes of the type, the answer must not be "all digests match"
    NotOk,
    /// shape the property does not define (digest tag with a non-standard type, …)
    Undefined(&'static str),
}

/// Canonical serialisation of a header: what the library hashes (reserved bytes zero).
pub fn canonical(h: &RawHeader) -> Vec<u8> {
    let mut c = h.clone();
    c.reserved = [0; 4];
    c.magic = refhdr::HEADER_MAGIC;
    c.version = 1;
    c.encode()
}

/// What the digests recorded in `x` (independently decoded) say about `x`.
pub fn expected_digest_verdict(x: &[u8]) -> DigestVerdict {
    let Some((_, sig, hdr, l)) = scan_opts(x, false) else {
        return DigestVerdict::Undefined("unscannable");
    };
    let hbytes = canonical(&hdr);
    let payload = &x[l.payload_off..];
    let mut mismatch = false;
    // every entry must be decodable, otherwise the header is not well formed
    for (h, _n) in [(&sig, "sig"), (&hdr, "hdr")] {
        for e in &h.entries {
            if value(e, &h.store).is_err() {
                return DigestVerdict::Undefined("ill-formed entry");
            }
        }
    }
    let first = |h: &RawHeader, tag: u32| h.entries.iter().find(|e| e.tag == tag).map(|e| value(e, &h.store).unwrap());
    match first(&sig, SIGTAG_MD5) {
        None => {}
        Some(Val::Bin(d)) => {
            if d != md5_raw(&[&hbytes, payload]) {
                mismatch = true;
            }
        }
        Some(_) => return DigestVerdict::Undefined("MD5 tag with non-binary type"),
    }
    match first(&sig, SIGTAG_SHA1) {
        None => {}
        Some(Val::Str(d)) => {
            if d != sha1_hex(&hbytes).as_bytes() {
                mismatch = true;
            }
        }
        Some(_) => return DigestVerdict::Undefined("SHA1 tag with non-string type"),
    }
    match first(&sig, SIGTAG_SHA256) {
        None => {}
        Some(Val::Str(d)) => {
            if d != sha256_hex(&hbytes).as_bytes() {
                mismatch = true;
            }
        }
        Some(_) => return DigestVerdict::Undefined("SHA256 tag with non-string type"),
    }
    let pd = first(&hdr, TAG_PAYLOADDIGEST);
    let pa = first(&hdr, TAG_PAYLOADDIGESTALGO);
    let mut unsupported = false;
    match (pd, pa) {
        (None, None) => {}
        (Some(Val::StrArray(d)), Some(Val::Int32(a))) => {
            if d.is_empty() || a.is_empty() {
                return DigestVerdict::Undefined("empty payload digest / algorithm array");
            }
            if a[0] != 8 {
                unsupported = true;
            } else if d[0] != sha256_hex(payload).as_bytes() {
                mismatch = true;
            }
        }
        (Some(Val::I18n(d)), alg) => {
            // a payload digest stored as I18NSTRING: not defined when it is right, but a wrong one must not pass
            let a_ok = matches!(&alg, Some(Val::Int32(a)) if a.first() == Some(&8));
            if a_ok && !d.is_empty() && d[0] != sha256_hex(payload).as_bytes() && !mismatch {
                return DigestVerdict::NotOk;
            }
            return DigestVerdict::Undefined("payload digest as i18n");
        }
        (Some(_), None) | (None, Some(_)) => return DigestVerdict::Undefined("payload digest without algorithm (or vice versa)"),
        _ => return DigestVerdict::Undefined("payload digest tags with non-standard types"),
    }
    match (mismatch, unsupported) {
        (false, false) => DigestVerdict::Ok,
        (true, false) => DigestVerdict::Mismatch,
        (false, true) => DigestVerdict::Unsupported,
        (true, true) => DigestVerdict::MismatchOrUnsupported,
    }
}

#[derive(Debug, Clone, PartialEq, Eq)]
pub enum Observed {
    Ok,
    Mismatch,
    OtherErr(String),
    Panic(String),
}

pub fn observe_digests(p: &Package) -> (Observed, Option<Panic>) {
    match catch(|| p.verify_digests()) {
        Err(pn) => (Observed::Panic(pn.file()), Some(pn)),
        Ok(Ok(())) => (Observed::Ok, None),
        Ok(Err(rpm::Error::DigestMismatchError)) => (Observed::Mismatch, None),
        Ok(Err(e)) => (Observed::OtherErr(err_kind(&e)), None),
    }
}

/// C03 on an accepted package: verify_digests agrees with the reference verdict.
pub fn oracle_digests(sub: &str, x: &[u8], p: &Package, rank: u64, case: &dyn Fn() -> Value, acc: &mut Acc) -> DigestVerdict {
    let want = expected_digest_verdict(x);
    let (got, pn) = observe_digests(p);
    let agree = match (&want, &got) {
        (DigestVerdict::Undefined(_), Observed::Panic(_)) => true, // C04's business, not judged here
        (DigestVerdict::Undefined(_), _) => true,
        (DigestVerdict::Ok, Observed::Ok) => true,
        (DigestVerdict::NotOk, Observed::Ok) => false,
        (DigestVerdict::NotOk, _) => true,
        (DigestVerdict::Mismatch, Observed::Mismatch) => true,
        (DigestVerdict::Unsupported, Observed::OtherErr(_)) => true,
        (DigestVerdict::Unsupported, Observed::Mismatch) => false,
        (DigestVerdict::MismatchOrUnsupported, Observed::Mismatch) => true,
        (DigestVerdict::MismatchOrUnsupported, Observed::OtherErr(_)) => true,
        _ => false,
    };
    acc.count(&format!("reference {:?} / library {:?}", want, got));
    if !agree {
        let mut v = Violation::new(sub, format!("reference verdict {:?}, verify_digests gave {:?}", want, got), case())
            .sig("clause", "digest-verdict")
            .sig("expected", format!("{:?}", want))
            .sig("observed", match &got {
                Observed::Panic(f) => format!("panic:{}", f),
                Observed::OtherErr(_) => "other-error".into(),
                o => format!("{:?}", o),
            })
            .rank(rank);
        if let Some(pn) = pn {
            v.what.push_str(&format!(" (panic at {})", pn.at));
        }
        acc.viol(v);
    }
    want
}

/// The path-based entry points must behave like the reader/writer based ones:
/// `Package::open` / `PackageMetadata::open` like `parse` on the file's bytes, `write_file` like `write`.
pub fn oracle_file_api(sub: &str, x: &[u8], rank: u64, case: &dyn Fn() -> Value, acc: &mut Acc) {
    let dir = crate::ctx::run_dir().join(format!("fileapi-{}-{:?}", std::process::id(), std::thread::current().id()));
    let _ = std::fs::create_dir_all(&dir);
    let inp = dir.join("in.rpm");
    let out = dir.join("out.rpm");
    if std::fs::write(&inp, x).is_err() {
        crate::ctx::machinery("file api: cannot write the scratch input");
    }
    let by_reader = parse_pkg(x);
    let by_path = catch(|| rpm::Package::open(&inp));
    let meta_by_path = catch(|| rpm::PackageMetadata::open(&inp));
    let mut bad = |clause: &str, what: String| acc.viol(Violation::new(sub, what, case()).sig("clause", clause).rank(rank));
    match (&by_reader, &by_path) {
        (Ok(Ok(a)), Ok(Ok(b))) => {
            let (wa, wb) = (write_pkg(a), write_pkg(b));
            if wa.is_err() || wa != wb {
                bad("open-differs-from-parse", "Package::open(path) gives a different package than Package::parse on the same bytes".into());
            }
            // the destination and the usual temporary-file names next to it already exist and are longer than the package
            let junk = vec![0xa5u8; wa.as_ref().map(|v| v.len()).unwrap_or(0) + 1000];
            for name in ["out.rpm", "out.rpm.tmp", "out.rpm~", "out.rpm.part", "out.rpm.new", "out.tmp", ".out.rpm.tmp", ".out.rpm.swp"] {
                let _ = std::fs::write(dir.join(name), &junk);
            }
            match catch(|| b.write_file(&out)) {
                Ok(Ok(())) => {
                    let got = std::fs::read(&out).unwrap_or_default();
                    if Ok(&got) != wa.as_ref() {
                        bad("write_file-differs-from-write", format!("write_file produced {} bytes that differ from what write produces ({} bytes)", got.len(), wa.as_ref().map(|v| v.len()).unwrap_or(0)));
                    }
                }
                other => bad("write_file-fails", format!("write_file: {:?}", other.map(|r| r.map_err(|e| e.to_string())).map_err(|p| p.location()))),
            }
            match meta_by_path {
                Ok(Ok(m)) => {
                    let mut o = vec![];
                    let mut want = vec![];
                    if m.write(&mut o).is_err() || a.metadata.write(&mut want).is_err() || o != want {
                        bad("metadata-open-differs", "PackageMetadata::open(path) differs from the metadata of the parsed package".into());
                    }
                }
                other => bad("metadata-open-fails", format!("PackageMetadata::open fails on a file Package::parse accepts: {:?}", other.map(|r| r.map(|_| ()).map_err(|e| e.to_string())).map_err(|p| p.location()))),
            }
        }
        (Ok(Err(_)), Ok(Err(_))) => {}
        (Err(_), _) | (_, Err(_)) => {} // panics are C04's business
        (Ok(Ok(_)), Ok(Err(e))) => bad("open-rejects", format!("Package::open rejects a file whose bytes Package::parse accepts: {}", e)),
        (Ok(Err(e)), Ok(Ok(_))) => bad("open-accepts", format!("Package::open accepts a file whose bytes Package::parse rejects: {}", e)),
    }
    // the same bytes delivered through a named pipe: a path whose stat size says nothing about its content
    if let Ok(Ok(a)) = &by_reader {
        for meta_only in [false, true] {
            let fifo = dir.join(if meta_only { "pipe-m" } else { "pipe-p" });
            let c = std::ffi::CString::new(fifo.to_string_lossy().as_bytes()).expect("path");
            if unsafe { libc::mkfifo(c.as_ptr(), 0o600) } != 0 {
                crate::ctx::machinery("file api: mkfifo failed");
            }
            let data = x.to_vec();
            let fpath = fifo.clone();
            let producer = std::thread::spawn(move || {
                use std::io::Write;
                use std::os::unix::fs::OpenOptionsExt;
                // wait (bounded) for the reader to open its end, then write everything
                let t0 = std::time::Instant::now();
                loop {
                    match std::fs::OpenOptions::new().write(true).custom_flags(libc::O_NONBLOCK).open(&fpath) {
                        Ok(mut f) => {
                            unsafe {
                                let fl = libc::fcntl(std::os::fd::AsRawFd::as_raw_fd(&f), libc::F_GETFL);
                                libc::fcntl(std::os::fd::AsRawFd::as_raw_fd(&f), libc::F_SETFL, fl & !libc::O_NONBLOCK);
                            }
                            let _ = f.write_all(&data);
                            return true;
                        }
                        Err(_) if t0.elapsed().as_secs() < 5 => std::thread::sleep(std::time::Duration::from_millis(1)),
                        Err(_) => return false,
                    }
                }
            });
            let got: Result<Result<Vec<u8>, String>, _> = if meta_only {
                catch(|| rpm::PackageMetadata::open(&fifo).map_err(|e| e.to_string()).and_then(|m| { let mut o = vec![]; m.write(&mut o).map(|_| o).map_err(|e| e.to_string()) }))
            } else {
                catch(|| rpm::Package::open(&fifo).map_err(|e| e.to_string()).and_then(|p| write_pkg(&p).map_err(|_| "write failed".to_string())))
            };
            let delivered = producer.join().unwrap_or(false);
            if !delivered {
                crate::ctx::machinery("file api: the library never opened the named pipe");
            }
            let want: Vec<u8> = if meta_only { let mut o = vec![]; let _ = a.metadata.write(&mut o); o } else { write_pkg(a).unwrap_or_default() };
            match got {
                Ok(Ok(g)) if g == want => {}
                Ok(Ok(g)) => bad(if meta_only { "metadata-open-pipe-differs" } else { "open-pipe-differs" }, format!("opened through a named pipe the package writes as {} bytes, parsed from memory as {} bytes", g.len(), want.len())),
                Ok(Err(e)) => bad("open-pipe-fails", format!("open through a named pipe fails for bytes that parse from memory: {}", e)),
                Err(_) => {}
            }
        }
    }
    let _ = std::fs::remove_dir_all(&dir);
}
