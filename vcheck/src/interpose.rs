//! In-process interposition of `getrandom` and `clock_gettime` (DESIGN §2.6).
//! When a scenario is active on the calling thread, the hash seed material and
//! the wall clock are decided by the harness; otherwise both forward to the
//! raw syscalls.
use std::cell::Cell;

#[derive(Clone, Copy)]
pub struct Scenario {
    pub seed: u64,
    pub clock_secs: i64,
}

thread_local! {
    static SCEN: Cell<Option<Scenario>> = const { Cell::new(None) };
    static RAND_CALLS: Cell<u64> = const { Cell::new(0) };
    static CLOCK_CALLS: Cell<u64> = const { Cell::new(0) };
}

pub fn set(s: Option<Scenario>) {
    SCEN.with(|c| c.set(s));
    RAND_CALLS.with(|c| c.set(0));
    CLOCK_CALLS.with(|c| c.set(0));
}

pub fn calls() -> (u64, u64) {
    (RAND_CALLS.with(|c| c.get()), CLOCK_CALLS.with(|c| c.get()))
}

fn splitmix(x: &mut u64) -> u64 {
    *x = x.wrapping_add(0x9E3779B97F4A7C15);
    let mut z = *x;
    z = (z ^ (z >> 30)).wrapping_mul(0xBF58476D1CE4E5B9);
    z = (z ^ (z >> 27)).wrapping_mul(0x94D049BB133111EB);
    z ^ (z >> 31)
}

#[no_mangle]
pub unsafe extern "C" fn getrandom(buf: *mut libc::c_void, len: libc::size_t, flags: libc::c_uint) -> libc::ssize_t {
    let scen = SCEN.try_with(|c| c.get()).ok().flatten();
    match scen {
        Some(s) => {
            let n = RAND_CALLS.try_with(|c| {
                let v = c.get();
                c.set(v + 1);
                v
            }).unwrap_or(0);
            let mut st = s.seed.wrapping_mul(0x2545F4914F6CDD1D).wrapping_add(n);
            let out = std::slice::from_raw_parts_mut(buf as *mut u8, len);
            let mut i = 0;
            while i < len {
                let w = splitmix(&mut st).to_le_bytes();
                let k = (len - i).min(8);
                out[i..i + k].copy_from_slice(&w[..k]);
                i += k;
            }
            len as libc::ssize_t
        }
        None => libc::syscall(libc::SYS_getrandom, buf, len, flags) as libc::ssize_t,
    }
}

#[no_mangle]
pub unsafe extern "C" fn clock_gettime(clk: libc::clockid_t, ts: *mut libc::timespec) -> libc::c_int {
    if clk == libc::CLOCK_REALTIME {
        if let Some(s) = SCEN.try_with(|c| c.get()).ok().flatten() {
            let _ = CLOCK_CALLS.try_with(|c| c.set(c.get() + 1));
            (*ts).tv_sec = s.clock_secs as libc::time_t;
            (*ts).tv_nsec = 123_456_789;
            return 0;
        }
    }
    libc::syscall(libc::SYS_clock_gettime, clk, ts) as libc::c_int
}

/// Start-up self test: both interpositions must take effect on a fresh thread.
pub fn self_test() -> Result<(), String> {
    let h = std::thread::spawn(|| {
        set(Some(Scenario { seed: 42, clock_secs: 1_234_567_890 }));
        let now = std::time::SystemTime::now()
            .duration_since(std::time::UNIX_EPOCH)
            .map(|d| d.as_secs())
            .unwrap_or(0);
        let mut hs = std::collections::HashSet::new();
        for i in 0..6u32 {
            hs.insert(format!("u{}", i));
        }
        let order: Vec<String> = hs.into_iter().collect();
        let c = calls();
        set(None);
        (now, order, c)
    });
    let (now, order1, calls1) = h.join().map_err(|_| "self-test thread panicked".to_string())?;
    if now != 1_234_567_890 {
        return Err(format!("clock interposition inactive (SystemTime::now() = {})", now));
    }
    if calls1.0 == 0 {
        return Err("getrandom interposition inactive (no call seen for a new thread's RandomState)".into());
    }
    // same seed ⇒ same order; some other seed ⇒ a different order exists
    let run = |seed: u64| {
        std::thread::spawn(move || {
            set(Some(Scenario { seed, clock_secs: 1 }));
            let mut hs = std::collections::HashSet::new();
            for i in 0..6u32 {
                hs.insert(format!("u{}", i));
            }
            let o: Vec<String> = hs.into_iter().collect();
            set(None);
            o
        })
        .join()
        .unwrap()
    };
    if run(42) != order1 {
        return Err("same hash seed gave a different iteration order".into());
    }
    if !(0..32).any(|s| run(s) != order1) {
        return Err("hash seed has no influence on iteration order".into());
    }
    Ok(())
}
