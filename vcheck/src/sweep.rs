//! Sweeps over untrusted input run in crash/hang-isolating worker processes
//! (DESIGN §2.5). A `Sweep` is a finite, index-addressed case list; the parent
//! shards it over workers, each worker rebuilds the same list and runs its share.
use crate::ctx::Ctx;
use serde_json::json;
use std::time::Duration;
use vlib::report::{Acc, SubReport};
use vlib::worker::{run_pool, worker_loop, Event};

pub struct Sweep {
    pub name: String,
    pub rule: String,
    pub n: u64,
    pub case: Box<dyn Fn(u64, &mut Acc) + Sync>,
    pub exhaustive: bool,
    /// environment variables the worker process sets before running any case (e.g. a non-C locale)
    pub env: Vec<(String, String)>,
}

impl Sweep {
    pub fn new(name: &str, rule: String, n: u64, case: impl Fn(u64, &mut Acc) + Sync + 'static) -> Sweep {
        Sweep {
            name: name.to_string(),
            rule,
            n,
            case: Box::new(case),
            exhaustive: true,
            env: vec![],
        }
    }
    pub fn with_env(mut self, env: &[(&str, &str)]) -> Sweep {
        self.env = env.iter().map(|(k, v)| (k.to_string(), v.to_string())).collect();
        self
    }
    /// Called in a worker process before any case runs and before any other thread exists.
    pub fn apply_env(&self) {
        for (k, v) in &self.env {
            std::env::set_var(k, v);
        }
    }
}

/// A German UTF-8 locale in every variable a locale-aware lookup could consult.
pub const LOCALE_DE: [(&str, &str); 4] = [("LANG", "de_DE.UTF-8"), ("LC_ALL", "de_DE.UTF-8"), ("LC_MESSAGES", "de_DE.UTF-8"), ("LANGUAGE", "de_DE:de")];

pub const STALL: Duration = Duration::from_secs(10);
pub const WORKER_MEM_REFUSE: usize = 256 << 20;

/// Parent side: run the sweep in worker processes. Crashes / hangs are returned as
/// events attributed to the announced case; the caller decides what they mean.
pub fn run_sweep(ctx: &Ctx, s: &Sweep) -> (SubReport, Vec<Event>) {
    let args = vec!["worker".to_string(), ctx.property.clone(), s.name.clone(), ctx.tier.name().to_string()];
    let workers = vlib::par::threads();
    let r = run_pool(&ctx.exe(), &args, s.n, workers, STALL);
    let mut acc = r.acc;
    for e in &r.events {
        acc.count(&format!("worker died on a case: {}", e.kind));
    }
    let mut sub = SubReport::new(&s.name, "A (worker processes)", &s.rule, acc)
        .extra("worker_restarts", json!(r.restarts))
        .extra("domain_size", json!(s.n))
        .extra("cases_abandoned", json!(r.abandoned));
    sub.exhaustive = s.exhaustive && r.abandoned == 0;
    (sub, r.events)
}

/// Worker side.
pub fn worker_main(s: &Sweep, start: u64, stride: u64, end: u64) -> ! {
    vlib::alloc::set_refuse_above(WORKER_MEM_REFUSE);
    unsafe {
        // belt and braces: a hard address-space limit so that a runaway case cannot take the machine down
        let lim = libc::rlimit { rlim_cur: 8 << 30, rlim_max: 8 << 30 };
        libc::setrlimit(libc::RLIMIT_AS, &lim);
    }
    if end != s.n {
        eprintln!("MACHINERY: worker and parent disagree about the domain size ({} vs {})", s.n, end);
        std::process::exit(3);
    }
    s.apply_env();
    worker_loop(start, stride, end, |i, acc| (s.case)(i, acc))
}

/// Find the sweep a worker was asked for.
pub fn dispatch(sweeps: Vec<Sweep>, name: &str, start: u64, stride: u64, end: u64) -> ! {
    for s in &sweeps {
        if s.name == name {
            worker_main(s, start, stride, end);
        }
    }
    eprintln!("MACHINERY: unknown sweep {}", name);
    std::process::exit(3)
}

/// Run one case in a fresh worker (confirmation of a crash / replay).
pub fn run_single(ctx: &Ctx, s: &Sweep, index: u64) -> (SubReport, Vec<Event>) {
    let args = vec!["worker-one".to_string(), ctx.property.clone(), s.name.clone(), ctx.tier.name().to_string(), index.to_string()];
    let r = run_pool(&ctx.exe(), &args, 1, 1, STALL);
    (SubReport::new(&s.name, "A (worker processes)", &s.rule, r.acc), r.events)
}
