//! C13 — version comparison equals rpmvercmp and is a total preorder (engine A, all pairs).
use crate::common::*;
use crate::ctx::Ctx;
use rpm::{Evr, Nevra};
use serde_json::{json, Value};
use std::cmp::Ordering;
use vlib::par::{par_fold, strings_count, strings_nth};
use vlib::report::{catch, Acc, SubReport, Violation};
use vlib::vercmp::{evr_cmp, rpmvercmp};

fn all_strings(alpha: &[&str], max_len: usize) -> Vec<String> {
    let n = strings_count(alpha.len(), max_len);
    let mut out = Vec::with_capacity(n as usize);
    let mut toks = vec![];
    for i in 0..n {
        strings_nth(i, alpha.len(), &mut toks);
        out.push(toks.iter().map(|t| alpha[*t]).collect::<String>());
    }
    out
}

fn ord_name(o: Ordering) -> &'static str {
    match o {
        Ordering::Less => "Less",
        Ordering::Equal => "Equal",
        Ordering::Greater => "Greater",
    }
}

struct PairAcc {
    acc: Acc,
    score: Vec<u32>,
}

/// All ordered pairs of `items` under `cmp`, against `reference` (if any) and the
/// score characterisation of a total preorder.
fn all_pairs<T: Sync>(
    name: &str,
    rule: &str,
    items: &[T],
    show: &(dyn Fn(&T) -> Value + Sync),
    cmp: &(dyn Fn(&T, &T) -> Ordering + Sync),
    reference: Option<&(dyn Fn(&T, &T) -> Ordering + Sync)>,
    eq: Option<&(dyn Fn(&T, &T) -> bool + Sync)>,
) -> SubReport {
    let n = items.len();
    // pass 1: reference agreement, eq ⇒ Equal, and score(x) = |{y : cmp(y, x) = Less}|
    let parts = par_fold(
        n as u64,
        || PairAcc { acc: Acc::new(), score: vec![0u32; n] },
        |i, pa| {
            let a = &items[i as usize];
            let r = catch(|| {
                let mut local: Vec<(usize, Ordering, Option<Ordering>, bool)> = vec![];
                let (mut l, mut e, mut g) = (0u64, 0u64, 0u64);
                for (j, b) in items.iter().enumerate() {
                    let c = cmp(a, b);
                    match c {
                        Ordering::Less => {
                            pa.score[j] += 1;
                            l += 1
                        }
                        Ordering::Equal => e += 1,
                        Ordering::Greater => g += 1,
                    }
                    let rf = reference.map(|f| f(a, b));
                    let is_eq = eq.map(|f| f(a, b)).unwrap_or(false);
                    if rf.map(|r| r != c).unwrap_or(false) || (is_eq && c != Ordering::Equal) {
                        if local.len() < 4 {
                            local.push((j, c, rf, is_eq));
                        }
                    }
                }
                (local, l, e, g)
            });
            match r {
                Err(p) => pa.acc.viol(panic_violation(name, &p, json!({"a": show(a)}))),
                Ok((local, l, e, g)) => {
                    pa.acc.evals += n as u64;
                    pa.acc.nontrivial += n as u64 - 1;
                    pa.acc.count_n("Less", l);
                    pa.acc.count_n("Equal", e);
                    pa.acc.count_n("Greater", g);
                    for (j, c, rf, is_eq) in local {
                        let case = json!({"a": show(a), "b": show(&items[j])});
                        if let Some(rf) = rf {
                            if rf != c {
                                pa.acc.viol(
                                    Violation::new(name, format!("cmp({}, {}) = {} but rpmvercmp says {}", show(a), show(&items[j]), ord_name(c), ord_name(rf)), case.clone())
                                        .sig("clause", "equals-reference"),
                                );
                            }
                        }
                        if is_eq && c != Ordering::Equal {
                            pa.acc.viol(
                                Violation::new(name, format!("{} == {} but cmp = {}", show(a), show(&items[j]), ord_name(c)), case).sig("clause", "eq-implies-equal"),
                            );
                        }
                    }
                    if i < 3 {
                        pa.acc.sample(i, || json!({"row": show(a), "less": l, "equal": e, "greater": g}));
                    }
                }
            }
        },
    );
    let mut score = vec![0u32; n];
    let mut acc = Acc::new();
    for p in parts {
        for (s, v) in score.iter_mut().zip(p.score.iter()) {
            *s += v;
        }
        acc.merge(p.acc);
    }
    // pass 2: cmp(a, b) == score(a).cmp(score(b)) for all pairs  ⇔  total preorder
    let score_ref = &score;
    let p2 = merge(par_fold(n as u64, Acc::new, |i, acc| {
        let a = &items[i as usize];
        let r = catch(|| {
            let mut bad = None;
            for (j, b) in items.iter().enumerate() {
                let c = cmp(a, b);
                let want = score_ref[i as usize].cmp(&score_ref[j]);
                if c != want && bad.is_none() {
                    bad = Some((j, c, want));
                }
            }
            bad
        });
        acc.evals += n as u64;
        match r {
            Err(p) => acc.viol(panic_violation(name, &p, json!({"a": show(a)}))),
            Ok(Some((j, c, want))) => acc.viol(
                Violation::new(
                    name,
                    format!(
                        "not a total preorder: cmp({}, {}) = {} but the ranks (number of strictly smaller elements) order them {}",
                        show(a), show(&items[j]), ord_name(c), ord_name(want)
                    ),
                    json!({"a": show(a), "b": show(&items[j]), "rank_a": score_ref[i as usize], "rank_b": score_ref[j]}),
                )
                .sig("clause", "total-preorder"),
            ),
            Ok(None) => {}
        }
    }));
    acc.merge(p2);
    let mut classes = score.clone();
    classes.sort();
    classes.dedup();
    SubReport::new(name, "A", rule, acc)
        .extra("items", json!(n))
        .extra("equivalence_classes", json!(classes.len()))
}

const SIGMA: [&str; 12] = ["0", "1", "2", "a", "b", "A", ".", "-", "_", "~", "^", "é"];

/// Very long strings, in worker processes (a comparison that recurses per character or per marker dies with a stack
/// overflow, which an in-process check could not report).
pub fn sweeps(_ctx: &Ctx) -> Vec<crate::sweep::Sweep> {
    let units = ["~", "^", "1", "0", "a", ".", "1.", "a1", "~1", "^a", "-", "é"];
    let lens = [1_000usize, 30_000, 300_000];
    let tails = ["", "1", "a", "~", "2"];
    // items: unit repeated n times + tail; all ordered pairs of items that share a unit and a length (long common prefixes),
    // plus each long item against a few short strings
    let mut items: Vec<(usize, usize, usize)> = vec![];
    for u in 0..units.len() {
        for l in 0..lens.len() {
            for t in 0..tails.len() {
                items.push((u, l, t));
            }
        }
    }
    let nt = tails.len() as u64;
    let n = (units.len() * lens.len()) as u64 * nt * (nt + 3);
    vec![crate::sweep::Sweep::new("long-runs", format!("strings made of {} repetitions of each of {:?} followed by each of {:?}: every ordered pair of two such strings with the same unit and length (common prefixes of up to 600 000 bytes), and each of them against \"\", \"1\" and the unit itself, through Evr::cmp and rpm_evr_compare; oracle = the rpmvercmp port; run in worker processes so that a stack overflow or a stall is observed and reported", lens.iter().map(|l| l.to_string()).collect::<Vec<_>>().join(" / "), units, tails), n, move |i, acc| {
        let group = i / (nt * (nt + 3));
        let (u, l) = ((group / lens.len() as u64) as usize, (group % lens.len() as u64) as usize);
        let within = i % (nt * (nt + 3));
        let (ta, other) = ((within / (nt + 3)) as usize, within % (nt + 3));
        let mk = |t: usize| format!("{}{}", units[u].repeat(lens[l]), tails[t]);
        let a = mk(ta);
        let b = if other < nt { mk(other as usize) } else { ["".to_string(), "1".to_string(), units[u].to_string()][(other - nt) as usize].clone() };
        acc.evals += 1;
        let case = || json!({"a": format!("{:?} × {} + {:?}", units[u], lens[l], tails[ta]), "b": if other < nt { format!("{:?} × {} + {:?}", units[u], lens[l], tails[other as usize]) } else { format!("{:?}", b) }});
        let r = catch(|| (Evr::new("", a.as_str(), "").cmp(&Evr::new("", b.as_str(), "")), rpm::rpm_evr_compare(&a, &b), Evr::new("", b.as_str(), "").cmp(&Evr::new("", a.as_str(), ""))));
        match r {
            Err(p) => acc.viol(panic_violation("long-runs", &p, case()).rank(i)),
            Ok((ab, s_ab, ba)) => {
                acc.nontrivial += 1;
                let want = rpmvercmp(a.as_bytes(), b.as_bytes());
                acc.count(&format!("{:?}", want));
                if ab != want || ba != want.reverse() {
                    acc.viol(Violation::new("long-runs", format!("cmp gives {:?} / swapped {:?}, rpmvercmp says {:?}", ab, ba, want), case()).sig("clause", "equals-reference").rank(i));
                }
                // the string entry point splits at the first ':' and '-': only compare when the texts contain neither
                if !a.contains(['-', ':']) && !b.contains(['-', ':']) && s_ab != want {
                    acc.viol(Violation::new("long-runs", format!("rpm_evr_compare gives {:?}, rpmvercmp says {:?}", s_ab, want), case()).sig("clause", "equals-reference").rank(i));
                }
            }
        }
    })]
}

pub fn run(ctx: &Ctx) -> i32 {
    let mut subs = vec![];
    for s in sweeps(ctx) {
        let (mut sub, events) = crate::sweep::run_sweep(ctx, &s);
        for e in &events {
            sub.acc.viol(
                Violation::new(&s.name, format!("worker {} on case {}: {}", e.kind, e.index, e.stderr_tail.lines().last().unwrap_or("")), json!({"sweep": s.name, "index": e.index}))
                    .sig("clause", if e.kind == "hang" { "no-hang" } else { "no-abort" })
                    .rank(e.index),
            );
        }
        subs.push(sub);
    }
    let lib_cmp = |a: &String, b: &String| Evr::new("", a.as_str(), "").cmp(&Evr::new("", b.as_str(), ""));
    let ref_cmp = |a: &String, b: &String| rpmvercmp(a.as_bytes(), b.as_bytes());
    let show = |a: &String| json!(a);
    let mut plans: Vec<(&str, Vec<&str>, usize)> = vec![("strings-L3", SIGMA.to_vec(), 3), ("strings-L5-reduced", vec!["0", "1", "a", ".", "~", "^"], 5)];
    if ctx.thorough() {
        plans = vec![
            ("strings-L4", SIGMA.to_vec(), 4),
            ("strings-L6-reduced", vec!["0", "1", "a", ".", "~", "^"], 6),
            ("strings-L5-mid", vec!["0", "1", "a", "A", ".", "~", "^", "-"], 5),
            ("strings-L8-tiny", vec!["1", "a", "~", "^"], 8),
        ];
    }
    for (name, alpha, l) in plans {
        let items = all_strings(&alpha, l);
        let rule = format!(
            "all ordered pairs of all {} strings of length ≤ {} over {:?} through Evr::cmp (version component); oracle = rpmvercmp port + rank characterisation of a total preorder (decides all triples); non-trivial = pair of different strings",
            items.len(), l, alpha
        );
        subs.push(all_pairs(name, &rule, &items, &show, &lib_cmp, Some(&ref_cmp), None));
    }

    // characters that Unicode calls numeric or alphabetic but rpm treats as separators
    {
        let alpha = vec!["1", "2", "a", ".", "٣", "²", "１", "é", "Ａ"];
        let l = if ctx.thorough() { 4 } else { 3 };
        let items = all_strings(&alpha, l);
        let rule = format!("all ordered pairs of all {} strings of length ≤ {} over {:?} (Arabic-Indic digit, superscript two, full-width one and A: none of them is an ASCII digit or letter, all are separators to rpm); same oracles", items.len(), l, alpha);
        subs.push(all_pairs("strings-unicode-digits", &rule, &items, &show, &lib_cmp, Some(&ref_cmp), None));
    }

    // segment lengths: letters and digits in runs of every length around the sizes of machine words and small buffers
    {
        let lens: Vec<usize> = (1..=40).chain([63, 64, 65, 127, 128, 129, 255, 256, 257]).collect();
        let mut items: Vec<String> = vec![];
        for (u, last) in [("a", "b"), ("7", "8"), ("0", "1")] {
            for l in &lens {
                items.push(u.repeat(*l));
                items.push(format!("{}{}", u.repeat(*l - 1), last));
                items.push(format!("{}.{}", u.repeat(*l), last));
            }
        }
        let rule = format!("all ordered pairs of {} strings: runs of a letter, of a non-zero digit and of zeros of every length 1..40 and 63…65, 127…129, 255…257 — plain, with the last character changed, and followed by a further segment (segments that differ only behind the 16th, 32nd, 64th … character; numbers beyond 64 and 128 bits)", items.len());
        subs.push(all_pairs("segment-lengths", &rule, &items, &show, &lib_cmp, Some(&ref_cmp), None));
    }

    // the whole character domain: every Unicode scalar value (except NUL, §9) in each role a character can play
    {
        use vlib::par::par_fold;
        let acc = vlib::report::Acc::merge_all(par_fold(0x11_0000, Acc::new, |cp, acc| {
            let Some(c) = char::from_u32(cp as u32) else { return };
            if cp == 0 {
                return;
            }
            for (a, b) in [
                (format!("1{}2", c), "1.2".to_string()),
                (format!("1{}2", c), "12".to_string()),
                (format!("a{}", c), "a".to_string()),
                (format!("{}1", c), "1".to_string()),
                (format!("1{}", c), format!("1{}{}", c, c)),
                (format!("{}", c), String::new()),
                (format!("1{}a", c), "1a".to_string()),
                (format!("a{}b", c), format!("a{}c", c)),
            ] {
                acc.evals += 1;
                let want = rpmvercmp(a.as_bytes(), b.as_bytes());
                match catch(|| (Evr::new("", a.as_str(), "").cmp(&Evr::new("", b.as_str(), "")), Evr::new("", b.as_str(), "").cmp(&Evr::new("", a.as_str(), "")))) {
                    Err(p) => acc.viol(panic_violation("unicode-scalars", &p, json!({"a": a, "b": b})).rank(cp)),
                    Ok((ab, ba)) => {
                        acc.nontrivial += 1;
                        acc.count(&format!("{:?}", want));
                        if ab != want || ba != want.reverse() {
                            acc.viol(Violation::new("unicode-scalars", format!("cmp({:?}, {:?}) = {:?} / swapped {:?}, rpmvercmp says {:?}", a, b, ab, ba, want), json!({"a": a, "b": b, "code_point": format!("U+{:04X}", cp)})).sig("clause", "equals-reference").rank(cp));
                        }
                    }
                }
            }
        }));
        subs.push(SubReport::new("unicode-scalars", "A", "every Unicode scalar value except NUL (1 112 063 characters) between two digits, after a letter, in front of a digit, doubled, alone, between a digit and a letter, between letters: 8 pairs each, oracle = the rpmvercmp port (every character that is not an ASCII letter or digit, ~ or ^ is a separator, whatever Unicode says about it)", acc));
    }

    // the two operands borrowed from ONE buffer: equal start address with different lengths, overlapping, adjacent
    // (every other sub-check hands over separately allocated strings)
    {
        let bufs: Vec<String> = ["1.0.1", "1.0~rc1", "10.01a", "a1^b-2", "0:1-1.", "~~1é2", "1.0.0.0", "001.1"].iter().map(|s| s.to_string()).collect();
        let mut items: Vec<(usize, usize, usize)> = vec![];
        for (b, s) in bufs.iter().enumerate() {
            let cuts: Vec<usize> = (0..=s.len()).filter(|i| s.is_char_boundary(*i)).collect();
            for (x, i) in cuts.iter().enumerate() {
                for j in &cuts[x..] {
                    items.push((b, *i, *j));
                }
            }
        }
        let sl = |t: &(usize, usize, usize)| &bufs[t.0][t.1..t.2];
        let a_show = |t: &(usize, usize, usize)| json!({"slice": sl(t), "of_buffer": bufs[t.0], "range": [t.1, t.2]});
        let a_lib = |a: &(usize, usize, usize), b: &(usize, usize, usize)| {
            let (x, y) = (sl(a), sl(b));
            let c = Evr::new("", x, "").cmp(&Evr::new("", y, ""));
            // the release component and the string entry point go through the same comparison: they must agree with it
            let c2 = Evr::new("1", "1", x).cmp(&Evr::new("1", "1", y));
            if c2 != c {
                return if c == Ordering::Equal { Ordering::Less } else { Ordering::Equal };
            }
            c
        };
        let a_ref = |a: &(usize, usize, usize), b: &(usize, usize, usize)| rpmvercmp(sl(a).as_bytes(), sl(b).as_bytes());
        let rule = format!("all ordered pairs of the {} substrings of {:?}, handed over as slices of the same {} buffers (same start address with different lengths, overlapping, adjacent): the result must depend on the contents only; same oracles", items.len(), bufs, bufs.len());
        subs.push(all_pairs("aliased-slices", &rule, &items, &a_show, &a_lib, Some(&a_ref), None));
    }

    // numeric segments around machine-integer widths, with and without leading zeros
    {
        let nums = [
            "0", "1", "9", "10", "4294967295", "4294967296", "9223372036854775807", "9223372036854775808", "18446744073709551615", "18446744073709551616",
            "99999999999999999999", "100000000000000000000", "340282366920938463463374607431768211455", "340282366920938463463374607431768211456",
            "184467440737095516150", "00000000000000000000",
        ];
        let mut items: Vec<String> = vec![];
        for n in nums {
            for z in ["", "0", "00", "000000000000000000000"] {
                for pre in ["", "1.", "a"] {
                    for suf in ["", ".1", "a"] {
                        items.push(format!("{}{}{}{}", pre, z, n, suf));
                    }
                }
            }
        }
        items.sort();
        items.dedup();
        let rule = format!("all ordered pairs of {} strings built from numeric segments at the u32 / i64 / u64 / u128 boundaries × 0–21 leading zeros × prefixes {{\"\", \"1.\", \"a\"}} × suffixes {{\"\", \".1\", \"a\"}}; same oracles", items.len());
        subs.push(all_pairs("numeric-widths", &rule, &items, &show, &lib_cmp, Some(&ref_cmp), None));
    }

    // EVR triples: epoch defaulting and composition
    let epochs = ["", "0", "1", "00", "01", "10", "a", "0a", "a0", ".", "0.", "~", "0~", "4294967296"];
    let vers = all_strings(&["1", "a", "~", "."], if ctx.thorough() { 3 } else { 2 });
    let rels = all_strings(&["1", "2", "^"], if ctx.thorough() { 2 } else { 1 });
    let mut evrs: Vec<(String, String, String)> = vec![];
    for e in epochs {
        for v in &vers {
            for r in &rels {
                evrs.push((e.to_string(), v.clone(), r.clone()));
            }
        }
    }
    let evr_lib = |a: &(String, String, String), b: &(String, String, String)| {
        Evr::new(a.0.as_str(), a.1.as_str(), a.2.as_str()).cmp(&Evr::new(b.0.as_str(), b.1.as_str(), b.2.as_str()))
    };
    let evr_ref = |a: &(String, String, String), b: &(String, String, String)| evr_cmp(a.0.as_bytes(), a.1.as_bytes(), a.2.as_bytes(), b.0.as_bytes(), b.1.as_bytes(), b.2.as_bytes());
    let evr_eq = |a: &(String, String, String), b: &(String, String, String)| {
        Evr::new(a.0.as_str(), a.1.as_str(), a.2.as_str()) == Evr::new(b.0.as_str(), b.1.as_str(), b.2.as_str())
    };
    let evr_show = |a: &(String, String, String)| json!({"epoch": a.0, "version": a.1, "release": a.2});
    subs.push(all_pairs(
        "evr-triples",
        &format!("all ordered pairs of {} EVRs: epoch ∈ {:?} × {} versions × {} releases; oracle = epoch(\"\"→0) then version then release with the rpmvercmp port; == ⇒ Equal", evrs.len(), epochs, vers.len(), rels.len()),
        &evrs,
        &evr_show,
        &evr_lib,
        Some(&evr_ref),
        Some(&evr_eq),
    ));

    // components that themselves contain the separators of the textual form: equality must not be decided on joined text
    {
        let comps = all_strings(&["1", "a", "-", ":"], 2);
        let mut items: Vec<(String, String, String)> = vec![];
        for e in ["", "0", "1", "1:", ":"] {
            for v in &comps {
                for r in &comps {
                    items.push((e.to_string(), v.clone(), r.clone()));
                }
            }
        }
        subs.push(all_pairs(
            "evr-separators",
            &format!("all ordered pairs of {} EVRs built with Evr::new from components that contain '-' and ':' themselves (5 epochs × {} versions × {} releases of ≤ 2 characters over {{1,a,-,:}}); same oracles; == ⇒ Equal", items.len(), comps.len(), comps.len()),
            &items,
            &evr_show,
            &evr_lib,
            Some(&evr_ref),
            Some(&evr_eq),
        ));
    }

    // rpm_evr_compare on strings, against an independent split + the port
    let evr_strings = all_strings(&["0", "1", "a", ":", "-", "."], if ctx.thorough() { 6 } else { 5 });
    fn split(s: &str) -> (&str, &str, &str) {
        let (e, vr) = match s.find(':') {
            Some(i) => (&s[..i], &s[i + 1..]),
            None => ("", s),
        };
        let (v, r) = match vr.find('-') {
            Some(i) => (&vr[..i], &vr[i + 1..]),
            None => (vr, ""),
        };
        (e, v, r)
    }
    let s_lib = |a: &String, b: &String| rpm::rpm_evr_compare(a, b);
    let s_ref = |a: &String, b: &String| {
        let (a, b) = (split(a), split(b));
        evr_cmp(a.0.as_bytes(), a.1.as_bytes(), a.2.as_bytes(), b.0.as_bytes(), b.1.as_bytes(), b.2.as_bytes())
    };
    subs.push(all_pairs(
        "rpm_evr_compare",
        &format!("all ordered pairs of {} EVR strings over {{0,1,a,:,-,.}} through rpm_evr_compare; oracle = split at first ':' / first '-' then the port", evr_strings.len()),
        &evr_strings,
        &show,
        &s_lib,
        Some(&s_ref),
        None,
    ));

    // NEVRA: name, EVR, arch; equal ⇒ Equal; total preorder
    // incl. names and architectures that are different texts but equal for rpm's comparison ("a-b" / "a_b", "a1" / "a01", "x" / "x.")
    let names = ["a", "a-b", "a_b", "b", "a1", "a01"];
    let archs = ["x", "x.", "noarch"];
    let nv = all_strings(&["1", "a", "~"], 2);
    let mut nevras: Vec<(String, String, String, String, String)> = vec![];
    for n in names {
        for e in ["", "0", "1"] {
            for v in &nv {
                for r in ["1", "2"] {
                    for a in archs {
                        nevras.push((n.to_string(), e.to_string(), v.clone(), r.to_string(), a.to_string()));
                    }
                }
            }
        }
    }
    type N = (String, String, String, String, String);
    let mk = |a: &N| Nevra::new(a.0.clone(), a.1.clone(), a.2.clone(), a.3.clone(), a.4.clone());
    let n_lib = |a: &N, b: &N| mk(a).cmp(&mk(b));
    let n_ref = |a: &N, b: &N| {
        rpmvercmp(a.0.as_bytes(), b.0.as_bytes())
            .then_with(|| evr_cmp(a.1.as_bytes(), a.2.as_bytes(), a.3.as_bytes(), b.1.as_bytes(), b.2.as_bytes(), b.3.as_bytes()))
            .then_with(|| rpmvercmp(a.4.as_bytes(), b.4.as_bytes()))
    };
    let n_eq = |a: &N, b: &N| mk(a) == mk(b);
    let n_show = |a: &N| json!({"name": a.0, "epoch": a.1, "version": a.2, "release": a.3, "arch": a.4});
    subs.push(all_pairs(
        "nevra",
        &format!("all ordered pairs of {} NEVRAs (6 names × 3 epochs × {} versions × 2 releases × 3 arches; some names and architectures are different texts that rpm's comparison calls equal, so the later components decide); oracle = name, EVR, arch in that order with the port; == ⇒ Equal", nevras.len(), nv.len()),
        &nevras,
        &n_show,
        &n_lib,
        Some(&n_ref),
        Some(&n_eq),
    ));

    ctx.finish(
        "exploration",
        subs,
        &[
            "the rpmvercmp port in vlib::vercmp is a faithful transcription of rpm's lib/rpmvercmp.c (cross-checked against rpm's own test-suite expectations in vlib's unit test)",
            "nothing is claimed for strings longer than the stated bounds",
        ],
        vec![],
    )
}

pub fn replay(_ctx: &Ctx, v: &Value) -> i32 {
    let c = &v["case"];
    if let (Some(a), Some(b)) = (c["a"].as_str(), c["b"].as_str()) {
        let lib = Evr::new("", a, "").cmp(&Evr::new("", b, ""));
        let rf = rpmvercmp(a.as_bytes(), b.as_bytes());
        let sw = Evr::new("", b, "").cmp(&Evr::new("", a, ""));
        println!("library cmp({:?},{:?}) = {:?}; swapped = {:?}; rpmvercmp = {:?}; rpm_evr_compare = {:?}", a, b, lib, sw, rf, rpm::rpm_evr_compare(a, b));
        if lib != rf || sw != lib.reverse() {
            println!("REPRODUCED");
            return 1;
        }
        println!("pair agrees with the reference (a rank violation needs the whole set: re-run the check)");
        return 0;
    }
    println!("structured case: {}", c);
    println!("re-run ./check C13 to re-evaluate structured EVR/NEVRA cases");
    0
}
