//! C08 — every digest the builder records is the true digest.
//! Engine C explores all answer sequences of the sink under the hashing writer;
//! engine A recomputes the four digests of every corpus package independently.
use crate::common::*;
use crate::ctx::Ctx;
use crate::oracles::*;
use crate::spec::*;
use crate::validator::decompress;
use serde_json::{json, Value};
use std::cell::RefCell;
use std::io::Write;
use std::rc::Rc;
use vlib::explore::{explore, pick, Ch};
use vlib::refcpio::{read_archive, Ent};
use vlib::refhdr::{scan, value, Val};
use vlib::report::{catch, Acc, SubReport, Violation};

struct Sink {
    ch: Ch,
    accepted: Rc<RefCell<Vec<u8>>>,
}

impl Write for Sink {
    fn write(&mut self, buf: &[u8]) -> std::io::Result<usize> {
        if buf.is_empty() {
            return Ok(0);
        }
        // 0 = accept everything (default), 1 = one byte, 2 = len-1 bytes, 3 = Interrupted, 4 = hard error
        let n_alt = if buf.len() >= 2 { 5 } else { 4 };
        let c = pick(&self.ch, 2, n_alt);
        // with a 1-byte buffer "len-1" does not exist: alternatives are all, (1 byte = all), Interrupted, error
        let c = if buf.len() < 2 && c >= 2 { c + 1 } else { c };
        match c {
            0 => {
                self.accepted.borrow_mut().extend_from_slice(buf);
                Ok(buf.len())
            }
            1 => {
                self.accepted.borrow_mut().push(buf[0]);
                Ok(1)
            }
            2 => {
                self.accepted.borrow_mut().extend_from_slice(&buf[..buf.len() - 1]);
                Ok(buf.len() - 1)
            }
            3 => Err(std::io::Error::from(std::io::ErrorKind::Interrupted)),
            _ => Err(std::io::Error::new(std::io::ErrorKind::Other, "scripted failure")),
        }
    }
    fn flush(&mut self) -> std::io::Result<()> {
        Ok(())
    }
}

fn writer_sub(ctx: &Ctx) -> SubReport {
    let lens = [1usize, 2, 5, 9];
    let mut scripts: Vec<Vec<usize>> = vec![];
    for a in lens {
        scripts.push(vec![a]);
        for b in lens {
            scripts.push(vec![a, b]);
            for c in lens {
                scripts.push(vec![a, b, c]);
            }
        }
    }
    let bound = if ctx.thorough() { 4 } else { 3 };
    let mut total = Acc::new();
    let mut execs = 0u64;
    let mut max_points = 0usize;
    let mut by_dev: Vec<u64> = vec![];
    for (si, script) in scripts.iter().enumerate() {
        let (st, accs) = explore(
            bound,
            vlib::par::threads(),
            Acc::new,
            |ch| {
                let accepted = Rc::new(RefCell::new(Vec::new()));
                let r = catch(|| {
                    let mut w = rpm::Sha256Writer::new(Sink { ch: ch.clone(), accepted: accepted.clone() });
                    let mut res = Ok(());
                    let mut byte = 0u8;
                    for l in script {
                        let buf: Vec<u8> = (0..*l).map(|_| {
                            byte = byte.wrapping_add(37);
                            byte
                        }).collect();
                        res = w.write_all(&buf);
                        if res.is_err() {
                            break;
                        }
                    }
                    let _ = w.flush();
                    (res.is_ok(), w.into_digest().as_ref().to_vec())
                });
                let acc_bytes = accepted.borrow().clone();
                (r, acc_bytes)
            },
            |trace, (r, accepted), a: &mut Acc| {
                a.evals += 1;
                let answers: Vec<u32> = trace.iter().map(|p| p.chosen).collect();
                let case = || json!({"write_all_lengths": script, "sink_answers(0=all,1=one byte,2=len-1,3=Interrupted,4=error)": answers});
                if answers.iter().any(|c| *c != 0) {
                    a.nontrivial += 1;
                }
                match r {
                    Err(p) => a.viol(panic_violation("hashing-writer", &p, case()).rank(si as u64)),
                    Ok((ok, digest)) => {
                        a.count(if ok { "all writes succeeded" } else { "a write failed" });
                        let want = sha2_digest(&accepted);
                        if digest != want {
                            a.viol(
                                Violation::new("hashing-writer", format!("sink accepted {} bytes; digest is not the SHA-256 of those bytes", accepted.len()), case())
                                    .sig("clause", "digest-of-accepted-bytes")
                                    .rank(si as u64 * 1000 + answers.len() as u64),
                            );
                        }
                        if answers.len() <= 2 && si < 3 {
                            a.sample(si as u64, case);
                        }
                    }
                }
            },
        );
        execs += st.executions;
        max_points = max_points.max(st.max_points);
        if by_dev.len() < st.by_deviations.len() {
            by_dev.resize(st.by_deviations.len(), 0);
        }
        for (i, v) in st.by_deviations.iter().enumerate() {
            by_dev[i] += v;
        }
        for a in accs {
            total.merge(a);
        }
    }
    let mut s = SubReport::new(
        "hashing-writer",
        "C",
        &format!("Sha256Writer over a scripted sink: all {} scripts of 1–3 write_all calls with lengths from {:?}; at every inner write the sink answers {{whole buffer, 1 byte, len−1 bytes, Interrupted, error}}; every answer sequence with ≤ {} deviations from 'whole buffer' (executions run to completion). Oracle: digest = SHA-256 of exactly the bytes the sink accepted. non-trivial = execution with ≥ 1 deviation", scripts.len(), lens, bound),
        total,
    )
    .extra("executions", json!(execs))
    .extra("max_choice_points", json!(max_points))
    .extra("deviation_bound_completed", json!(bound))
    .extra("executions_by_deviations", json!(by_dev));
    s.exhaustive = true;
    s
}

fn sha2_digest(b: &[u8]) -> Vec<u8> {
    use sha2::Digest;
    sha2::Sha256::digest(b).to_vec()
}

/// The four kinds of digest of an emitted package, recomputed independently.
pub fn oracle_true_digests(sub: &str, x: &[u8], rank: u64, case: &dyn Fn() -> Value, acc: &mut Acc) -> bool {
    let Some((_, sig, hdr, l)) = scan(x) else {
        acc.viol(Violation::new(sub, "emitted package cannot be scanned", case()).sig("clause", "scan").rank(rank));
        return false;
    };
    let mut bad = |clause: &str, what: String| {
        acc.viol(Violation::new(sub, what, case()).sig("clause", clause).rank(rank));
    };
    let get = |h: &vlib::refhdr::RawHeader, tag: u32| h.entries.iter().skip(1).find(|e| e.tag == tag).and_then(|e| value(e, &h.store).ok());
    let hbytes = &x[l.hdr_off..l.payload_off];
    let payload = &x[l.payload_off..];
    match get(&sig, SIGTAG_SHA256) {
        Some(Val::Str(d)) => {
            if d != sha256_hex(hbytes).as_bytes() {
                bad("header-sha256", "header SHA-256 in the signature header is not the digest of the serialised header".into());
            }
        }
        _ => bad("header-sha256", "no header SHA-256 recorded".into()),
    }
    match (get(&hdr, TAG_PAYLOADDIGEST), get(&hdr, TAG_PAYLOADDIGESTALGO)) {
        (Some(Val::StrArray(d)), Some(Val::Int32(a))) if d.len() == 1 && a == vec![8] => {
            if d[0] != sha256_hex(payload).as_bytes() {
                bad("payload-digest", "payload digest is not the SHA-256 of the compressed payload".into());
            }
        }
        (None, None) => {} // foreign main header (asset) without payload digest
        _ => bad("payload-digest", "payload digest tags malformed".into()),
    }
    let comp = match get(&hdr, 1125) {
        Some(Val::Str(s)) => Some(String::from_utf8_lossy(&s).to_string()),
        _ => None,
    };
    let archive = match decompress(comp.as_deref(), payload) {
        Ok(a) => a,
        Err(e) => {
            bad("decompress", format!("payload does not decompress: {}", e));
            return false;
        }
    };
    if let Some(Val::StrArray(d)) = get(&hdr, TAG_PAYLOADDIGESTALT) {
        if d.len() != 1 || d[0] != sha256_hex(&archive).as_bytes() {
            bad("payload-digest-alt", format!("alternate payload digest is not the SHA-256 of the uncompressed archive ({} bytes, compressor {:?})", archive.len(), comp));
        }
    }
    // per-file digests against the archived data
    let names = match get(&hdr, 1117) {
        Some(Val::StrArray(v)) => v,
        _ => vec![],
    };
    if !names.is_empty() {
        let sizes: Vec<u64> = match (get(&hdr, 5008), get(&hdr, 1028)) {
            (Some(Val::Int64(v)), _) => v,
            (_, Some(Val::Int32(v))) => v.iter().map(|x| *x as u64).collect(),
            _ => vec![],
        };
        let digests = match get(&hdr, 1035) {
            Some(Val::StrArray(v)) => v,
            _ => vec![],
        };
        let modes = match get(&hdr, 1030) {
            Some(Val::Int16(v)) => v,
            _ => vec![],
        };
        let algo = match get(&hdr, 5011) {
            Some(Val::Int32(v)) if !v.is_empty() => v[0],
            _ => 1,
        };
        match read_archive(&archive, &sizes) {
            Err(e) => bad("archive", format!("archive unreadable: {}", e)),
            Ok((ents, _)) => {
                if algo == 8 && ents.len() == names.len() && digests.len() == names.len() && modes.len() == names.len() {
                    for (i, e) in ents.iter().enumerate() {
                        let data = match e {
                            Ent::Newc(c) => &c.data,
                            Ent::Stripped { data, .. } => data,
                        };
                        let ty = modes[i] & 0o170000;
                        // regular files always; entries of no known type when they carry content or a digest
                        let judged = ty == 0o100000 || (ty != 0o040000 && ty != 0o120000 && (!data.is_empty() || !digests[i].is_empty()));
                        if judged && digests[i] != sha256_hex(data).as_bytes() {
                            bad("file-digest", format!("digest of file {} ({}) is not the SHA-256 of its archived content", i, String::from_utf8_lossy(&names[i])));
                        }
                    }
                }
            }
        }
    }
    true
}

pub fn run(ctx: &Ctx) -> i32 {
    let s1 = writer_sub(ctx);
    let s2 = crate::corpus::run_corpus(ctx, "corpus", "oracle: header SHA-256, payload digest, alternate (uncompressed) payload digest and per-file digests recomputed after independent decompression", &|sub, it, rank, acc| {
        if oracle_true_digests(sub, &it.bytes, rank, &|| it.desc.clone(), acc) {
            acc.nontrivial += 1;
            if rank % 1499 == 0 {
                acc.sample(rank, || json!({"corpus_item": it.spec.name, "compression": format!("{:?}", it.spec.compression), "history": it.desc["history"]}));
            }
        }
    });
    // sizes at which the encoders answer with short writes
    let env = Env::new(&ctx.repo, "c08");
    let mut big: Vec<BuildSpec> = vec![];
    let sizes: Vec<usize> = if ctx.thorough() { vec![200_000, 2 << 20, 8 << 20] } else { vec![200_000, 1 << 20] };
    for n in sizes {
        for c in [Comp::None, Comp::Gzip(6), Comp::Gzip(1), Comp::Zstd(3), Comp::Zstd(19), Comp::Xz(1), Comp::Default] {
            for noise in [true, false] {
                let mut s = BuildSpec::minimal();
                s.name = "big".into();
                s.compression = c;
                s.files = vec![FileSpec::new("/big/file", if noise { Content::Noise(n) } else { Content::Text(n) }), FileSpec::new("/big/small", Content::Bytes(b"tail".to_vec()))];
                big.push(s);
            }
        }
    }
    let b = merge(vlib::par::par_fold(big.len() as u64, Acc::new, |i, acc| {
        let spec = &big[i as usize];
        acc.evals += 1;
        let case = || json!({"spec": spec.to_json()});
        match catch(|| spec.build_bytes(&env)) {
            Ok(Ok((_, bytes))) => {
                if oracle_true_digests("large-files", &bytes, i, &case, acc) {
                    acc.nontrivial += 1;
                    acc.count(&format!("{:?}", spec.compression));
                    acc.sample(i, || json!({"file_bytes": spec.files[0].content.len(), "compression": format!("{:?}", spec.compression)}));
                }
            }
            Ok(Err(e)) => acc.viol(Violation::new("large-files", format!("build failed: {}", e), case()).sig("clause", "build-fails").rank(i)),
            Err(p) => acc.viol(panic_violation("large-files", &p, case()).rank(i)),
        }
    }));
    let s3 = SubReport::new("large-files", "A", &format!("{} builds with one file of 200 KB / 1 MiB (thorough: 2 and 8 MiB), compressible and incompressible, with every compressor incl. the default zstd-19 — sizes at which the encoders accept only part of a buffer; same four digest oracles", big.len()), b);
    for s in [&s1, &s2, &s3] {
        if s.acc.nontrivial == 0 {
            crate::ctx::machinery(&format!("sub-check {} judged nothing: vacuous", s.name));
        }
    }
    ctx.finish(
        "fault_enumeration",
        vec![s1, s2, s3],
        &[
            "the decompressors (flate2, zstd, liblzma) and RustCrypto sha2 are the crates the library uses itself; the cpio reader and header decoder are the harness's own",
            "file sizes beyond 1 MiB (quick) / 8 MiB (thorough) are not covered",
        ],
        vec![],
    )
}

pub fn replay(_ctx: &Ctx, v: &Value) -> i32 {
    println!("re-run ./check C08; case: {}", v["case"]);
    0
}
