//! C08 — every digest the builder records is the true digest.
//! Engine C explores all answer sequences of the sink under the hashing writer;
//! engine A recomputes the four digests of every corpus package independently.
use crate::common::*;
use crate::ctx::Ctx;
use crate::oracles::*;
use crate::spec::*;
use crate::validator::decompress;
use serde_json::{json, Value};
use std::cell::RefCell;
use std::io::Write;
use std::rc::Rc;
use vlib::explore::{explore, pick, Ch};
use vlib::par::{decode, product};
use vlib::refcpio::{read_archive, Ent};
use vlib::refhdr::{scan, value, Val};
use vlib::report::{catch, Acc, SubReport, Violation};

struct Sink {
    ch: Ch,
    accepted: Rc<RefCell<Vec<u8>>>,
    flushes: Rc<RefCell<u32>>,
}

impl Write for Sink {
    fn write(&mut self, buf: &[u8]) -> std::io::Result<usize> {
        if buf.is_empty() {
            return Ok(0);
        }
        // 0 = accept everything (default), 1 = one byte, 2 = len-1 bytes, 3 = Interrupted, 4 = hard error
        let n_alt = if buf.len() >= 2 { 5 } else { 4 };
        let c = pick(&self.ch, 2, n_alt);
        // with a 1-byte buffer "len-1" does not exist: alternatives are all, (1 byte = all), Interrupted, error
        let c = if buf.len() < 2 && c >= 2 { c + 1 } else { c };
        match c {
            0 => {
                self.accepted.borrow_mut().extend_from_slice(buf);
                Ok(buf.len())
            }
            1 => {
                self.accepted.borrow_mut().push(buf[0]);
                Ok(1)
            }
            2 => {
                self.accepted.borrow_mut().extend_from_slice(&buf[..buf.len() - 1]);
                Ok(buf.len() - 1)
            }
            3 => Err(std::io::Error::from(std::io::ErrorKind::Interrupted)),
            _ => Err(std::io::Error::new(std::io::ErrorKind::Other, "scripted failure")),
        }
    }
    fn flush(&mut self) -> std::io::Result<()> {
        *self.flushes.borrow_mut() += 1;
        Ok(())
    }
}

fn writer_sub(ctx: &Ctx) -> SubReport {
    let lens = [1usize, 2, 5, 9];
    let mut scripts: Vec<Vec<usize>> = vec![];
    for a in lens {
        scripts.push(vec![a]);
        for b in lens {
            scripts.push(vec![a, b]);
            for c in lens {
                scripts.push(vec![a, b, c]);
            }
        }
    }
    let bound = if ctx.thorough() { 6 } else { 3 };
    let mut total = Acc::new();
    let mut execs = 0u64;
    let mut max_points = 0usize;
    let mut by_dev: Vec<u64> = vec![];
    for (si, script) in scripts.iter().enumerate() {
        let (st, accs) = explore(
            bound,
            vlib::par::threads(),
            Acc::new,
            |ch| {
                let accepted = Rc::new(RefCell::new(Vec::new()));
                let flushes = Rc::new(RefCell::new(0u32));
                let r = catch(|| {
                    let mut w = rpm::Sha256Writer::new(Sink { ch: ch.clone(), accepted: accepted.clone(), flushes: flushes.clone() });
                    let mut res = Ok(());
                    let mut byte = 0u8;
                    for l in script {
                        let buf: Vec<u8> = (0..*l).map(|_| {
                            byte = byte.wrapping_add(37);
                            byte
                        }).collect();
                        res = w.write_all(&buf);
                        if res.is_err() {
                            break;
                        }
                    }
                    let fl = w.flush();
                    (res.is_ok(), w.into_digest().as_ref().to_vec(), fl.is_ok())
                });
                let acc_bytes = accepted.borrow().clone();
                let nfl = *flushes.borrow();
                (r.map(|(a, b, c)| (a, b, c && nfl == 0)), acc_bytes)
            },
            |trace, (r, accepted), a: &mut Acc| {
                a.evals += 1;
                let answers: Vec<u32> = trace.iter().map(|p| p.chosen).collect();
                let case = || json!({"write_all_lengths": script, "sink_answers(0=all,1=one byte,2=len-1,3=Interrupted,4=error)": answers});
                if answers.iter().any(|c| *c != 0) {
                    a.nontrivial += 1;
                }
                match r {
                    Err(p) => a.viol(panic_violation("hashing-writer", &p, case()).rank(si as u64)),
                    Ok((ok, digest, flush_lost)) => {
                        a.count(if ok { "all writes succeeded" } else { "a write failed" });
                        if flush_lost {
                            a.viol(Violation::new("hashing-writer", "flush() on the hashing writer returned Ok without flushing the writer it wraps (a buffering sink would still hold the bytes)", case()).sig("clause", "flush-not-forwarded").rank(si as u64));
                        }
                        let want = sha2_digest(&accepted);
                        if digest != want {
                            a.viol(
                                Violation::new("hashing-writer", format!("sink accepted {} bytes; digest is not the SHA-256 of those bytes", accepted.len()), case())
                                    .sig("clause", "digest-of-accepted-bytes")
                                    .rank(si as u64 * 1000 + answers.len() as u64),
                            );
                        }
                        if answers.len() <= 2 && si < 3 {
                            a.sample(si as u64, case);
                        }
                    }
                }
            },
        );
        execs += st.executions;
        max_points = max_points.max(st.max_points);
        if by_dev.len() < st.by_deviations.len() {
            by_dev.resize(st.by_deviations.len(), 0);
        }
        for (i, v) in st.by_deviations.iter().enumerate() {
            by_dev[i] += v;
        }
        for a in accs {
            total.merge(a);
        }
    }
    let mut s = SubReport::new(
        "hashing-writer",
        "C",
        &format!("Sha256Writer over a scripted sink: all {} scripts of 1–3 write_all calls with lengths from {:?}; at every inner write the sink answers {{whole buffer, 1 byte, len−1 bytes, Interrupted, error}}; every answer sequence with ≤ {} deviations from 'whole buffer' (executions run to completion). Oracle: digest = SHA-256 of exactly the bytes the sink accepted; flush() reaches the wrapped writer. non-trivial = execution with ≥ 1 deviation", scripts.len(), lens, bound),
        total,
    )
    .extra("executions", json!(execs))
    .extra("max_choice_points", json!(max_points))
    .extra("deviation_bound_completed", json!(bound))
    .extra("executions_by_deviations", json!(by_dev));
    s.exhaustive = true;
    s
}

fn sha2_digest(b: &[u8]) -> Vec<u8> {
    use sha2::Digest;
    sha2::Sha256::digest(b).to_vec()
}

/// For packages the builder made: all digest tags must be there (for every compression, "none" included), and be true.
pub fn oracle_true_digests_built(sub: &str, x: &[u8], rank: u64, case: &dyn Fn() -> Value, acc: &mut Acc) -> bool {
    if let Some((_, sig, hdr, _)) = scan(x) {
        let has = |h: &vlib::refhdr::RawHeader, tag: u32| h.entries.iter().any(|e| e.tag == tag);
        for (what, present) in [("header SHA-256 (signature header)", has(&sig, SIGTAG_SHA256)), ("payload digest", has(&hdr, TAG_PAYLOADDIGEST)), ("payload digest algorithm", has(&hdr, TAG_PAYLOADDIGESTALGO)), ("alternate payload digest", has(&hdr, TAG_PAYLOADDIGESTALT))] {
            if !present {
                acc.viol(Violation::new(sub, format!("a package made by the builder records no {}", what), case()).sig("clause", "digest-not-recorded").sig("which", what).rank(rank));
            }
        }
    }
    oracle_true_digests(sub, x, rank, case, acc)
}

/// The four kinds of digest of an emitted package, recomputed independently.
pub fn oracle_true_digests(sub: &str, x: &[u8], rank: u64, case: &dyn Fn() -> Value, acc: &mut Acc) -> bool {
    let Some((_, sig, hdr, l)) = scan(x) else {
        acc.viol(Violation::new(sub, "emitted package cannot be scanned", case()).sig("clause", "scan").rank(rank));
        return false;
    };
    let mut bad = |clause: &str, what: String| {
        acc.viol(Violation::new(sub, what, case()).sig("clause", clause).rank(rank));
    };
    let get = |h: &vlib::refhdr::RawHeader, tag: u32| h.entries.iter().skip(1).find(|e| e.tag == tag).and_then(|e| value(e, &h.store).ok());
    let hbytes = &x[l.hdr_off..l.payload_off];
    let payload = &x[l.payload_off..];
    match get(&sig, SIGTAG_SHA256) {
        Some(Val::Str(d)) => {
            if d != sha256_hex(hbytes).as_bytes() {
                bad("header-sha256", "header SHA-256 in the signature header is not the digest of the serialised header".into());
            }
        }
        _ => bad("header-sha256", "no header SHA-256 recorded".into()),
    }
    match (get(&hdr, TAG_PAYLOADDIGEST), get(&hdr, TAG_PAYLOADDIGESTALGO)) {
        (Some(Val::StrArray(d)), Some(Val::Int32(a))) if d.len() == 1 && a == vec![8] => {
            if d[0] != sha256_hex(payload).as_bytes() {
                bad("payload-digest", "payload digest is not the SHA-256 of the compressed payload".into());
            }
        }
        (None, None) => {} // foreign main header (asset) without payload digest
        _ => bad("payload-digest", "payload digest tags malformed".into()),
    }
    let comp = match get(&hdr, 1125) {
        Some(Val::Str(s)) => Some(String::from_utf8_lossy(&s).to_string()),
        _ => None,
    };
    let archive = match decompress(comp.as_deref(), payload) {
        Ok(a) => a,
        Err(e) => {
            bad("decompress", format!("payload does not decompress: {}", e));
            return false;
        }
    };
    if let Some(Val::StrArray(d)) = get(&hdr, TAG_PAYLOADDIGESTALT) {
        if d.len() != 1 || d[0] != sha256_hex(&archive).as_bytes() {
            bad("payload-digest-alt", format!("alternate payload digest is not the SHA-256 of the uncompressed archive ({} bytes, compressor {:?})", archive.len(), comp));
        }
    }
    // per-file digests against the archived data
    let names = match get(&hdr, 1117) {
        Some(Val::StrArray(v)) => v,
        _ => vec![],
    };
    if !names.is_empty() {
        let sizes: Vec<u64> = match (get(&hdr, 5008), get(&hdr, 1028)) {
            (Some(Val::Int64(v)), _) => v,
            (_, Some(Val::Int32(v))) => v.iter().map(|x| *x as u64).collect(),
            _ => vec![],
        };
        let digests = match get(&hdr, 1035) {
            Some(Val::StrArray(v)) => v,
            _ => vec![],
        };
        let modes = match get(&hdr, 1030) {
            Some(Val::Int16(v)) => v,
            _ => vec![],
        };
        let algo = match get(&hdr, 5011) {
            Some(Val::Int32(v)) if !v.is_empty() => v[0],
            _ => 1,
        };
        if digests.len() != names.len() || modes.len() != names.len() {
            bad("file-digest-count", format!("{} files but {} file digests and {} modes: the per-file arrays are out of step", names.len(), digests.len(), modes.len()));
        }
        match read_archive(&archive, &sizes) {
            Err(e) => bad("archive", format!("archive unreadable: {}", e)),
            Ok((ents, _)) => {
                // the builder archives every file it lists, in header order, and records SHA-256 digests
                if algo != 8 {
                    bad("file-digest-algo", format!("file digest algorithm {} recorded, the digests are SHA-256", algo));
                }
                if ents.len() != names.len() {
                    bad("archive-entry-count", format!("{} files in the header, {} entries in the archive", names.len(), ents.len()));
                }
                if algo == 8 && ents.len() == names.len() && digests.len() == names.len() && modes.len() == names.len() {
                    for (i, e) in ents.iter().enumerate() {
                        let data = match e {
                            Ent::Newc(c) => &c.data,
                            Ent::Stripped { data, .. } => data,
                        };
                        let ty = modes[i] & 0o170000;
                        // regular files always; entries of no known type when they carry content or a digest
                        // and any entry, whatever its type, that records a digest at all
                        let judged = ty == 0o100000 || !digests[i].is_empty() || (ty != 0o040000 && ty != 0o120000 && !data.is_empty());
                        if judged && digests[i] != sha256_hex(data).as_bytes() {
                            bad("file-digest", format!("digest of file {} ({}) is not the SHA-256 of its archived content", i, String::from_utf8_lossy(&names[i])));
                        }
                    }
                }
            }
        }
    }
    true
}

/// How a user-supplied `Signing` implementation consumes the header bytes it is handed.
#[derive(Debug, Clone, Copy, PartialEq)]
enum ReadMode {
    /// read_to_end, then sign what was read (what the pgp signer does)
    DrainAll,
    /// read in chunks of n bytes up to EOF, sign what was read
    DrainChunks(usize),
    /// read up to EOF and once more after it
    DrainAndReadAgain,
    /// detached signature from elsewhere (HSM, signing service): the reader is never touched
    Detached,
    /// reads only the first n bytes, then attaches the detached signature
    Prefix(usize),
}

const READ_MODES: [ReadMode; 7] = [ReadMode::DrainAll, ReadMode::DrainChunks(1), ReadMode::DrainChunks(7), ReadMode::DrainAndReadAgain, ReadMode::Detached, ReadMode::Prefix(16), ReadMode::Prefix(1)];

#[derive(Debug)]
struct ScriptedSigner {
    inner: rpm::signature::pgp::Signer,
    mode: ReadMode,
    detached: Vec<u8>,
    seen: RefCell<Vec<u8>>,
}

impl rpm::signature::Signing for ScriptedSigner {
    type Signature = Vec<u8>;
    fn sign(&self, mut data: impl std::io::Read, t: rpm::Timestamp) -> Result<Vec<u8>, rpm::Error> {
        let mut got = vec![];
        let drain = |data: &mut dyn std::io::Read, chunk: usize, got: &mut Vec<u8>| -> Result<(), rpm::Error> {
            let mut buf = vec![0u8; chunk];
            loop {
                let n = data.read(&mut buf)?;
                if n == 0 {
                    return Ok(());
                }
                got.extend_from_slice(&buf[..n]);
            }
        };
        let r = match self.mode {
            ReadMode::DrainAll => {
                data.read_to_end(&mut got)?;
                self.inner.sign(got.as_slice(), t)
            }
            ReadMode::DrainChunks(n) => {
                drain(&mut data, n, &mut got)?;
                self.inner.sign(got.as_slice(), t)
            }
            ReadMode::DrainAndReadAgain => {
                drain(&mut data, 64, &mut got)?;
                let mut b = [0u8; 8];
                let _ = data.read(&mut b)?;
                self.inner.sign(got.as_slice(), t)
            }
            ReadMode::Detached => Ok(self.detached.clone()),
            ReadMode::Prefix(n) => {
                let mut buf = vec![0u8; n];
                let k = data.read(&mut buf)?;
                got.extend_from_slice(&buf[..k]);
                Ok(self.detached.clone())
            }
        };
        *self.seen.borrow_mut() = got;
        r
    }
    fn algorithm(&self) -> rpm::signature::AlgorithmType {
        rpm::signature::Signing::algorithm(&self.inner)
    }
}

/// Signing through `Signing` implementations that consume the header bytes in different ways.
fn signers_sub(ctx: &Ctx) -> SubReport {
    use rpm::signature::Signing;
    let env = Env::new(&ctx.repo, "c08s");
    let mut rich = crate::corpus::rich();
    rich.compression = Comp::Gzip(6);
    let mut bare = BuildSpec::minimal();
    bare.name = "bare".into();
    bare.files.clear();
    let specs = [crate::corpus::one_file(), rich, bare];
    let keys = crate::keys::FAST_KEYS;
    let ops = ["sign", "sign_with_timestamp", "build_and_sign"];
    let rad = [specs.len() as u64, keys.len() as u64, READ_MODES.len() as u64, ops.len() as u64];
    let n = product(&rad);
    let acc = merge(vlib::par::par_fold(n, Acc::new, |i, acc| {
        let d = decode(i, &rad);
        let (spec, key, mode, op) = (&specs[d[0] as usize], keys[d[1] as usize], READ_MODES[d[2] as usize], ops[d[3] as usize]);
        acc.evals += 1;
        let case = || json!({"spec": spec.to_json(), "key": key.name(), "signer_reads": format!("{:?}", mode), "operation": op});
        let unsigned = match catch(|| spec.build(&env)) {
            Ok(Ok(p)) => p,
            _ => crate::ctx::machinery("c08 signers: unsigned build failed"),
        };
        let ub = write_pkg(&unsigned).unwrap_or_else(|_| crate::ctx::machinery("c08 signers: unsigned write failed"));
        let Some((_, _, _, ul)) = scan(&ub) else { crate::ctx::machinery("c08 signers: unsigned package cannot be scanned") };
        let hbytes = ub[ul.hdr_off..ul.payload_off].to_vec();
        let inner = env.signer(key);
        let t: rpm::Timestamp = 1_600_000_000u32.into();
        let detached = inner.sign(hbytes.as_slice(), t).unwrap_or_else(|e| crate::ctx::machinery(&format!("c08 signers: reference signature: {}", e)));
        let signer = ScriptedSigner { inner, mode, detached, seen: RefCell::new(vec![]) };
        let r = catch(|| match op {
            "sign" => {
                let mut p = unsigned.clone();
                p.sign(&signer).map(|_| p)
            }
            "sign_with_timestamp" => {
                let mut p = unsigned.clone();
                p.sign_with_timestamp(&signer, 1_600_000_000u32).map(|_| p)
            }
            _ => spec.builder(&env).and_then(|b| b.build_and_sign(&signer)),
        });
        let p = match r {
            Err(pn) => return acc.viol(panic_violation("custom-signers", &pn, case()).rank(i)),
            Ok(Err(e)) => return acc.viol(Violation::new("custom-signers", format!("{} with a working signer failed: {}", op, e), case()).sig("clause", "sign-fails").sig("op", op).rank(i)),
            Ok(Ok(p)) => p,
        };
        let drains = !matches!(mode, ReadMode::Detached | ReadMode::Prefix(_));
        if drains && *signer.seen.borrow() != hbytes {
            acc.viol(Violation::new("custom-signers", format!("the signer was handed {} bytes that are not the serialised header ({} bytes)", signer.seen.borrow().len(), hbytes.len()), case()).sig("clause", "signed-data-is-not-the-header").rank(i));
        }
        let Ok(bytes) = write_pkg(&p) else {
            return acc.viol(Violation::new("custom-signers", "signed package cannot be written", case()).sig("clause", "write-fails").rank(i));
        };
        if !oracle_true_digests("custom-signers", &bytes, i, &case, acc) {
            return;
        }
        acc.nontrivial += 1;
        acc.count(&format!("{:?}", mode));
        // the result must also satisfy the library's own verification
        match parse_pkg(&bytes) {
            Ok(Ok(q)) => {
                let vd = catch(|| q.verify_digests());
                let vs = catch(|| q.verify_signature(key.verifier(&ctx.repo)));
                if !matches!(vd, Ok(Ok(()))) {
                    acc.viol(Violation::new("custom-signers", format!("verify_digests rejects the package just signed: {:?}", vd.map(|r| r.map_err(|e| e.to_string())).map_err(|p| p.location())), case()).sig("clause", "own-digest-verification-fails").rank(i));
                }
                if !matches!(vs, Ok(Ok(()))) {
                    acc.viol(Violation::new("custom-signers", format!("verify_signature rejects the package just signed: {:?}", vs.map(|r| r.map_err(|e| e.to_string())).map_err(|p| p.location())), case()).sig("clause", "own-signature-verification-fails").rank(i));
                }
            }
            _ => acc.viol(Violation::new("custom-signers", "signed package does not re-parse", case()).sig("clause", "reparse").rank(i)),
        }
        if d[0] == 0 && d[1] == 0 {
            acc.sample(i, case);
        }
    }));
    SubReport::new(
        "custom-signers",
        "A",
        &format!("{} packages × {} keys × Signing implementations that consume the header reader as {:?} × {{sign, sign_with_timestamp, build_and_sign}}: all {} combinations. Oracle: the four digest kinds recomputed independently on the signed package, draining signers saw exactly the header bytes, and the library's own verify_digests / verify_signature accept the result", specs.len(), keys.len(), READ_MODES, n),
        acc,
    )
}

/// One builder, several `with_file` calls from the *same source path* rewritten in between.
fn source_rewrite_sub(ctx: &Ctx) -> SubReport {
    use rpm::{FileOptions, PackageBuilder};
    let env = Env::new(&ctx.repo, "c08r");
    // contents: two of equal length, one of another length, empty
    let contents: [&[u8]; 4] = [b"AAAAAAAAAAAAAAAA", b"BBBBBBBBBBBBBBBB", b"CCCC", b""];
    let mtimes = [1_500_000_000u64, 1_500_000_001];
    let per = (contents.len() * mtimes.len()) as u64;
    let depth = if ctx.thorough() { 4 } else { 3 };
    // destinations: a fresh one per call / the same one for every call / the same one in alternating spellings
    const DEST_MODES: u64 = 3;
    let mut n = 0u64;
    let mut starts = vec![];
    for k in 2..=depth {
        starts.push((k, n));
        n += per.pow(k as u32) * DEST_MODES;
    }
    let acc = merge(vlib::par::par_fold(n, Acc::new, |i, acc| {
        let (k, base) = *starts.iter().rev().find(|(_, b)| i >= *b).unwrap();
        let dest_mode = (i - base) % DEST_MODES;
        let mut code = (i - base) / DEST_MODES;
        let path = env.dir().join(format!("slot-{}", i));
        let mut steps = vec![];
        let mut b = PackageBuilder::new("rewrite", "1", "MIT", "noarch", "s").compression(rpm::CompressionWithLevel::None).source_date(1_600_000_000u32);
        let mut want: Vec<(String, Vec<u8>)> = vec![];
        let mut failed = None;
        for step in 0..k {
            let c = contents[(code % contents.len() as u64) as usize];
            code /= contents.len() as u64;
            let mt = mtimes[(code % mtimes.len() as u64) as usize];
            code /= mtimes.len() as u64;
            std::fs::write(&path, c).unwrap_or_else(|e| crate::ctx::machinery(&format!("c08 rewrite: {}", e)));
            let f = std::fs::OpenOptions::new().write(true).open(&path).expect("open slot");
            f.set_modified(std::time::UNIX_EPOCH + std::time::Duration::from_secs(mt)).expect("set mtime");
            drop(f);
            let dest = match dest_mode {
                0 => format!("/data/f{}", step),
                1 => "/data/same".to_string(),
                _ => if step % 2 == 0 { "/data/same".to_string() } else { "./data/same".to_string() },
            };
            steps.push(json!({"content": String::from_utf8_lossy(c), "mtime": mt, "dest": dest}));
            match catch(|| b.with_file(&path, FileOptions::new(dest.clone()))) {
                Ok(Ok(nb)) => b = nb,
                other => {
                    failed = Some(format!("{:?}", other.map(|r| r.map(|_| ()).map_err(|e| e.to_string())).map_err(|p| p.location())));
                    b = PackageBuilder::new("x", "1", "MIT", "noarch", "s");
                    break;
                }
            }
            want.push((dest, c.to_vec()));
        }
        if dest_mode != 0 {
            want.clear(); // which of several calls for one destination wins is not specified: only the digests are judged
        }
        let _ = std::fs::remove_file(&path);
        acc.evals += 1;
        let case = || json!({"one_source_path_rewritten_between_with_file_calls": steps});
        if let Some(f) = failed {
            return acc.viol(Violation::new("source-rewrite", format!("with_file failed: {}", f), case()).sig("clause", "build-fails").rank(i));
        }
        let bytes = match catch(|| b.build().and_then(|p| { let mut o = vec![]; p.write(&mut o).map(|_| o) })) {
            Ok(Ok(o)) => o,
            Ok(Err(e)) => return acc.viol(Violation::new("source-rewrite", format!("build failed: {}", e), case()).sig("clause", "build-fails").rank(i)),
            Err(p) => return acc.viol(panic_violation("source-rewrite", &p, case()).rank(i)),
        };
        if !oracle_true_digests_built("source-rewrite", &bytes, i, &case, acc) {
            return;
        }
        acc.nontrivial += 1;
        // the archived content is the content the source had at the time of its with_file call
        if let Ok(Ok(p)) = parse_pkg(&bytes) {
            if let Ok(files) = p.files() {
                let got: Vec<(String, Vec<u8>)> = files.filter_map(|f| f.ok()).map(|f| (f.metadata.path.to_string_lossy().to_string(), f.content)).collect();
                let mut w = want.clone();
                w.sort();
                let mut g = got;
                g.sort();
                if !w.is_empty() && g != w {
                    acc.viol(Violation::new("source-rewrite", "the packaged contents are not the contents the source had at each with_file call", case()).sig("clause", "content").rank(i));
                }
            }
        }
        let distinct = want.iter().map(|w| &w.1).collect::<std::collections::BTreeSet<_>>().len();
        acc.count(&format!("{} calls, {} distinct contents", k, distinct));
        if i % 53 == 0 {
            acc.sample(i, case);
        }
    }));
    SubReport::new(
        "source-rewrite",
        "A (operation sequences)",
        &format!("one PackageBuilder, 2..={} with_file calls all from the same source path; before each call the file is rewritten with one of {} contents (two of equal length, one shorter, empty) and one of {} modification times: all sequences × destinations {{a fresh one per call, the same one for every call, the same one in alternating '/P' and './P' spellings}} = {} builds. Oracle: the four digest kinds recomputed independently, and (fresh destinations) every packaged content is the content at the time of its call", depth, contents.len(), mtimes.len(), n),
        acc,
    )
}

/// What happens to a source file between `with_file` and `build` (small and large sources: a builder may keep the bytes, or
/// a handle and read again): whatever ends up in the archive, the recorded digest must be its digest.
fn source_after_with_file_sub(ctx: &Ctx) -> SubReport {
    use rpm::{FileOptions, PackageBuilder};
    let env = Env::new(&ctx.repo, "c08a");
    let sizes: Vec<usize> = if ctx.thorough() { vec![0, 16, 65_537, (1 << 20) + 1, (4 << 20) - 1, (4 << 20) + 1, (8 << 20) + 5, (64 << 20) + 3] } else { vec![16, 65_537, (4 << 20) + 1, (8 << 20) + 5] };
    const ACTIONS: [&str; 7] = ["nothing", "rewritten in place with other bytes of the same length", "truncated to nothing", "extended by one byte", "shortened by one byte", "removed", "replaced by another file of the same name"];
    let n = (sizes.len() * ACTIONS.len() * 2) as u64;
    let acc = merge(vlib::par::par_fold(n, Acc::new, |i, acc| {
        let two_files = i % 2 == 1;
        let action = ACTIONS[(i / 2) as usize % ACTIONS.len()];
        let size = sizes[(i / 2) as usize / ACTIONS.len()];
        acc.evals += 1;
        let case = || json!({"source_size": size, "between_with_file_and_build_the_source_is": action, "a_second_small_file_is_added_afterwards": two_files});
        let path = env.dir().join(format!("after-{}", i));
        let content: Vec<u8> = (0..size).map(|k| (k % 251) as u8).collect();
        std::fs::write(&path, &content).unwrap_or_else(|e| crate::ctx::machinery(&format!("c08 after: {}", e)));
        let b = PackageBuilder::new("after", "1", "MIT", "noarch", "s").compression(rpm::CompressionWithLevel::None).source_date(1_600_000_000u32);
        let b = match catch(|| b.with_file(&path, FileOptions::new("/data/big"))) {
            Ok(Ok(b)) => b,
            _ => return acc.count("with_file refused (not judged)"),
        };
        use std::io::Write;
        match action {
            "nothing" => {}
            "rewritten in place with other bytes of the same length" => std::fs::write(&path, vec![0xEEu8; size]).unwrap(),
            "truncated to nothing" => std::fs::write(&path, b"").unwrap(),
            "extended by one byte" => std::fs::OpenOptions::new().append(true).open(&path).unwrap().write_all(b"+").unwrap(),
            "shortened by one byte" => std::fs::OpenOptions::new().write(true).open(&path).unwrap().set_len(size.saturating_sub(1) as u64).unwrap(),
            "removed" => std::fs::remove_file(&path).unwrap(),
            _ => {
                std::fs::remove_file(&path).unwrap();
                std::fs::write(&path, b"another file").unwrap();
            }
        }
        let b = if two_files {
            let p2 = env.dir().join(format!("after-{}-second", i));
            std::fs::write(&p2, b"second").unwrap();
            let r = catch(|| b.with_file(&p2, FileOptions::new("/data/second")));
            let _ = std::fs::remove_file(&p2);
            match r {
                Ok(Ok(b)) => b,
                _ => return acc.count("second with_file refused (not judged)"),
            }
        } else {
            b
        };
        let built = catch(|| b.build().and_then(|p| { let mut o = vec![]; p.write(&mut o).map(|_| o) }));
        let _ = std::fs::remove_file(&path);
        let bytes = match built {
            Ok(Ok(o)) => o,
            Ok(Err(e)) => return acc.count(&format!("build refused: {}", e).chars().take(60).collect::<String>()),
            Err(p) => return acc.viol(panic_violation("source-after-with_file", &p, case()).rank(i)),
        };
        if oracle_true_digests_built("source-after-with_file", &bytes, i, &case, acc) {
            acc.nontrivial += 1;
            acc.count("built; digests true");
        }
        if i % 7 == 0 {
            acc.sample(i, case);
        }
    }));
    SubReport::new("source-after-with_file", "A", &format!("sources of {:?} bytes × what happens to the source between with_file and build ∈ {:?} × {{alone, followed by a second with_file}}: if a package is built, every recorded digest is the digest of what the package holds (an error is not judged)", sizes, ACTIONS), acc)
}

/// Entries of every kind built from sources that do have content, and signing an object whose recorded header digest is stale.
fn typed_and_stale_sub(ctx: &Ctx) -> SubReport {
    let env = Env::new(&ctx.repo, "c08t");
    let mut acc = Acc::new();
    // (a) every kind of entry × source with / without content × compression × layout
    let kinds: Vec<(&str, ModeSpec, Vec<&'static str>)> = vec![
        ("regular", ModeSpec::Regular(0o644), vec![]),
        ("symbolic link", ModeSpec::Symlink(0o777), vec![]),
        ("directory", ModeSpec::Dir(0o755), vec![]),
        ("mode without type bits", ModeSpec::Raw(0o600), vec![]),
        ("fifo mode", ModeSpec::Raw(0o010644), vec![]),
        ("ghost", ModeSpec::Regular(0o644), vec!["ghost"]),
        ("config", ModeSpec::Regular(0o644), vec!["config"]),
    ];
    let mut idx = 0u64;
    for (kname, mode, flags) in &kinds {
        for content in [Content::Bytes(vec![]), Content::Bytes(b"hello".to_vec()), Content::Noise(4097)] {
            for comp in [Comp::None, Comp::Gzip(6), Comp::Default] {
                for large in [false, true] {
                    idx += 1;
                    acc.evals += 1;
                    let mut s = BuildSpec::minimal();
                    s.name = "typed".into();
                    s.compression = comp;
                    s.large_files = large;
                    let mut f = FileSpec::new("/t/entry", content.clone());
                    f.mode = mode.clone();
                    f.flags = flags.clone();
                    if matches!(mode, ModeSpec::Symlink(_)) {
                        f.symlink = Some("target".into());
                    }
                    s.files = vec![FileSpec::new("/t/before", Content::Bytes(b"b".to_vec())), f, FileSpec::new("/t/zz-after", Content::Bytes(b"after".to_vec()))];
                    let case = || json!({"entry_kind": kname, "source_bytes": content.len(), "spec": s.to_json()});
                    match catch(|| s.build_bytes(&env)) {
                        Ok(Ok((_, bytes))) => {
                            if oracle_true_digests_built("typed-sources", &bytes, idx, &case, &mut acc) {
                                acc.nontrivial += 1;
                                acc.count(kname);
                            }
                        }
                        Ok(Err(_)) => acc.count("build refused (not judged)"),
                        Err(p) => acc.viol(panic_violation("typed-sources", &p, case()).rank(idx)),
                    }
                }
            }
        }
    }
    // (b) signing an object whose signature header records a header digest that is not (or no longer) true
    let a = crate::corpus::one_file().build(&env).unwrap_or_else(|e| crate::ctx::machinery(&format!("c08 stale: {}", e)));
    let mut rich = crate::corpus::rich();
    rich.compression = Comp::Gzip(6);
    let b = rich.build(&env).unwrap_or_else(|e| crate::ctx::machinery(&format!("c08 stale: {}", e)));
    let asset = rpm::Package::open(ctx.asset("test_assets/ima_signed.rpm")).unwrap_or_else(|e| crate::ctx::machinery(&format!("asset: {}", e)));
    let mut starts: Vec<(&str, rpm::Package)> = vec![];
    {
        let mut p = a.clone();
        p.metadata.header = b.metadata.header.clone();
        p.content = b.content.clone();
        starts.push(("built package whose header and content were replaced through the public fields", p));
        let mut p = b.clone();
        p.metadata.signature = a.metadata.signature.clone();
        starts.push(("built package carrying another package's signature header", p));
        let mut p = asset.clone();
        p.metadata.signature = a.metadata.signature.clone();
        starts.push(("rpmbuild asset carrying a foreign signature header", p));
        starts.push(("rpmbuild asset as shipped", asset.clone()));
        starts.push(("built package as built", a.clone()));
    }
    for (si, (sname, start)) in starts.iter().enumerate() {
        for key in crate::keys::FAST_KEYS {
            for op in ["sign", "sign_with_timestamp", "clear_signatures", "sign twice", "clear then sign"] {
                acc.evals += 1;
                let case = || json!({"start": sname, "key": key.name(), "operation": op});
                let signer = env.signer(key);
                let r = catch(|| {
                    let mut p = start.clone();
                    match op {
                        "sign" => p.sign(&signer)?,
                        "sign_with_timestamp" => p.sign_with_timestamp(&signer, 1_600_000_000u32)?,
                        "clear_signatures" => p.clear_signatures()?,
                        "sign twice" => {
                            p.sign(&signer)?;
                            p.sign_with_timestamp(&signer, 1_600_000_000u32)?
                        }
                        _ => {
                            p.clear_signatures()?;
                            p.sign(&signer)?
                        }
                    }
                    write_pkg(&p).map_err(|_| rpm::Error::NoSignatureFound)
                });
                let rank = 10_000 + (si * 100) as u64;
                match r {
                    Err(pn) => acc.viol(panic_violation("stale-then-sign", &pn, case()).rank(rank)),
                    Ok(Err(e)) => acc.viol(Violation::new("stale-then-sign", format!("{} failed: {}", op, e), case()).sig("clause", "sign-fails").rank(rank)),
                    Ok(Ok(bytes)) => {
                        if oracle_true_digests("stale-then-sign", &bytes, rank, &case, &mut acc) {
                            acc.nontrivial += 1;
                            acc.count(op);
                        }
                    }
                }
            }
        }
    }
    SubReport::new(
        "typed-and-stale",
        "A",
        &format!("(a) an entry of each kind {:?} × source with 0 / 5 / 4097 bytes × compression {{none, gzip, default}} × standard / large-file layout: every recorded digest is the digest of what is archived for that entry; (b) {} objects whose recorded header digest is stale or foreign (public fields replaced) × 4 keys × {{sign, sign_with_timestamp, clear_signatures, sign twice, clear then sign}}: afterwards all recorded digests are true", kinds.iter().map(|k| k.0).collect::<Vec<_>>(), starts.len()),
        acc,
    )
}

pub fn run(ctx: &Ctx) -> i32 {
    let s1 = writer_sub(ctx);
    let s_ts = typed_and_stale_sub(ctx);
    let s_sign = signers_sub(ctx);
    let s_rw = source_rewrite_sub(ctx);
    let s_aw = source_after_with_file_sub(ctx);
    let s2 = crate::corpus::run_corpus(ctx, "corpus", "oracle: header SHA-256, payload digest, alternate (uncompressed) payload digest and per-file digests recomputed after independent decompression", &|sub, it, rank, acc| {
        if oracle_true_digests_built(sub, &it.bytes, rank, &|| it.desc.clone(), acc) {
            acc.nontrivial += 1;
            if rank % 1499 == 0 {
                acc.sample(rank, || json!({"corpus_item": it.spec.name, "compression": format!("{:?}", it.spec.compression), "history": it.desc["history"]}));
            }
        }
    });
    // sizes at which the encoders answer with short writes
    let env = Env::new(&ctx.repo, "c08");
    let mut big: Vec<BuildSpec> = vec![];
    let sizes: Vec<usize> = if ctx.thorough() { vec![200_000, 2 << 20, 8 << 20] } else { vec![200_000, 1 << 20] };
    for n in sizes {
        for c in [Comp::None, Comp::Gzip(6), Comp::Gzip(1), Comp::Zstd(3), Comp::Zstd(19), Comp::Xz(1), Comp::Default] {
            for noise in [true, false] {
                let mut s = BuildSpec::minimal();
                s.name = "big".into();
                s.compression = c;
                s.files = vec![FileSpec::new("/big/file", if noise { Content::Noise(n) } else { Content::Text(n) }), FileSpec::new("/big/small", Content::Bytes(b"tail".to_vec()))];
                big.push(s);
            }
        }
    }
    let b = merge(vlib::par::par_fold(big.len() as u64, Acc::new, |i, acc| {
        let spec = &big[i as usize];
        acc.evals += 1;
        let case = || json!({"spec": spec.to_json()});
        match catch(|| spec.build_bytes(&env)) {
            Ok(Ok((_, bytes))) => {
                if oracle_true_digests_built("large-files", &bytes, i, &case, acc) {
                    acc.nontrivial += 1;
                    acc.count(&format!("{:?}", spec.compression));
                    acc.sample(i, || json!({"file_bytes": spec.files[0].content.len(), "compression": format!("{:?}", spec.compression)}));
                }
            }
            Ok(Err(e)) => acc.viol(Violation::new("large-files", format!("build failed: {}", e), case()).sig("clause", "build-fails").rank(i)),
            Err(p) => acc.viol(panic_violation("large-files", &p, case()).rank(i)),
        }
    }));
    let s3 = SubReport::new("large-files", "A", &format!("{} builds with one file of 200 KB / 1 MiB (thorough: 2 and 8 MiB), compressible and incompressible, with every compressor incl. the default zstd-19 — sizes at which the encoders accept only part of a buffer; same four digest oracles", big.len()), b);
    for s in [&s1, &s2, &s3, &s_sign, &s_rw, &s_aw, &s_ts] {
        if s.acc.nontrivial == 0 {
            crate::ctx::machinery(&format!("sub-check {} judged nothing: vacuous", s.name));
        }
    }
    ctx.finish(
        "fault_enumeration",
        vec![s1, s2, s3, s_sign, s_rw, s_aw, s_ts],
        &[
            "the decompressors (flate2, zstd, liblzma) and RustCrypto sha2 are the crates the library uses itself; the cpio reader and header decoder are the harness's own",
            "file sizes beyond 1 MiB (quick) / 8 MiB (thorough) are not covered",
        ],
        vec![],
    )
}

pub fn replay(_ctx: &Ctx, v: &Value) -> i32 {
    println!("re-run ./check C08; case: {}", v["case"]);
    0
}
