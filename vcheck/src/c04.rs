//! C04 — untrusted bytes never crash the reader (engine A in worker processes).
use crate::common::*;
use crate::ctx::Ctx;
use crate::foreign;
use crate::keys::Key;
use crate::oracles::*;
use crate::pkgtool::*;
use crate::spec::*;
use crate::sweep::{run_single, run_sweep, Sweep};
use serde_json::{json, Value};
use std::sync::Arc;
use vlib::par::{decode, product};
use vlib::refhdr::{assemble, RawEntry, RawHeader, RawLead, Val};
use vlib::report::{catch, Acc, SubReport, Violation};

struct NullLog;
impl log::Log for NullLog {
    fn enabled(&self, _: &log::Metadata) -> bool {
        true
    }
    fn log(&self, r: &log::Record) {
        // evaluate the arguments (the debug-print helper in the signature path indexes its input)
        let _ = format!("{}", r.args());
    }
    fn flush(&self) {}
}
static LOGGER: NullLog = NullLog;

pub fn install_logger() {
    let _ = log::set_logger(&LOGGER);
    log::set_max_level(log::LevelFilter::Trace);
}

#[derive(Debug)]
struct AcceptAll;
impl rpm::signature::Verifying for AcceptAll {
    type Signature = Vec<u8>;
    fn verify(&self, mut data: impl std::io::Read, _sig: &[u8]) -> Result<(), rpm::Error> {
        let mut v = vec![];
        let _ = data.read_to_end(&mut v);
        Ok(())
    }
    fn algorithm(&self) -> rpm::signature::AlgorithmType {
        rpm::signature::AlgorithmType::RSA
    }
}

pub struct Tools {
    verifiers: Vec<rpm::signature::pgp::Verifier>,
}

impl Tools {
    pub fn new(ctx: &Ctx) -> Self {
        install_logger();
        Tools {
            verifiers: vec![Key::Ed25519.verifier(&ctx.repo), Key::Rsa4096.verifier(&ctx.repo)],
        }
    }
}

/// Memory bound of DESIGN §2.5.
fn mem_bound(input_len: usize) -> u64 {
    (1u64 << 20) + 512 * input_len as u64
}

/// Every public read-side entry point on `x`. Records panics and allocation out of proportion.
pub fn exercise(tools: &Tools, sub: &str, x: &[u8], rank: u64, case: &dyn Fn() -> Value, acc: &mut Acc) {
    acc.evals += 1;
    vlib::alloc::set_trace_above(mem_bound(x.len()) as usize);
    let base = vlib::alloc::reset();
    let mut panics: Vec<(&'static str, vlib::report::Panic)> = vec![];
    macro_rules! guard {
        ($api:expr, $e:expr) => {
            match catch(|| $e) {
                Ok(v) => Some(v),
                Err(p) => {
                    panics.push(($api, p));
                    None
                }
            }
        };
    }
    let meta = guard!("PackageMetadata::parse", rpm::PackageMetadata::parse(&mut &x[..]));
    if let Some(Ok(m)) = &meta {
        let _ = guard!("PackageMetadata::write", {
            let mut o = vec![];
            let _ = m.write(&mut o);
        });
    }
    let pkg = guard!("Package::parse", rpm::Package::parse(&mut &x[..]));
    match pkg {
        Some(Ok(p)) => {
            acc.nontrivial += 1;
            acc.count("accepted");
            let m = &p.metadata;
            guard!("scalar accessors", {
                let _ = (m.get_name(), m.get_epoch(), m.get_version(), m.get_release(), m.get_arch(), m.get_vendor(), m.get_url(), m.get_vcs());
                let _ = (m.get_license(), m.get_summary(), m.get_description(), m.get_group(), m.get_packager(), m.get_build_time(), m.get_build_host());
                let _ = (m.get_cookie(), m.get_source_rpm(), m.is_source_package(), m.get_installed_size(), m.get_payload_compressor(), m.get_file_digest_algorithm());
            });
            guard!("scriptlet accessors", {
                let _ = (m.get_pre_install_script().is_ok(), m.get_post_install_script().is_ok(), m.get_pre_uninstall_script().is_ok(), m.get_post_uninstall_script().is_ok());
                let _ = (m.get_pre_trans_script().is_ok(), m.get_post_trans_script().is_ok(), m.get_pre_untrans_script().is_ok(), m.get_post_untrans_script().is_ok());
            });
            guard!("dependency accessors", {
                let _ = (m.get_provides(), m.get_requires(), m.get_conflicts(), m.get_obsoletes(), m.get_recommends(), m.get_suggests(), m.get_enhances(), m.get_supplements());
            });
            guard!("get_changelog_entries", m.get_changelog_entries());
            guard!("get_file_paths", m.get_file_paths());
            guard!("get_file_entries", m.get_file_entries());
            guard!("get_package_segment_offsets", m.get_package_segment_offsets());
            guard!("Display/Debug", {
                let _ = format!("{}", m.header);
                let _ = format!("{}", m.signature);
                let _ = format!("{:?}", m);
            });
            guard!("verify_digests", p.verify_digests());
            guard!("verify_signature(accepting verifier)", p.verify_signature(AcceptAll));
            for v in &tools.verifiers {
                guard!("verify_signature(pgp verifier)", p.verify_signature(v));
            }
            guard!("signature_key_ids", p.signature_key_ids());
            // iteration over an uncompressed payload
            let comp = catch(|| m.get_payload_compressor()).ok().and_then(|r| r.ok());
            // (the vocabulary sweep's payloads are tiny: there the payload is iterated whatever the header says about its compression)
            if comp == Some(rpm::CompressionType::None) || sub == "tag-vocabulary" {
                guard!("files()", {
                    if let Ok(it) = p.files() {
                        let mut n = 0usize;
                        for f in it {
                            n += 1;
                            if f.is_err() || n > 100_000 {
                                break;
                            }
                        }
                    }
                });
                // the iterator protocol beyond next(): size_hint between items, and the adaptors that consult it
                guard!("files() as an Iterator (size_hint, collect)", {
                    if let Ok(mut it) = p.files() {
                        let mut n = 0usize;
                        loop {
                            let _ = it.size_hint();
                            match it.next() {
                                Some(Ok(_)) if n < 100_000 => n += 1,
                                _ => break,
                            }
                        }
                        let _ = it.size_hint();
                    }
                    if let Ok(it) = p.files() {
                        let _: Vec<_> = it.take(100_000).collect();
                    }
                });
            } else {
                acc.count("payload iteration skipped (compressed or unknown compressor)");
            }
            guard!("Package::write", {
                let mut o = vec![];
                let _ = p.write(&mut o);
            });
        }
        Some(Err(e)) => acc.count(&format!("rejected: {}", err_kind(&e))),
        None => acc.count("parse panicked"),
    }
    let u = vlib::alloc::usage(base);
    for (api, p) in panics {
        acc.viol(
            Violation::new(sub, format!("{} panics at {}", api, p.at), case())
                .sig("clause", "no-panic")
                .sig("panic_at", p.location())
                .rank(rank),
        );
    }
    if u.peak > mem_bound(x.len()) || u.max_request > mem_bound(x.len()) {
        let site = vlib::alloc::big_site().unwrap_or_else(|| "many small allocations".to_string());
        acc.viol(
            Violation::new(sub, format!("input of {} bytes: peak {} bytes live, largest single request {} bytes (bound {}); requested from {}", x.len(), u.peak, u.max_request, mem_bound(x.len()), site), case())
                .sig("clause", "memory-out-of-proportion")
                .sig("site", site.split(" (").next().unwrap_or("").to_string())
                .rank(rank),
        );
    }
}

fn bytes_case(x: &[u8], extra: Value) -> Value {
    // inputs of many megabytes are described by their generator parameters (in `extra`), length and digest
    let mut c = if x.len() <= (1 << 20) { json!({"bytes_hex": vlib::hex(x)}) } else { json!({"bytes_len": x.len(), "bytes_sha256": crate::oracles::sha256_hex(x)}) };
    if let (Some(m), Some(e)) = (c.as_object_mut(), extra.as_object()) {
        for (k, v) in e {
            m.insert(k.clone(), v.clone());
        }
    }
    c
}

// ------------------------------------------------------------------ (a) boundary product

const TYPES: u64 = 11;

fn boundary_sweep(tools: Arc<Tools>, which_sig: bool, n_entries: usize) -> Sweep {
    let stores: Vec<Vec<u8>> = vec![b"ab\0c\0".to_vec(), b"abcde".to_vec(), vec![], vec![0, 0, 0, 0, 0, 0, 0, 1, 0]];
    let name = format!("boundary-{}{}", if which_sig { "sig" } else { "hdr" }, n_entries);
    // intro axes: declared nindex / hsize relative to the truth
    let intro_n = if n_entries <= 1 { 8u64 } else { 1 };
    let mut rad = vec![stores.len() as u64, intro_n, intro_n];
    for _ in 0..n_entries {
        rad.extend_from_slice(&[TYPES, 7, 5]);
    }
    let n = product(&rad);
    let rule = format!(
        "{} header, {} entr{}: declared (nindex, hsize) ∈ {{0,1,n,n+1,0xFFFF,0x10000,2^28,2^32−1}}² (truthful for 2 entries) × per entry type 0..=10 × offset ∈ {{−2^31,−1,0,len−1,len,len+1,2^31−1}} × count ∈ {{0,1,len,len+1,2^32−1}} × 4 stores with and without terminators; every read-side API; oracle: no panic / abort / stall / allocation beyond 1 MiB + 512×input; non-trivial = accepted by the parser",
        if which_sig { "signature" } else { "main" }, n_entries, if n_entries == 1 { "y" } else { "ies" }
    );
    let nm = name.clone();
    Sweep::new(&nm, rule, n, move |i, acc| {
        let d = decode(i, &rad);
        let store = &stores[d[0] as usize];
        let len = store.len() as i64;
        let mut es = vec![];
        for k in 0..n_entries {
            let off = [i32::MIN as i64, -1, 0, len - 1, len, len + 1, i32::MAX as i64][d[3 + 3 * k + 1] as usize];
            let cnt = [0i64, 1, len, len + 1, u32::MAX as i64][d[3 + 3 * k + 2] as usize];
            es.push(RawEntry { tag: 1000 + k as u32, ty: d[3 + 3 * k] as u32, offset: off as i32, count: cnt as u32 });
        }
        let mut h = RawHeader::new(es, store.clone());
        let pick = |digit: u64, truth: u32| -> u32 { [0, 1, truth, truth.wrapping_add(1), 0xFFFF, 0x10000, 1 << 28, u32::MAX][digit as usize] };
        if intro_n > 1 {
            h.nindex = pick(d[1], n_entries as u32);
            h.hsize = pick(d[2], store.len() as u32);
        }
        let lead = RawLead::new("n");
        let other_main = RawHeader::layout(&[(1000, Val::str("n"))]);
        let (x, _) = if which_sig { assemble(&lead, &h, 0, &other_main, b"") } else { assemble(&lead, &RawHeader::new(vec![], vec![]), 0, &h, b"pay") };
        exercise(&tools, &name, &x, i, &|| bytes_case(&x, json!({"declared_nindex": h.nindex, "declared_hsize": h.hsize, "entries": format!("{:?}", h.entries), "store_hex": vlib::hex(&h.store)})), acc);
        if i % 50_021 == 0 {
            acc.sample(i, || json!({"entries": format!("{:?}", h.entries), "declared": [h.nindex, h.hsize]}));
        }
    })
}

/// The 16-byte region trailer in the data store (not reachable by index-field sweeps): every word from boundary values.
fn region_trailer_sweep(tools: Arc<Tools>) -> Sweep {
    let tags: [u32; 5] = [0 /* = the header's own region tag */, 1, 61, 1000, u32::MAX];
    let types: [u32; 4] = [7, 0, 10, u32::MAX];
    let offsets: [i64; 10] = [i64::MAX /* = correct */, 0, 1, -1, -16, 16, i32::MIN as i64, i32::MIN as i64 + 1, i32::MAX as i64, -(1 << 20)];
    let counts: [u32; 5] = [16, 0, 1, 0x7fff_ffff, u32::MAX];
    // the region entry in the index: as laid out / pointing at the start of the store / with count 0
    let rad = [2u64, tags.len() as u64, types.len() as u64, offsets.len() as u64, counts.len() as u64, 3];
    let n = product(&rad);
    let rule = format!("signature and main header laid out like rpm's (region entry first, 16-byte trailer at the end of the store) with every word of the trailer from boundary values: tag ∈ {{own, 1, 61, 1000, 2^32−1}} × type ∈ {{7, 0, 10, 2^32−1}} × offset ∈ {{correct, 0, ±1, ±16, −2^31, −2^31+1, 2^31−1, −2^20}} × count ∈ {{16, 0, 1, 2^31−1, 2^32−1}} × region index entry {{as laid out, offset 0, count 0}} ({} inputs); every read-side API; same oracle", n);
    Sweep::new("region-trailer", rule, n, move |i, acc| {
        let d = decode(i, &rad);
        let sig = d[0] == 1;
        let own = if sig { 62u32 } else { 63 };
        let mut h = RawHeader::layout_region(own, &[(1000, Val::str("name")), (1001, Val::str("1.0")), (1004, Val::i18n(&["s"]))]);
        let tl = h.store.len() - 16;
        let word = |v: u32| v.to_be_bytes();
        let correct_off = i32::from_be_bytes(h.store[tl + 8..tl + 12].try_into().unwrap());
        let tag = if tags[d[1] as usize] == 0 { own } else { tags[d[1] as usize] };
        let off = if offsets[d[3] as usize] == i64::MAX { correct_off } else { offsets[d[3] as usize] as i32 };
        h.store[tl..tl + 4].copy_from_slice(&word(tag));
        h.store[tl + 4..tl + 8].copy_from_slice(&word(types[d[2] as usize]));
        h.store[tl + 8..tl + 12].copy_from_slice(&off.to_be_bytes());
        h.store[tl + 12..tl + 16].copy_from_slice(&word(counts[d[4] as usize]));
        match d[5] {
            1 => h.entries[0].offset = 0,
            2 => h.entries[0].count = 0,
            _ => {}
        }
        let lead = RawLead::new("n");
        let (x, _) = if sig {
            assemble(&lead, &h, 0, &RawHeader::layout(&[(1000, Val::str("n"))]), b"")
        } else {
            assemble(&lead, &RawHeader::new(vec![], vec![]), 0, &h, b"pay")
        };
        exercise(&tools, "region-trailer", &x, i, &|| bytes_case(&x, json!({"header": if sig { "signature" } else { "main" }, "trailer": {"tag": tag, "type": types[d[2] as usize], "offset": off, "count": counts[d[4] as usize]}, "region_index_entry": (["as laid out", "offset 0", "count 0"][d[5] as usize])})), acc);
        if i % 997 == 0 {
            acc.sample(i, || json!({"header": if sig { "signature" } else { "main" }, "trailer_offset": off}));
        }
    })
}

// ------------------------------------------------------------------ (b) one deviation from valid seeds

const QUICK_VALUES: [u8; 18] = [0x00, 0x01, 0x02, 0x03, 0x04, 0x05, 0x06, 0x07, 0x08, 0x09, 0x0a, 0x10, 0x20, 0x3f, 0x40, 0x7f, 0x80, 0xff];

fn seeds(ctx: &Ctx, env: &Env) -> Vec<(String, Vec<u8>)> {
    let mut v = vec![];
    let mut s = crate::corpus::rich();
    s.files.truncate(3);
    s.sign = Some(Key::Ed25519);
    v.push(("built-signed".to_string(), s.build_bytes(env).unwrap_or_else(|e| crate::ctx::machinery(&format!("seed build: {}", e))).1));
    let files = foreign::sample_files();
    let order: Vec<usize> = (0..files.len()).collect();
    v.push(("hand-encoded".to_string(), foreign::package("hand", &files, foreign::newc_archive(&files, &order), None, false).join().0));
    // the same with translated summary / description / group (a two-locale table)
    {
        use crate::pkgtool::{with_digests, DigestPlan, D};
        use vlib::refhdr::Val;
        let mut p = foreign::package("hand", &files[..1], foreign::newc_archive(&files[..1], &[0]), None, false);
        p.main.retain(|(t, _)| ![1004u32, 1005].contains(t));
        // "C" is not the first locale of the table
        p.main.push((100, Val::strs(&["de", "C", "fr"])));
        p.main.push((1004, Val::i18n(&["Zusammenfassung", "summary", "résumé"])));
        p.main.push((1005, Val::i18n(&["Beschreibung", "description", "description fr"])));
        p.main.push((1016, Val::i18n(&["Gruppe", "group", "groupe"])));
        v.push(("hand-i18n".to_string(), with_digests(&p, &DigestPlan { md5: D::Correct, sha1: D::Correct, sha256: D::Correct, payload: D::Correct, algo: 8 }).0));
        // and one whose table starts with "C" and names the German locale second
        let mut q = p.clone();
        q.main.retain(|(t, _)| ![100u32, 1004, 1005, 1016].contains(t));
        q.main.push((100, Val::strs(&["C", "de"])));
        q.main.push((1004, Val::i18n(&["summary", "Zusammenfassung"])));
        q.main.push((1005, Val::i18n(&["description", "Beschreibung"])));
        q.main.push((1016, Val::i18n(&["group", "Gruppe"])));
        v.push(("hand-i18n-C-first".to_string(), with_digests(&q, &DigestPlan { md5: D::Correct, sha1: D::Correct, sha256: D::Correct, payload: D::Correct, algo: 8 }).0));
    }
    for rel in ["test_assets/fixture_packages/rpm-empty-0-0.x86_64.rpm", "test_assets/fixture_packages/rpm-empty-0-0.src.rpm"] {
        v.push((rel.rsplit('/').next().unwrap().to_string(), std::fs::read(ctx.asset(rel)).unwrap_or_else(|e| crate::ctx::machinery(&format!("{}: {}", rel, e)))));
    }
    v
}

fn mutate_sweep(tools: Arc<Tools>, name: &str, seed: Vec<u8>, all_values: bool) -> Sweep {
    let per: u64 = if all_values { 255 } else { 26 };
    let n = seed.len() as u64 * per + seed.len() as u64; // substitutions + truncations
    let nm = format!("mutate-{}", name);
    let rule = format!(
        "one deviation from the valid package {} ({} bytes): every truncation 0..len, and at every byte position {}; every read-side API; non-trivial = still accepted by the parser",
        name, seed.len(), if all_values { "every one of the 255 other values" } else { "18 boundary values and the 8 single-bit flips" }
    );
    let nm2 = nm.clone();
    Sweep::new(&nm2, rule, n, move |i, acc| {
        let subs = seed.len() as u64 * per;
        if i >= subs {
            let cut = (i - subs) as usize;
            exercise(&tools, &nm, &seed[..cut], i, &|| json!({"seed": nm, "truncated_to": cut, "bytes_hex": if cut <= 8192 { vlib::hex(&seed[..cut]) } else { String::new() }}), acc);
            return;
        }
        let pos = (i / per) as usize;
        let k = i % per;
        let orig = seed[pos];
        let val = if all_values {
            let v = k as u8;
            if v >= orig {
                v + 1
            } else {
                v
            }
        } else if k < 18 {
            QUICK_VALUES[k as usize]
        } else {
            orig ^ (1 << (k - 18))
        };
        if val == orig {
            return;
        }
        if !all_values {
            // skip slots that duplicate an earlier slot at this position
            let earlier = (0..k).any(|j| (if j < 18 { QUICK_VALUES[j as usize] } else { orig ^ (1 << (j - 18)) }) == val);
            if earlier {
                return;
            }
        }
        let mut x = seed.clone();
        x[pos] = val;
        exercise(&tools, &nm, &x, i, &|| json!({"seed": nm, "position": pos, "value": val, "bytes_hex": if x.len() <= 8192 { vlib::hex(&x) } else { String::new() }}), acc);
        if i % 100_003 == 0 {
            acc.sample(i, || json!({"seed": nm, "position": pos, "original": orig, "value": val}));
        }
    })
}

// ------------------------------------------------------------------ (c) two deviations in intros / index entries

fn two_dev_sweep(tools: Arc<Tools>, name: &str, seed: Vec<u8>) -> Sweep {
    let l = vlib::refhdr::scan(&seed).expect("seed scans").3;
    // structural positions: both intros (bytes 8..16) and every index entry word
    let mut words: Vec<usize> = vec![];
    for (off, hl) in [(l.sig_off, l.sig_len), (l.hdr_off, l.hdr_len)] {
        words.push(off + 8);
        words.push(off + 12);
        let nidx = u32::from_be_bytes(seed[off + 8..off + 12].try_into().unwrap()) as usize;
        for e in 0..nidx.min((hl - 16) / 16) {
            for w in 1..4 {
                words.push(off + 16 + 16 * e + 4 * w);
            }
        }
    }
    let vals: [u32; 8] = [0, 1, 7, 0xFF, 0xFFFF, 0x7FFF_FFFF, 0x8000_0000, 0xFFFF_FFFF];
    let nw = words.len() as u64;
    let n = nw * nw * 64;
    let nm = format!("two-deviations-{}", name);
    let rule = format!("two deviations from {}: every ordered pair of 32-bit structural words (intro counts/sizes and the type/offset/count of every index entry: {} words) × boundary values {:x?}²", name, nw, vals);
    let nm2 = nm.clone();
    Sweep::new(&nm2, rule, n, move |i, acc| {
        let a = (i / 64 / nw) as usize;
        let b = (i / 64 % nw) as usize;
        if a >= b {
            return; // unordered pairs of distinct words
        }
        let (va, vb) = (vals[(i % 64 / 8) as usize], vals[(i % 8) as usize]);
        let mut x = seed.clone();
        x[words[a]..words[a] + 4].copy_from_slice(&va.to_be_bytes());
        x[words[b]..words[b] + 4].copy_from_slice(&vb.to_be_bytes());
        exercise(&tools, &nm, &x, i, &|| json!({"seed": nm, "word_offsets": [words[a], words[b]], "values": [va, vb], "bytes_hex": if x.len() <= 8192 { vlib::hex(&x) } else { String::new() }}), acc);
        if i % 200_003 == 0 {
            acc.sample(i, || json!({"seed": nm, "word_offsets": [words[a], words[b]], "values": [va, vb]}));
        }
    })
}

// ------------------------------------------------------------------ (d) hostile cpio

fn cpio_sweep(tools: Arc<Tools>) -> Sweep {
    let files = foreign::sample_files();
    let order: Vec<usize> = (0..files.len()).collect();
    let good = foreign::newc_archive(&files, &order);
    // build the list of hostile archives once
    let mut archives: Vec<(String, Vec<u8>)> = vec![("valid".into(), good.clone())];
    for cut in 0..good.len() {
        archives.push((format!("truncated at {}", cut), good[..cut].to_vec()));
    }
    // field-level corruption of the first entry header: 13 hex fields at 6 + 8k
    for field in 0..13usize {
        for val in ["00000000", "00000001", "00001000", "00001001", "ffffffff", "0000000g", "zzzzzzzz", "7fffffff", "80000000"] {
            let mut a = good.clone();
            a[6 + 8 * field..14 + 8 * field].copy_from_slice(val.as_bytes());
            archives.push((format!("entry 0 field {} = {}", field, val), a));
        }
    }
    // same for the second entry
    let second = {
        let e0 = 110 + files[0].cpio_name().len() + 1;
        let e0 = (e0 + 3) / 4 * 4 + files[0].archive_data().len();
        (e0 + 3) / 4 * 4
    };
    for field in [6usize, 11] {
        for val in ["00000000", "00001001", "ffffffff", "7fffffff"] {
            let mut a = good.clone();
            a[second + 6 + 8 * field..second + 14 + 8 * field].copy_from_slice(val.as_bytes());
            archives.push((format!("entry 1 field {} = {}", field, val), a));
        }
    }
    // stripped entries with every interesting index
    for idx in [0u32, 1, 2, 3, 4, 0x7fff_ffff, 0xffff_fffe, 0xffff_ffff] {
        for padded in [true, false] {
            let mut a = vec![];
            a.extend_from_slice(b"07070X");
            a.extend_from_slice(format!("{:08x}", idx).as_bytes());
            if padded {
                a.extend_from_slice(&[0, 0]);
            }
            a.extend_from_slice(b"0123456789abcdef0123456789abcdef");
            archives.push((format!("stripped index {:#x} padded={}", idx, padded), a));
        }
    }
    // no trailer, garbage, magic variants
    let mut no_trailer = vec![];
    for &i in &order {
        let f = &files[i];
        vlib::refcpio::write_newc(&mut no_trailer, &vlib::refcpio::Newc::file(&f.cpio_name(), f.mode as u32, 1, &f.archive_data()));
    }
    archives.push(("no trailer".into(), no_trailer));
    archives.push(("crc magic".into(), {
        let mut a = good.clone();
        a[5] = b'2';
        a
    }));
    archives.push(("garbage".into(), vec![0xff; 200]));
    // name fields made of, or padded with, NUL bytes (dracut pads names; a field can also hold nothing but padding)
    for (what, name) in [("empty", ""), ("one NUL", "\0"), ("three NULs", "\0\0\0"), ("seven NULs", "\0\0\0\0\0\0\0"), ("the first file's name padded with three NULs", "PAD"), ("a NUL in front of the first file's name", "FRONT"), ("'.' and a NUL", ".\0"), ("'./' and a NUL", "./\0")] {
        let f0 = &files[0];
        let nm = match name {
            "PAD" => format!("{}\0\0\0", f0.cpio_name()),
            "FRONT" => format!("\0{}", f0.cpio_name()),
            other => other.to_string(),
        };
        let mut a = vec![];
        vlib::refcpio::write_newc(&mut a, &vlib::refcpio::Newc::file(&nm, f0.mode as u32, 1, &f0.archive_data()));
        for &i in order.iter().skip(1) {
            let f = &files[i];
            vlib::refcpio::write_newc(&mut a, &vlib::refcpio::Newc::file(&f.cpio_name(), f.mode as u32, 1, &f.archive_data()));
        }
        vlib::refcpio::write_trailer(&mut a);
        archives.push((format!("first entry's name field: {}", what), a));
    }
    // large archives are generated when their case runs (every worker process builds this list at start-up)
    type Gen = Arc<dyn Fn() -> Vec<u8> + Send + Sync>;
    let mut lazy: Vec<(String, Gen)> = vec![];
    // the "crc" flavour of the new ASCII format (magic 070702): checksum field right / zero / wrong, small and large sums
    {
        let f0 = files[0].clone();
        let crc_archive = move |data: &[u8], check: u32| {
            let mut e = vlib::refcpio::Newc::file(&f0.cpio_name(), f0.mode as u32, 1, data);
            e.check = check;
            let mut a = vec![];
            vlib::refcpio::write_newc(&mut a, &e);
            a[5] = b'2';
            vlib::refcpio::write_trailer(&mut a);
            a
        };
        let small = files[0].archive_data();
        let sum = |d: &[u8]| d.iter().fold(0u32, |s, b| s.wrapping_add(*b as u32));
        for (n, c) in [("right", sum(&small)), ("zero", 0), ("wrong", 0xffff_ffff)] {
            archives.push((format!("crc entry, checksum {}", n), crc_archive(&small, c)));
        }
        // byte sums that pass 2^31 and 2^32 (the field is defined modulo 2^32)
        for (n, len) in [("2^31", (1usize << 31) / 255 + 1), ("2^32", (1usize << 32) / 255 + 1)] {
            let ca = crc_archive.clone();
            lazy.push((format!("crc entry of {} bytes 0xFF (byte sum passes {}), checksum right", len, n), Arc::new(move || {
                let big = vec![0xffu8; len];
                let s = big.iter().fold(0u32, |s, b| s.wrapping_add(*b as u32));
                ca(&big, s)
            })));
        }
    }
    // long runs: very many consecutive entries of one kind
    for count in [3_000usize, 200_000] {
        for (what, name) in [("entries that are not in the header", "."), ("copies of the first file's entry", ""), ("trailers", "TRAILER!!!")] {
            let f0 = files[0].clone();
            lazy.push((format!("{} consecutive {}", count, what), Arc::new(move || {
                let mut a = vec![];
                for _ in 0..count {
                    let nm = if name.is_empty() { f0.cpio_name() } else { name.to_string() };
                    let mut e = vlib::refcpio::Newc::file(&nm, if name == "." { 0o040755 } else { f0.mode as u32 }, 1, &[]);
                    e.nlink = 1;
                    vlib::refcpio::write_newc(&mut a, &e);
                }
                vlib::refcpio::write_trailer(&mut a);
                a
            })));
        }
    }
    let n_eager = archives.len();
    let n_arch = n_eager + lazy.len();
    archives.push(("name not terminated".into(), {
        let mut a = good.clone();
        let e = 110 + files[0].cpio_name().len();
        a[e] = b'x';
        a
    }));
    archives.push(("name not utf-8".into(), {
        let mut a = good.clone();
        a[112] = 0xff;
        a
    }));
    let long_variants = [false, true];
    // sizes the *header* declares for the first file (stripped entries take their length from the header)
    // u64::MAX - 7 stands for: EVERY file declared with 2^63 bytes and the package-level size tags removed (sums of sizes)
    const ALL_HUGE: u64 = u64::MAX - 7;
    let size_overrides: [Option<u64>; 10] = [None, Some(0), Some(u32::MAX as u64), Some(1 << 32), Some((1 << 32) + 1), Some(1 << 63), Some(u64::MAX - 3), Some(u64::MAX - 1), Some(u64::MAX), Some(ALL_HUGE)];
    let n = n_arch as u64 * 2 * size_overrides.len() as u64;
    let rule = format!("{} hostile cpio archives inside an otherwise valid uncompressed hand-encoded package (every truncation; each of the 13 header fields of the first entry and size/namesize of the second ∈ boundary / non-hex values, i.e. name length 0/1/4096/4097/2^32−1 and file sizes up to 2^32−1; stripped entries with index 0..n+1, 2^31−1, 2^32−2, 2^32−1 with and without alignment bytes; missing trailer; bad magic; unterminated / non-UTF-8 name; crc-flavoured entries with right / zero / wrong checksum and byte sums passing 2^31 and 2^32; runs of 3 000 and 200 000 consecutive foreign entries / repeated entries / trailers) × header with 32-bit / 64-bit size tags × size declared by the header for the first file ∈ {{as archived, 0, 2^32−1, 2^32, 2^32+1, 2^63, 2^64−4, 2^64−2, 2^64−1; every file declared with 2^63 bytes and no package-level size tag}} (for the valid and the stripped archives)", n_arch);
    Sweep::new("hostile-cpio", rule, n, move |i, acc| {
        let so = size_overrides[(i % 10) as usize];
        let i2 = i / 10;
        let ai = (i2 / 2) as usize;
        let generated;
        let (what, arch): (&String, &Vec<u8>) = if ai < n_eager {
            (&archives[ai].0, &archives[ai].1)
        } else {
            if so.is_some() {
                return;
            }
            generated = (lazy[ai - n_eager].1)();
            (&lazy[ai - n_eager].0, &generated)
        };
        let long = long_variants[(i2 % 2) as usize];
        // size overrides only together with the few archives that can reach them (valid, stripped, truncated at the end)
        if so.is_some() && !(what == "valid" || what.starts_with("stripped") || what == "no trailer") {
            return;
        }
        let mut parts = foreign::package("hand", &files, arch.clone(), None, long);
        if let Some(v) = so {
            let tag = if long { 5008 } else { 1028 };
            let n = files.len();
            let all = v == ALL_HUGE;
            let each = |k: usize| if all { 1u64 << 63 } else if k == 0 { v } else { files[k].archive_data().len() as u64 };
            let val = if long { Val::Int64((0..n).map(each).collect()) } else { Val::Int32((0..n).map(|k| if all { u32::MAX } else { each(k) as u32 }).collect()) };
            set(&mut parts.main, tag, Some(val));
            if all {
                for t in [1009u32, 5009] {
                    set(&mut parts.main, t, None);
                }
            }
            parts = split(&with_digests(&parts, &DigestPlan { md5: D::Correct, sha1: D::Correct, sha256: D::Correct, payload: D::Correct, algo: 8 }).0).expect("splits");
        }
        let x = parts.join().0;
        exercise(&tools, "hostile-cpio", &x, i, &|| bytes_case(&x, json!({"archive": what, "long_sizes": long, "declared_size_of_first_file": so})), acc);
        if i % 97 == 0 {
            acc.sample(i, || json!({"archive": what, "long_sizes": long, "declared_size_of_first_file": so}));
        }
    })
}

/// Tags whose value selects a code path (compressor, payload format and flags, encoding, digest algorithms): every word of
/// their vocabulary — also the words this build has no support for — over three kinds of payload bytes.
fn vocabulary_sweep(tools: Arc<Tools>) -> Sweep {
    let files = foreign::sample_files();
    let order: Vec<usize> = (0..files.len()).collect();
    let arch = foreign::newc_archive(&files, &order);
    let gz = {
        use std::io::Write;
        let mut e = flate2::write::GzEncoder::new(vec![], flate2::Compression::new(1));
        e.write_all(&arch).unwrap();
        e.finish().unwrap()
    };
    let payloads: Vec<(&'static str, Vec<u8>)> = vec![("an uncompressed cpio archive", arch), ("a gzip stream", gz), ("bytes that are no archive", b"\x00\x01garbage garbage garbage".to_vec())];
    let long = "z".repeat(300);
    let mut values: Vec<(u32, &'static str, Option<Val>)> = vec![];
    for w in ["gzip", "zstd", "xz", "bzip2", "lzma", "none", "", "lz4", "Gzip", "BZIP2", "zstd ", "bzip2\u{0}x", "gzip,xz", &long] {
        values.push((1125, "PAYLOADCOMPRESSOR", Some(Val::str(w))));
    }
    values.push((1125, "PAYLOADCOMPRESSOR", None));
    values.push((1125, "PAYLOADCOMPRESSOR", Some(Val::strs(&["gzip", "bzip2"]))));
    values.push((1125, "PAYLOADCOMPRESSOR", Some(Val::Int32(vec![1]))));
    for w in ["cpio", "", "drpm", "tar", "CPIO"] {
        values.push((1124, "PAYLOADFORMAT", Some(Val::str(w))));
    }
    for w in ["9", "19", "T8", "L", "", "99999999999999999999", "-1", "9T"] {
        values.push((1126, "PAYLOADFLAGS", Some(Val::str(w))));
    }
    for w in ["utf-8", "UTF-8", "latin1", "", "utf-16"] {
        values.push((5062, "ENCODING", Some(Val::str(w))));
    }
    for a in [0u32, 1, 2, 3, 8, 9, 10, 11, 12, 14, 99, u32::MAX] {
        values.push((5011, "FILEDIGESTALGO", Some(Val::Int32(vec![a]))));
        values.push((5093, "PAYLOADDIGESTALGO", Some(Val::Int32(vec![a]))));
    }
    // the digest entries of the main header in other shapes (the header digests are recomputed, so the code behind them is reached)
    let sha = "0".repeat(64);
    for v in [Val::StrArray(vec![]), Val::strs(&["", ""]), Val::strs(&[&sha, &sha]), Val::str(&sha), Val::Int32(vec![8]), Val::Bin(vec![0; 32])] {
        values.push((5092, "PAYLOADDIGEST", Some(v)));
    }
    for v in [Val::Int32(vec![]), Val::Int32(vec![8, 8]), Val::str("8"), Val::Int64(vec![8])] {
        values.push((5093, "PAYLOADDIGESTALGO", Some(v)));
    }
    values.push((5092, "PAYLOADDIGEST", None));
    values.push((5093, "PAYLOADDIGESTALGO", None));
    for v in [Val::StrArray(vec![]), Val::strs(&[&sha]), Val::Int32(vec![8])] {
        values.push((5097, "PAYLOADDIGESTALT", Some(v)));
    }
    let n = (values.len() * payloads.len()) as u64;
    Sweep::new("tag-vocabulary", format!("a hand-encoded package × one of {} values for a tag whose value selects a code path (compressor names incl. the ones this build has no support for, other spellings, several names, wrong types; payload format; payload flags; encoding; file and payload digest algorithm numbers; the payload digest entries with no, two, mistyped items) × payload bytes that are {{an uncompressed cpio archive, a gzip stream, no archive at all}}: every entry point, no panic / abort / hang", values.len()), n, move |i, acc| {
        let (tag, tname, val) = &values[(i / 3) as usize];
        let (pname, pbytes) = &payloads[(i % 3) as usize];
        let mut parts = foreign::package("hand", &files, pbytes.clone(), None, false);
        set(&mut parts.main, *tag, val.clone());
        let parts = split(&with_digests_keep(&parts, &DigestPlan { md5: D::Correct, sha1: D::Correct, sha256: D::Correct, payload: D::Correct, algo: 8 }, get(&parts.main, 5092).cloned(), get(&parts.main, 5093).cloned()).0).expect("splits");
        let x = parts.join().0;
        let what = json!({"tag": tname, "value": format!("{:?}", val).chars().take(80).collect::<String>(), "payload_is": pname});
        exercise(&tools, "tag-vocabulary", &x, i, &|| bytes_case(&x, what.clone()), acc);
        if i % 13 == 0 {
            acc.sample(i, || what.clone());
        }
    })
}

pub fn sweeps(ctx: &Ctx) -> Vec<Sweep> {
    let tools = Arc::new(Tools::new(ctx));
    let env = Env::new(&ctx.repo, "c04");
    let mut v = vec![];
    for sig in [false, true] {
        v.push(boundary_sweep(tools.clone(), sig, 1));
        v.push(boundary_sweep(tools.clone(), sig, 2));
    }
    v.push(region_trailer_sweep(tools.clone()));
    let seeds = seeds(ctx, &env);
    for (name, bytes) in &seeds {
        v.push(mutate_sweep(tools.clone(), name, bytes.clone(), ctx.thorough()));
        if name.starts_with("hand-i18n") {
            // the reader's locale must not matter: the same sweep in worker processes under a German locale
            let mut tw = mutate_sweep(tools.clone(), &format!("{}@de_DE", name), bytes.clone(), ctx.thorough()).with_env(&crate::sweep::LOCALE_DE);
            tw.rule = format!("{} — worker processes started with LANG / LC_ALL / LC_MESSAGES = de_DE.UTF-8, LANGUAGE = de_DE:de", tw.rule);
            v.push(tw);
        }
    }
    if ctx.thorough() {
        for (name, bytes) in seeds.iter().take(2) {
            v.push(two_dev_sweep(tools.clone(), name, bytes.clone()));
        }
    }
    v.push(vocabulary_sweep(tools.clone()));
    v.push(cpio_sweep(tools));
    v
}

pub fn run(ctx: &Ctx) -> i32 {
    let mut subs: Vec<SubReport> = vec![];
    for s in sweeps(ctx) {
        let (mut sub, events) = run_sweep(ctx, &s);
        // aborts / hangs: confirm the first of each kind in a fresh worker, then report
        let mut confirmed: std::collections::BTreeSet<String> = Default::default();
        for e in &events {
            let kind = if e.kind == "hang" { "hang".to_string() } else { format!("abort({})", e.kind) };
            if !confirmed.contains(&kind) {
                let (_, again) = run_single(ctx, &s, e.index);
                if again.is_empty() {
                    crate::ctx::machinery(&format!("case {} of {} killed a worker ({}) but passes in a fresh worker: nondeterministic", e.index, s.name, e.kind));
                }
                confirmed.insert(kind.clone());
            }
            let cause = e.stderr_tail.lines().find(|l| l.starts_with("VCHECK-REFUSED")).or_else(|| e.stderr_tail.lines().rev().find(|l| l.contains("memory allocation") || l.contains("overflow") || l.contains("panicked"))).unwrap_or("").trim().to_string();
            let site = cause.strip_prefix("VCHECK-REFUSED ").and_then(|r| r.split_once(' ')).map(|(_, s)| s.split(" (").next().unwrap_or("").to_string()).unwrap_or_default();
            sub.acc.viol(
                Violation::new(&s.name, format!("worker {} on case {} ({})", if e.kind == "hang" { "made no progress for 10 s".to_string() } else { format!("died with {}", e.kind) }, e.index, cause), json!({"sweep": s.name, "index": e.index, "replay": "worker-one"}))
                    .sig("clause", if e.kind == "hang" { "no-hang" } else { "no-abort" })
                    .sig("kind", if cause.contains("memory allocation") || cause.starts_with("VCHECK-REFUSED") { "allocation failure".to_string() } else { e.kind.clone() })
                    .sig("site", site)
                    .rank(e.index),
            );
        }
        subs.push(sub);
    }
    for s in &subs {
        if s.acc.nontrivial == 0 && s.acc.viols.is_empty() {
            crate::ctx::machinery(&format!("sub-check {} had no accepted input: vacuous", s.name));
        }
    }
    ctx.finish(
        "exploration",
        subs,
        &[
            "aborts (allocation failure) and hangs are observed by running every case in worker processes with a 256 MiB per-request limit and a 10 s stall limit",
            "memory bound: peak live bytes and largest single request ≤ 1 MiB + 512 × input length",
            "payload iteration is exercised for uncompressed payloads only (the statement's scope)",
            "byte strings more than two deviations away from a valid package and outside the boundary product are not covered",
        ],
        vec![],
    )
}

pub fn replay(ctx: &Ctx, v: &Value) -> i32 {
    let c = &v["case"];
    if c["replay"].as_str() == Some("worker-one") {
        let name = c["sweep"].as_str().unwrap_or("");
        let idx = c["index"].as_u64().unwrap_or(0);
        let all = sweeps(ctx);
        let Some(s) = all.iter().find(|s| s.name == name) else { crate::ctx::machinery("unknown sweep in replay file") };
        let (sub, ev) = run_single(ctx, s, idx);
        for e in &ev {
            println!("REPRODUCED: worker {} on case {}\n{}", e.kind, e.index, e.stderr_tail);
        }
        for v in sub.acc.viols.values() {
            println!("REPRODUCED {}: {}", v.key(), v.what);
        }
        return if ev.is_empty() && sub.acc.viols.is_empty() { println!("not reproduced"); 0 } else { 1 };
    }
    let tools = Tools::new(ctx);
    replay_bytes(v, &|x, acc| exercise(&tools, "replay", x, 0, &|| json!({}), acc))
}
