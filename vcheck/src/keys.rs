//! The four test signing keys shipped with the repository.
#![allow(dead_code)]
use rpm::signature::pgp::{Signer, Verifier};
use std::path::Path;

#[derive(Clone, Copy, PartialEq, Eq, Debug, PartialOrd, Ord)]
pub enum Key {
    /// test_assets/secret_key.asc: its signatures make the signature data section a multiple of 8 bytes
    Rsa2048,
    Rsa4096,
    Rsa3072Protected,
    Ed25519,
    EcdsaP256,
}

pub const ALL_KEYS: [Key; 5] = [Key::Rsa2048, Key::Rsa4096, Key::Rsa3072Protected, Key::Ed25519, Key::EcdsaP256];
pub const FAST_KEYS: [Key; 4] = [Key::Rsa2048, Key::Rsa4096, Key::Ed25519, Key::EcdsaP256];

impl Key {
    pub fn name(&self) -> &'static str {
        match self {
            Key::Rsa2048 => "rsa2048",
            Key::Rsa4096 => "rsa4096",
            Key::Rsa3072Protected => "rsa3072-protected",
            Key::Ed25519 => "ed25519",
            Key::EcdsaP256 => "ecdsa-p256",
        }
    }
    pub fn files(&self) -> (&'static str, &'static str) {
        match self {
            Key::Rsa2048 => ("../../../test_assets/secret_key.asc", "../../../test_assets/public_key.asc"),
            Key::Rsa4096 => ("secret_rsa4096.asc", "public_rsa4096.asc"),
            Key::Rsa3072Protected => ("secret_rsa3072_protected.asc", "public_rsa3072_protected.asc"),
            Key::Ed25519 => ("secret_ed25519.asc", "public_ed25519.asc"),
            Key::EcdsaP256 => ("secret_ecdsa_p256.asc", "public_ecdsa_p256.asc"),
        }
    }
    pub fn signer(&self, repo: &Path) -> Signer {
        let p = repo.join("tests/assets/signing_keys").join(self.files().0);
        let raw = std::fs::read(&p).unwrap_or_else(|e| crate::ctx::machinery(&format!("{}: {}", p.display(), e)));
        let s = Signer::load_from_asc_bytes(&raw).unwrap_or_else(|e| crate::ctx::machinery(&format!("cannot load signer: {}", e)));
        if *self == Key::Rsa3072Protected {
            s.with_key_passphrase("thisisN0Tasecuredpassphrase")
        } else {
            s
        }
    }
    pub fn public_asc(&self, repo: &Path) -> Vec<u8> {
        let p = repo.join("tests/assets/signing_keys").join(self.files().1);
        std::fs::read(&p).unwrap_or_else(|e| crate::ctx::machinery(&format!("{}: {}", p.display(), e)))
    }
    pub fn verifier(&self, repo: &Path) -> Verifier {
        Verifier::load_from_asc_bytes(&self.public_asc(repo)).unwrap_or_else(|e| crate::ctx::machinery(&format!("cannot load verifier: {}", e)))
    }
    /// Key id (lower-case hex of the 8-byte id) computed with the pgp crate from the public key file.
    pub fn key_id(&self, repo: &Path) -> String {
        use pgp::composed::Deserializable;
        use pgp::types::PublicKeyTrait;
        let txt = String::from_utf8(self.public_asc(repo)).expect("asc");
        let (k, _) = pgp::SignedPublicKey::from_string(&txt).expect("public key parses");
        hex::encode(k.key_id().as_ref())
    }
}
