//! C02 — signature verification never succeeds without a verified signature.
//! Driver 1: engine C (all accept/reject answers of a scripted verifier) over every
//! signature-header shape. Driver 2: engine A (every single-bit flip of packages
//! signed with real keys, raw and with all digests fixed up).
use crate::common::*;
use crate::ctx::Ctx;
use crate::keys::{Key, ALL_KEYS};
use crate::oracles::*;
use crate::pkgtool::*;
use crate::spec::*;
use crate::sweep::{run_sweep, Sweep};
use base64::Engine;
use serde_json::{json, Value};
use std::cell::RefCell;
use std::sync::Arc;
use vlib::explore::{explore_seq, pick, Ch};
use vlib::par::{decode, product};
use vlib::refhdr::{scan, Val};
use vlib::report::{catch, Acc, SubReport, Violation};

const TAG_OPENPGP: u32 = 278;
const TAG_RSA: u32 = 268;
const TAG_DSA: u32 = 267;
const TAG_PGP: u32 = 1002;
const TAG_GPG: u32 = 1005;

struct Call {
    data: Vec<u8>,
    sig: Vec<u8>,
    accepted: bool,
}

struct Scripted {
    ch: Ch,
    calls: RefCell<Vec<Call>>,
    algo: rpm::signature::AlgorithmType,
    /// which error a rejection is reported with (0 key not found, 1 verification failed, 2 I/O error)
    reject_with: u8,
}

const REJECTIONS: [&str; 3] = ["KeyNotFoundError", "VerificationError", "Io"];

impl std::fmt::Debug for Scripted {
    fn fmt(&self, f: &mut std::fmt::Formatter<'_>) -> std::fmt::Result {
        write!(f, "ScriptedVerifier")
    }
}

impl rpm::signature::Verifying for Scripted {
    type Signature = Vec<u8>;
    fn verify(&self, mut data: impl std::io::Read, signature: &[u8]) -> Result<(), rpm::Error> {
        let mut d = vec![];
        let _ = data.read_to_end(&mut d);
        let accept = pick(&self.ch, 1, 2) == 0;
        self.calls.borrow_mut().push(Call { data: d, sig: signature.to_vec(), accepted: accept });
        if accept {
            Ok(())
        } else {
            Err(match self.reject_with {
                0 => rpm::Error::KeyNotFoundError { key_ref: "scripted".into() },
                1 => rpm::Error::VerificationError { source: pgp::errors::Error::Message("scripted".into()), key_ref: "scripted".into() },
                _ => rpm::Error::Io(std::io::Error::new(std::io::ErrorKind::Other, "scripted")),
            })
        }
    }
    fn algorithm(&self) -> rpm::signature::AlgorithmType {
        self.algo
    }
}

const ALGOS: [rpm::signature::AlgorithmType; 3] = [rpm::signature::AlgorithmType::RSA, rpm::signature::AlgorithmType::EdDSA, rpm::signature::AlgorithmType::ECDSA];

fn b64(b: &[u8]) -> String {
    base64::engine::general_purpose::STANDARD.encode(b)
}

#[derive(Clone, Debug)]
enum Item {
    Good(Vec<u8>),
    Malformed,
    Empty,
}

/// A syntactically complete OpenPGP v4 signature packet of the given signature type (EdDSA, SHA-256, creation time and
/// issuer subpackets, two 256-bit integers): what a parser of OpenPGP packets accepts, whatever it is a signature of.
fn real_packet(sig_type: pgp::packet::SignatureType, salt: u8) -> Vec<u8> {
    use pgp::packet::{SignatureConfig, Subpacket, SubpacketData};
    let mut cfg = SignatureConfig::v4(sig_type, pgp::crypto::public_key::PublicKeyAlgorithm::EdDSALegacy, pgp::crypto::hash::HashAlgorithm::SHA2_256);
    cfg.hashed_subpackets.push(Subpacket::regular(SubpacketData::SignatureCreationTime(chrono::TimeZone::timestamp_opt(&chrono::Utc, 1_600_000_000, 0).unwrap())));
    cfg.unhashed_subpackets.push(Subpacket::regular(SubpacketData::Issuer(pgp::types::KeyId::from_slice(&[salt; 8]).expect("key id"))));
    let sig = pgp::packet::Signature::from_config(cfg, [salt, salt], pgp::types::SignatureBytes::Mpis(vec![pgp::types::Mpi::from_raw(vec![0x40 | salt; 32]), pgp::types::Mpi::from_raw(vec![0x41 | salt; 32])]));
    let mut out = vec![];
    pgp::packet::write_packet(&mut std::io::Cursor::new(&mut out), &sig).expect("serialise a signature packet");
    out
}

/// OPENPGP tag variants: (description, value or absent, well-formed items)
fn openpgp_variants() -> Vec<(&'static str, Option<Val>, Vec<Item>)> {
    let g1 = Item::Good(b"\x01sig-A".to_vec());
    let g2 = Item::Good(b"\x02sig-B".to_vec());
    // well-formed OpenPGP packets: a document signature, and signature packets of other kinds (a certification as found in
    // every key file, a subkey binding, a standalone signature) — whatever they are, the verifier is the one to judge them
    use pgp::packet::SignatureType as ST;
    let doc = Item::Good(real_packet(ST::Binary, 1));
    let cert = Item::Good(real_packet(ST::CertPositive, 2));
    let bind = Item::Good(real_packet(ST::SubkeyBinding, 3));
    let alone = Item::Good(real_packet(ST::Standalone, 4));
    let mk = |items: &[Item]| {
        Val::StrArray(
            items
                .iter()
                .map(|i| match i {
                    Item::Good(b) => b64(b).into_bytes(),
                    Item::Malformed => b"!!not*base64!!".to_vec(),
                    Item::Empty => vec![],
                })
                .collect(),
        )
    };
    let lists: Vec<(&'static str, Vec<Item>)> = vec![
        ("zero items", vec![]),
        ("one good item", vec![g1.clone()]),
        ("one malformed item", vec![Item::Malformed]),
        ("one empty item", vec![Item::Empty]),
        ("two good items", vec![g1.clone(), g2.clone()]),
        ("good then malformed", vec![g1.clone(), Item::Malformed]),
        ("malformed then good", vec![Item::Malformed, g1.clone()]),
        ("empty then good", vec![Item::Empty, g2.clone()]),
        ("three good items", vec![g1.clone(), g2.clone(), g1.clone()]),
        ("one well-formed document signature packet", vec![doc.clone()]),
        ("one well-formed certification packet", vec![cert.clone()]),
        ("one well-formed standalone signature packet", vec![alone.clone()]),
        ("a certification packet then a document signature packet", vec![cert.clone(), doc.clone()]),
        ("a document signature packet then a subkey-binding packet", vec![doc.clone(), bind.clone()]),
    ];
    let mut v: Vec<(&'static str, Option<Val>, Vec<Item>)> = vec![("absent", None, vec![])];
    for (n, l) in lists {
        v.push((n, Some(mk(&l)), l));
    }
    v.push(("wrong type: binary", Some(Val::Bin(b"\x01sig-A".to_vec())), vec![]));
    v.push(("wrong type: string", Some(Val::str(&b64(b"\x01sig-A"))), vec![]));
    v.push(("i18n type with one good item", Some(Val::I18n(vec![b64(b"\x01sig-A").into_bytes()])), vec![g1]));
    v
}

fn legacy_variants(blob: &[u8]) -> Vec<(&'static str, Option<Val>)> {
    vec![
        ("absent", None),
        ("binary, 0 bytes", Some(Val::Bin(vec![]))),
        ("binary, 1 byte", Some(Val::Bin(blob[..1].to_vec()))),
        ("binary, 6 bytes", Some(Val::Bin(blob.to_vec()))),
        ("wrong type: string", Some(Val::Str(blob.to_vec()))),
    ]
}

fn shapes_sweep(name: &'static str, lengths: bool) -> Sweep {
    let og = openpgp_variants();
    let rsa = legacy_variants(b"\x10rsa-R");
    let dsa = legacy_variants(b"\x20dsa-D");
    let pgp = legacy_variants(b"\x30pgp-P");
    // the header+payload companion of the DSA tag: absent / binary with 6 bytes
    let gpg: Vec<(&'static str, Option<Val>)> = vec![("absent", None), ("binary, 6 bytes", Some(Val::Bin(b"\x40gpg-G".to_vec())))];
    // the main sweep has digests ∈ {absent, correct, wrong}; the 'lengths' sweep adds truncated / empty digests on a reduced legacy-tag axis
    let (nd, nl, no, na) = if lengths { (5u64, 2u64, 1u64, 1u64) } else { (3, 5, 2, 3) };
    let ng = if lengths { 1u64 } else { 2 };
    let rad = [og.len() as u64, nl, nl, nl, nd, nd, nd, nd, 2, no, na, ng];
    let n = product(&rad);
    let rule = format!(
        "{} signature-header shapes: OpenPGP tag ∈ {{absent; string array with 0–3 items (good base64, malformed base64, empty string); binary / string / i18n type}} × RSA, DSA, PGP tags ∈ {{absent; binary with 0, 1, 6 bytes; string type}} × GPG tag ∈ {{absent, binary}} × SHA-256, SHA-1, MD5, payload digest ∈ {{absent, correct, wrong, truncated to half, empty}} × payload ∈ {{empty, 5 bytes}} × signature index sorted / reversed × the verifier's algorithm() answer ∈ {{RSA, EdDSA, ECDSA}}; for each shape ALL accept/reject answer sequences of a scripted verifier are explored (engine C, unbounded deviations). Oracle: Ok ⇒ ≥ 1 call ∧ every answer accept ∧ each call's data = canonical main header (header‖payload for the PGP tag) ∧ its signature bytes = the stored item ∧ all recorded digests match. non-trivial = execution that consulted the verifier",
        n
    );
    Sweep::new(name, rule, n, move |i, acc| {
        let d = decode(i, &rad);
        let payload: &[u8] = if d[8] == 0 { b"" } else { b"PAYLD" };
        let mut parts = hand_encoded(payload);
        let (oname, oval, items) = &og[d[0] as usize];
        if let Some(v) = oval {
            set(&mut parts.sig, TAG_OPENPGP, Some(v.clone()));
        }
        for (tag, vars, k) in [(TAG_RSA, &rsa, d[1]), (TAG_DSA, &dsa, d[2]), (TAG_PGP, &pgp, d[3])] {
            if let Some(v) = &vars[k as usize].1 {
                set(&mut parts.sig, tag, Some(v.clone()));
            }
        }
        if let Some(v) = &gpg[d[11] as usize].1 {
            set(&mut parts.sig, TAG_GPG, Some(v.clone()));
        }
        if lengths && [d[4], d[5], d[6], d[7]].iter().all(|v| *v < 3) {
            return; // covered by the main sweep
        }
        // reduced legacy axis of the 'lengths' sweep: absent / binary with 6 bytes
        let leg = |k: u64| if lengths { [0u64, 3][k as usize] } else { k };
        let d = { let mut d = d; d[1] = leg(d[1]); d[2] = leg(d[2]); d[3] = leg(d[3]); d };
        let dg = |x: u64| match x {
            0 => D::Absent,
            1 => D::Correct,
            2 => D::Wrong(1),
            3 => D::Truncated,
            _ => D::Empty,
        };
        let plan = DigestPlan { sha256: dg(d[4]), sha1: dg(d[5]), md5: dg(d[6]), payload: dg(d[7]), algo: 8 };
        parts.order = (d[9] as u8, 0);
        let valgo = ALGOS[d[10] as usize];
        let (x, lay) = with_digests(&parts, &plan);
        let digests_ok = [d[4], d[5], d[6], d[7]].iter().all(|v| *v < 2);
        let hdr_bytes = x[lay.hdr_off..lay.payload_off].to_vec();
        let mut hdr_payload = hdr_bytes.clone();
        hdr_payload.extend_from_slice(payload);
        let pkg = match parse_pkg(&x) {
            Ok(Ok(p)) => p,
            _ => {
                acc.count("shape rejected by the parser");
                return;
            }
        };
        // allowed (data, signature) pairs
        let mut allowed: Vec<(&[u8], Vec<u8>)> = vec![];
        let mut has_malformed = false;
        for it in items {
            match it {
                Item::Good(b) => allowed.push((&hdr_bytes, b.clone())),
                Item::Empty => allowed.push((&hdr_bytes, vec![])),
                Item::Malformed => has_malformed = true,
            }
        }
        for (vars, k, data) in [(&rsa, d[1], &hdr_bytes), (&dsa, d[2], &hdr_bytes), (&pgp, d[3], &hdr_payload)] {
            if let Some(Val::Bin(b)) = &vars[k as usize].1 {
                allowed.push((data, b.clone()));
            }
        }
        if let Some(Val::Bin(b)) = &gpg[d[11] as usize].1 {
            allowed.push((&hdr_payload, b.clone()));
        }
        // the error a rejection is reported with is chosen by the digest axes, which repeat every signature-tag shape hundreds
        // of times: each signature shape meets each kind of rejection
        let reject_with = ((d[4] + d[5] + d[6] + d[7]) % 3) as u8;
        let describe = || json!({"verifier_rejects_with": REJECTIONS[reject_with as usize], "openpgp": oname, "rsa": rsa[d[1] as usize].0, "dsa": dsa[d[2] as usize].0, "pgp": pgp[d[3] as usize].0, "gpg": gpg[d[11] as usize].0,
                                 "digests(sha256,sha1,md5,payload)": [d[4], d[5], d[6], d[7]], "payload_len": payload.len(), "signature_index_reversed": d[9] == 1, "verifier_algorithm": format!("{:?}", valgo), "bytes_hex": vlib::hex(&x)});
        let a: &mut Acc = acc;
        let st = explore_seq(
            usize::MAX,
            |ch| {
                let sv = Scripted { ch: ch.clone(), calls: RefCell::new(vec![]), algo: valgo, reject_with };
                let r = catch(|| pkg.verify_signature(&sv).map_err(|e| err_kind(&e)));
                (r, sv.calls.into_inner())
            },
            |trace, (r, calls)| {
                a.evals += 1;
                let script: Vec<u32> = trace.iter().map(|p| p.chosen).collect();
                let case = || {
                    let mut c = describe();
                    c["verifier_answers(0=accept,1=reject)"] = json!(script);
                    c
                };
                // non-trivial: the verifier was consulted (main sweep) / a digest of another length was judged (lengths sweep)
                if !calls.is_empty() || lengths {
                    a.nontrivial += 1;
                }
                match r {
                    Err(pn) => a.viol(panic_violation("scripted-verifier", &pn, case()).rank(i)),
                    Ok(Err(k)) => a.count(&format!("Err({}) after {} call(s)", k, calls.len())),
                    Ok(Ok(())) => {
                        a.count(&format!("Ok after {} call(s)", calls.len()));
                        let mut found: Vec<(&str, String)> = vec![];
                        let mut notes = 0u64;
                        let mut bad = |clause: &'static str, what: String| found.push((clause, what));
                        if calls.is_empty() {
                            bad("ok-without-consulting-the-verifier", "verification succeeded although the verifier was never called".into());
                        }
                        if calls.iter().any(|c| !c.accepted) {
                            bad("ok-despite-rejected-signature", "verification succeeded although the verifier rejected a signature".into());
                        }
                        if !digests_ok {
                            bad("ok-despite-digest-mismatch", "verification succeeded although a recorded digest does not match".into());
                        }
                        for c in &calls {
                            let data_ok = c.data == hdr_bytes || c.data == hdr_payload;
                            if !data_ok {
                                bad("wrong-data-presented", "a signature was presented with bytes that are neither the serialised header nor header‖payload".into());
                            } else if !allowed.iter().any(|(d, s)| **d == c.data[..] && *s == c.sig) {
                                if has_malformed && c.data == hdr_bytes {
                                    notes += 1;
                                } else {
                                    bad("wrong-signature-data-pairing", format!("signature bytes {:02x?} were presented with the wrong data or are not a stored signature", c.sig));
                                }
                            }
                        }
                        a.count_n("not judged: bytes decoded from a malformed base64 item were handed to the verifier", notes);
                        for (clause, what) in found {
                            a.viol(Violation::new("scripted-verifier", what, case()).sig("clause", clause).sig("openpgp", *oname).rank(i));
                        }
                    }
                }
            },
        );
        acc.count_n("shapes", 1);
        let _ = st;
        if i % 20_011 == 0 {
            acc.sample(i, || {
                let mut c = describe();
                c.as_object_mut().unwrap().remove("bytes_hex");
                c
            });
        }
    })
}

// ------------------------------------------------------------------ driver 2: real keys

struct Signed {
    key: Key,
    bytes: Vec<u8>,
    hdr: (usize, usize),
    payload_off: usize,
    sha256_at: usize,
    payload_digest_at: Option<usize>,
}

fn signed(env: &Env, key: Key) -> Signed {
    let mut s = crate::corpus::one_file();
    s.sign = Some(key);
    let (_, bytes) = s.build_bytes(env).unwrap_or_else(|e| crate::ctx::machinery(&format!("cannot build signed package: {}", e)));
    let (_, sig, hdr, l) = scan(&bytes).unwrap_or_else(|| crate::ctx::machinery("signed package does not scan"));
    let e = sig.find(SIGTAG_SHA256).unwrap_or_else(|| crate::ctx::machinery("no SHA256 tag in the signature header"));
    let sha256_at = l.sig_off + 16 + 16 * sig.entries.len() + e.offset as usize;
    // a package without a payload digest is not a machinery problem: the flips below then show that nothing ties the payload to the signature
    let payload_digest_at = hdr.find(TAG_PAYLOADDIGEST).map(|e| l.hdr_off + 16 + 16 * hdr.entries.len() + e.offset as usize);
    Signed { key, bytes, hdr: (l.hdr_off, l.payload_off), payload_off: l.payload_off, sha256_at, payload_digest_at }
}

/// Recompute every digest the library checks so that only the signature stands between
/// the modification and success.
fn fix_up(s: &Signed, x: &mut Vec<u8>) {
    if let Some(at) = s.payload_digest_at {
        let pd = sha256_hex(&x[s.payload_off..]);
        x[at..at + 64].copy_from_slice(pd.as_bytes());
    }
    let mut h = x[s.hdr.0..s.hdr.1].to_vec();
    h[4..8].copy_from_slice(&[0; 4]); // canonical form: reserved bytes zero
    let hd = sha256_hex(&h);
    x[s.sha256_at..s.sha256_at + 64].copy_from_slice(hd.as_bytes());
}

fn flips_sweep(ctx: &Ctx, env: &Env, key: Key, pairs: bool) -> Sweep {
    let s = Arc::new(signed(env, key));
    let verifier = key.verifier(&ctx.repo);
    let others: Vec<(Key, rpm::signature::pgp::Verifier)> = ALL_KEYS.iter().filter(|k| **k != key).map(|k| (*k, k.verifier(&ctx.repo))).collect();
    let orig = rpm::Package::parse(&mut &s.bytes[..]).unwrap_or_else(|e| crate::ctx::machinery(&format!("signed package does not parse: {}", e)));
    // the intact package verifies with its own key and with no other
    if let Err(e) = orig.verify_signature(&verifier) {
        crate::ctx::machinery(&format!("intact package signed with {} does not verify: {} (C10 reports this)", key.name(), e));
    }
    let region_bits = ((s.bytes.len() - s.hdr.0) * 8) as u64;
    // two-bit flips: every pair inside each 16-byte index entry
    let (_, _, hdr, _) = scan(&s.bytes).unwrap();
    let n_entries = hdr.entries.len() as u64;
    let pair_count = if pairs { n_entries * (128 * 127 / 2) } else { 0 };
    let n = 1 + 2 * region_bits + pair_count;
    let name = format!("{}-{}", if pairs { "flips2" } else { "flips" }, key.name());
    let rule = format!(
        "package with one file built and signed by the library with the {} key ({} bytes): case 0 = intact package verifies with its own key and is rejected by the other three keys; then every single-bit flip of the main header and payload regions ({} bits) in two modes (raw; with payload digest and header SHA-256 recomputed by the harness){}. Oracle: parse error, or parsed header+payload equal to the original, or verify_signature(real verifier) = Err. non-trivial = the flipped package parses to a different value",
        key.name(), s.bytes.len(), region_bits, if pairs { format!("; plus every 2-bit flip inside each of the {} index entries (digests recomputed)", n_entries) } else { String::new() }
    );
    let nm = name.clone();
    Sweep::new(&nm, rule, n, move |i, acc| {
        acc.evals += 1;
        if i == 0 {
            for (k, v) in &others {
                match catch(|| orig.verify_signature(v)) {
                    Ok(Err(_)) => acc.count("foreign key rejected"),
                    Ok(Ok(())) => acc.viol(Violation::new(&name, format!("package signed with {} verifies with the {} key", s.key.name(), k.name()), json!({"signed_with": s.key.name(), "verified_with": k.name()})).sig("clause", "foreign-key-accepted").rank(0)),
                    Err(p) => acc.viol(panic_violation(&name, &p, json!({"verified_with": k.name()}))),
                }
            }
            acc.nontrivial += 1;
            acc.sample(0, || json!({"signed_with": s.key.name(), "intact_package": "verifies with own key; other keys tried"}));
            return;
        }
        let j = i - 1;
        let mut x = s.bytes.clone();
        let (mode, desc) = if j < 2 * region_bits {
            let bit = j / 2;
            let pos = s.hdr.0 + (bit / 8) as usize;
            x[pos] ^= 1 << (bit % 8);
            (j % 2, json!({"flipped_bits": [[pos, bit % 8]]}))
        } else {
            let k = j - 2 * region_bits;
            let entry = k / 8128;
            let mut r = k % 8128;
            // unrank pair (a < b) of 128 bits
            let mut a = 0u64;
            while r >= 127 - a {
                r -= 127 - a;
                a += 1;
            }
            let b = a + 1 + r;
            let base = s.hdr.0 + 16 + 16 * entry as usize;
            x[base + (a / 8) as usize] ^= 1 << (a % 8);
            x[base + (b / 8) as usize] ^= 1 << (b % 8);
            (1, json!({"index_entry": entry, "flipped_bits_in_entry": [a, b]}))
        };
        if mode == 1 {
            fix_up(&s, &mut x);
        }
        let case = || json!({"signed_with": s.key.name(), "mode": if mode == 1 { "digests recomputed" } else { "raw" }, "flip": desc, "bytes_hex": vlib::hex(&x)});
        let p = match parse_pkg(&x) {
            Ok(Ok(p)) => p,
            Ok(Err(_)) => return acc.count("parse error"),
            Err(_) => return acc.count("parse: panic (C04's business)"),
        };
        if p.metadata.header == orig.metadata.header && p.content == orig.content {
            return acc.count("parses to the original value");
        }
        acc.nontrivial += 1;
        match catch(|| p.verify_signature(&verifier)) {
            Err(pn) => acc.viol(panic_violation(&name, &pn, case()).rank(i)),
            Ok(Err(e)) => acc.count(&format!("rejected: {}", err_kind(&e))),
            Ok(Ok(())) => acc.viol(
                Violation::new(&name, "a modified package (different parsed header or payload) still verifies".to_string(), case())
                    .sig("clause", "modified-package-verifies")
                    .sig("mode", if mode == 1 { "digests recomputed" } else { "raw" })
                    .rank(i),
            ),
        }
        if i % 5003 == 0 {
            acc.sample(i, || json!({"signed_with": s.key.name(), "mode": mode, "flip": desc}));
        }
    })
}

/// Packages whose header was edited BEFORE the library signed them (so the signature covers the edit): the payload digest
/// recorded under another algorithm number, or not at all. Whatever the intact package does, no payload change may verify.
fn presigned_variants_sweep(ctx: &Ctx, env: &Env) -> Sweep {
    use sha2::Digest;
    let key = Key::Ed25519;
    let mut spec = crate::corpus::one_file();
    spec.compression = Comp::None;
    let (_, unsigned) = spec.build_bytes(env).unwrap_or_else(|e| crate::ctx::machinery(&format!("c02 presigned: {}", e)));
    let parts = crate::pkgtool::split(&unsigned).unwrap_or_else(|| crate::ctx::machinery("c02 presigned: split"));
    let pl = &parts.payload;
    let hexs = |b: &[u8]| hex::encode(b);
    let variants: Vec<(String, Option<Val>, Option<Val>)> = vec![
        ("algorithm 8 (SHA-256), the library's own".into(), Some(Val::Int32(vec![8])), Some(Val::strs(&[&sha256_hex(pl)]))),
        ("algorithm 1 (MD5) with the payload's MD5".into(), Some(Val::Int32(vec![1])), Some(Val::strs(&[&hexs(&md5_raw(&[pl]))]))),
        ("algorithm 2 (SHA-1) with the payload's SHA-1".into(), Some(Val::Int32(vec![2])), Some(Val::strs(&[&hexs(&sha1::Sha1::digest(pl))]))),
        ("algorithm 9 (SHA-384) with the payload's SHA-384".into(), Some(Val::Int32(vec![9])), Some(Val::strs(&[&hexs(&sha2::Sha384::digest(pl))]))),
        ("algorithm 10 (SHA-512) with the payload's SHA-512".into(), Some(Val::Int32(vec![10])), Some(Val::strs(&[&hexs(&sha2::Sha512::digest(pl))]))),
        ("algorithm 11 (SHA-224) with the payload's SHA-224".into(), Some(Val::Int32(vec![11])), Some(Val::strs(&[&hexs(&sha2::Sha224::digest(pl))]))),
        ("algorithm 12 with the payload's SHA-256".into(), Some(Val::Int32(vec![12])), Some(Val::strs(&[&sha256_hex(pl)]))),
        ("algorithm 14 with the payload's SHA-256".into(), Some(Val::Int32(vec![14])), Some(Val::strs(&[&sha256_hex(pl)]))),
        ("algorithm 0 with the payload's SHA-256".into(), Some(Val::Int32(vec![0])), Some(Val::strs(&[&sha256_hex(pl)]))),
        ("algorithm 99 with the payload's SHA-256".into(), Some(Val::Int32(vec![99])), Some(Val::strs(&[&sha256_hex(pl)]))),
        // a payload digest without an algorithm entry is not a defined shape (C03 does not judge it either, DESIGN §3a)
        ("algorithm 8 with the payload's SHA-512".into(), Some(Val::Int32(vec![8])), Some(Val::strs(&[&hexs(&sha2::Sha512::digest(pl))]))),
    ];
    let mut pkgs: Vec<(String, Vec<u8>, usize)> = vec![];
    for (name, algo, digest) in variants {
        let mut q = parts.clone();
        crate::pkgtool::set(&mut q.main, TAG_PAYLOADDIGEST, digest);
        crate::pkgtool::set(&mut q.main, 5093, algo);
        let edited = q.join().0;
        let Ok(mut p) = rpm::Package::parse(&mut &edited[..]) else { crate::ctx::machinery(&format!("c02 presigned: {} does not parse", name)) };
        if let Err(e) = p.sign_with_timestamp(env.signer(key), 1_600_000_000u32) {
            crate::ctx::machinery(&format!("c02 presigned: signing {} fails: {}", name, e));
        }
        let mut b = vec![];
        p.write(&mut b).expect("write");
        let off = scan(&b).map(|t| t.3.payload_off).unwrap_or_else(|| crate::ctx::machinery("c02 presigned: scan"));
        pkgs.push((name, b, off));
    }
    let verifier = key.verifier(&ctx.repo);
    let per = 1 + pkgs.iter().map(|p| (p.1.len() - p.2) * 8).max().unwrap_or(0) as u64;
    let n = per * pkgs.len() as u64;
    Sweep::new("presigned-variants", format!("a package with one file (uncompressed, {} payload bytes) whose payload digest entries were edited before the library signed it with the ed25519 key, so that the signature covers the edit — {} variants: the digest recorded under algorithm numbers 8, 1, 2, 9, 10, 11 (each with the payload's true digest of that algorithm), 12, 14, 0, 99, and a SHA-512 under number 8; for each, every single-bit flip of the payload: verify_signature must not succeed (the intact package may verify or not)", pl.len(), pkgs.len()), n, move |i, acc| {
        let (name, bytes, off) = &pkgs[(i / per) as usize];
        let k = i % per;
        acc.evals += 1;
        let mut x = bytes.clone();
        if k == 0 {
            let r = parse_pkg(&x).ok().and_then(|r| r.ok()).map(|p| catch(|| p.verify_signature(&verifier).is_ok()));
            acc.count(&format!("intact: {:?}", r.map(|r| r.unwrap_or(false))));
            return;
        }
        let bit = k - 1;
        let pos = off + (bit / 8) as usize;
        if pos >= x.len() {
            return;
        }
        x[pos] ^= 1 << (bit % 8);
        let case = || json!({"payload_digest_recorded_as": name, "flipped_payload_bit": [pos, bit % 8], "bytes_hex": vlib::hex(&x)});
        let Ok(Ok(p)) = parse_pkg(&x) else { return acc.count("parse error") };
        acc.nontrivial += 1;
        match catch(|| p.verify_signature(&verifier)) {
            Err(pn) => acc.viol(panic_violation("presigned-variants", &pn, case()).rank(i)),
            Ok(Err(e)) => acc.count(&format!("rejected: {}", err_kind(&e))),
            Ok(Ok(())) => acc.viol(Violation::new("presigned-variants", format!("a package whose payload was modified still verifies (payload digest recorded as: {})", name), case()).sig("clause", "modified-package-verifies").sig("mode", "presigned").rank(i)),
        }
    })
}

pub fn sweeps(ctx: &Ctx) -> Vec<Sweep> {
    let env = Env::new(&ctx.repo, "c02");
    let mut v = vec![shapes_sweep("scripted-verifier", false), shapes_sweep("scripted-verifier-lengths", true)];
    v.push(presigned_variants_sweep(ctx, &env));
    let keys: Vec<Key> = if ctx.thorough() { ALL_KEYS.to_vec() } else { vec![Key::Ed25519, Key::EcdsaP256] };
    for k in keys {
        v.push(flips_sweep(ctx, &env, k, false));
    }
    if ctx.thorough() {
        v.push(flips_sweep(ctx, &env, Key::Ed25519, true));
    }
    v
}

/// Real keys, real verifier, signatures laid out as other OpenPGP tools lay them out — and valid signatures over other data.
fn foreign_signatures(ctx: &Ctx) -> SubReport {
    use crate::fsigner::{ForeignSigner, Layout, What, LAYOUTS};
    let env = Env::new(&ctx.repo, "c02f");
    let pkgs: Vec<(&str, rpm::Package)> = vec![
        ("built-one-file", crate::corpus::one_file().build(&env).unwrap_or_else(|e| crate::ctx::machinery(&format!("c02 foreign: {}", e)))),
        ("built-empty", BuildSpec::minimal().build(&env).unwrap_or_else(|e| crate::ctx::machinery(&format!("c02 foreign: {}", e)))),
    ];
    let verifiers: Vec<(Key, rpm::signature::pgp::Verifier)> = ALL_KEYS.iter().map(|k| (*k, k.verifier(&ctx.repo))).collect();
    let keys: Vec<Key> = if ctx.thorough() { ALL_KEYS.to_vec() } else { crate::keys::FAST_KEYS.to_vec() };
    let whats = [What::TheData, What::EmptyMessage, What::OtherData];
    let mut cases: Vec<(usize, Key, Layout, What, bool)> = vec![];
    for pi in 0..pkgs.len() {
        for k in &keys {
            for l in LAYOUTS {
                for w in whats {
                    for sub in [false, true] {
                        cases.push((pi, *k, l, w, sub));
                    }
                }
            }
        }
    }
    let acc = merge(vlib::par::par_fold(cases.len() as u64, Acc::new, |i, acc| {
        let (pi, key, layout, what, subkey) = cases[i as usize];
        let Some(signer) = ForeignSigner::new(&ctx.repo, key, layout, what, subkey) else {
            acc.count("key has no signing subkey (skipped)");
            return;
        };
        acc.evals += 1;
        let case = || json!({"package": pkgs[pi].0, "signing_key": key.name(), "made_by_subkey": subkey, "subpacket_layout": format!("{:?}", layout), "signature_covers": format!("{:?}", what)});
        let mut p = pkgs[pi].1.clone();
        match catch(|| p.sign_with_timestamp(&signer, 1_600_000_000u32)) {
            Err(pn) => return acc.viol(panic_violation("foreign-signatures", &pn, case()).rank(i)),
            Ok(Err(e)) => {
                acc.count(&format!("signing failed (not judged): {}", err_kind(&e)));
                return;
            }
            Ok(Ok(())) => {}
        }
        // through bytes, as a consumer would see it
        let q = match write_pkg(&p).ok().map(|b| parse_pkg(&b)) {
            Some(Ok(Ok(q))) => q,
            _ => {
                acc.count("signed package does not re-parse (not judged here)");
                return;
            }
        };
        acc.nontrivial += 1;
        for (vk, v) in &verifiers {
            match catch(|| q.verify_signature(v)) {
                Err(pn) => acc.viol(panic_violation("foreign-signatures", &pn, case()).rank(i)),
                Ok(Ok(())) => {
                    acc.count("verifies");
                    if what != What::TheData {
                        acc.viol(Violation::new("foreign-signatures", format!("the stored signature covers {:?}, not the header, yet verification with the {} key succeeds", what, vk.name()), case()).sig("clause", "ok-for-signature-over-other-data").sig("layout", &format!("{:?}", layout)).rank(i));
                    } else if *vk != key {
                        acc.viol(Violation::new("foreign-signatures", format!("signed with the {} key, verification with the {} key succeeds", key.name(), vk.name()), case()).sig("clause", "other-key-verifies").rank(i));
                    }
                }
                Ok(Err(_)) => acc.count("does not verify"),
            }
        }
        if i % 37 == 0 {
            acc.sample(i, case);
        }
    }));
    SubReport::new(
        "foreign-signatures",
        "A",
        &format!("{} packages × {} keys × signature subpacket layouts {:?} × made by the primary key / by its signing subkey × the signature covers {{the header, the empty message, the header with one bit changed}} — all valid OpenPGP signatures made with the real secret keys and attached through the public Signing trait; then verify_signature with each of the five real public keys. Oracle (only-if): success ⇒ the signature covers the header and was made with the verifier's key. non-trivial = package signed and re-parsed", pkgs.len(), keys.len(), LAYOUTS),
        acc,
    )
}

pub fn run(ctx: &Ctx) -> i32 {
    let mut subs: Vec<SubReport> = vec![];
    for s in sweeps(ctx) {
        let (mut sub, _ev) = run_sweep(ctx, &s);
        if s.name.starts_with("scripted-verifier") {
            sub.engine = "C (choice-point explorer, all verifier answers) inside A (shape enumeration)";
        }
        subs.push(sub);
    }
    subs.push(crate::aging::run(ctx, "object-histories", &["signature"]));
    subs.push(foreign_signatures(ctx));
    for s in &subs {
        if s.acc.nontrivial == 0 {
            crate::ctx::machinery(&format!("sub-check {} judged nothing: vacuous", s.name));
        }
    }
    ctx.finish(
        "fault_enumeration",
        subs,
        &[
            "beyond one-bit (and selected two-bit) modifications the claim rests on the unforgeability of the signature schemes and the collision resistance of SHA-256",
            "base64 text that is not well formed has no defined decoding; what the verifier is shown for such an item is not judged, the other clauses are",
            "the statement is an 'only if': which of several stored signatures are consulted is not constrained",
        ],
        vec![],
    )
}

pub fn replay(ctx: &Ctx, v: &Value) -> i32 {
    let c = &v["case"];
    let Some(hex) = c["bytes_hex"].as_str() else {
        println!("case has no bytes: {}", c);
        return 0;
    };
    let x = vlib::unhex(hex).unwrap_or_else(|| crate::ctx::machinery("bad hex"));
    let p = match parse_pkg(&x) {
        Ok(Ok(p)) => p,
        other => {
            println!("parse: {:?}", other.map(|r| r.map(|_| ())));
            return 0;
        }
    };
    if let Some(script) = c["verifier_answers(0=accept,1=reject)"].as_array() {
        let pre: Vec<u32> = script.iter().map(|x| x.as_u64().unwrap_or(0) as u32).collect();
        let ch = vlib::explore::Chooser::new(pre);
        let algo = ALGOS.iter().copied().find(|a| Some(format!("{:?}", a)) == c["verifier_algorithm"].as_str().map(|s| s.to_string())).unwrap_or(rpm::signature::AlgorithmType::RSA);
        let sv = Scripted { ch: ch.clone(), calls: RefCell::new(vec![]), algo, reject_with: REJECTIONS.iter().position(|r| Some(*r) == c["verifier_rejects_with"].as_str()).unwrap_or(0) as u8 };
        let r = p.verify_signature(&sv);
        println!("verify_signature = {:?}; verifier calls:", r.as_ref().map_err(|e| e.to_string()));
        for c in sv.calls.borrow().iter() {
            println!("  data {} bytes, signature {:02x?}, answered {}", c.data.len(), c.sig, if c.accepted { "accept" } else { "reject" });
        }
        let bad = r.is_ok() && (sv.calls.borrow().is_empty() || sv.calls.borrow().iter().any(|c| !c.accepted) || expected_digest_verdict(&x) != DigestVerdict::Ok);
        if bad {
            println!("REPRODUCED: Ok without a fully accepted, digest-consistent verification");
            return 1;
        }
        return 0;
    }
    if let Some(k) = c["signed_with"].as_str() {
        let key = ALL_KEYS.iter().find(|x| x.name() == k).copied().unwrap_or(Key::Ed25519);
        let r = p.verify_signature(key.verifier(&ctx.repo));
        println!("verify_signature with {} = {:?}", k, r.as_ref().map_err(|e| e.to_string()));
        if r.is_ok() {
            println!("REPRODUCED (if the package differs from the original)");
            return 1;
        }
    }
    0
}
