//! C18 — file modes convert without losing or inventing bits (engine A, complete domain).
use crate::common::*;
use crate::ctx::Ctx;
use rpm::FileMode;
use serde_json::{json, Value};
use vlib::par::par_fold;
use vlib::report::{catch, Acc, SubReport, Violation};

const TYPE_MASK: u16 = 0o170000;
const PERM_MASK: u16 = 0o7777;

fn check_u16(w: u16, acc: &mut Acc) {
    acc.evals += 1;
    let case = || json!({"kind": "u16", "value": w});
    let r = catch(|| {
        let m = FileMode::from(w);
        let back: u16 = m.into();
        let back32: u32 = m.into();
        (m, back, back32, m.raw_mode(), m.file_type(), m.permissions(), m.to_result().is_ok())
    });
    let (m, back, back32, raw, ft, perm, ok) = match r {
        Ok(x) => x,
        Err(p) => return acc.viol(panic_violation("u16", &p, case())),
    };
    let mut bad = |clause: &str, what: String| {
        acc.viol(Violation::new("u16", what, case()).sig("clause", clause));
    };
    if back != w || raw != w || back32 != w as u32 {
        bad("roundtrip", format!("{:#o} -> {:?} -> {:#o}", w, m, back));
    }
    if ft | perm != w || ft != (w & TYPE_MASK) || perm != (w & PERM_MASK) {
        bad("recombine", format!("{:#o}: file_type {:#o} | permissions {:#o}", w, ft, perm));
    }
    let want = match w & TYPE_MASK {
        0o040000 => "dir",
        0o100000 => "regular",
        0o120000 => "symlink",
        _ => "invalid",
    };
    let got = match m {
        FileMode::Dir { .. } => "dir",
        FileMode::Regular { .. } => "regular",
        FileMode::SymbolicLink { .. } => "symlink",
        FileMode::Invalid { .. } => "invalid",
        _ => "other",
    };
    if want != got || ok != (want != "invalid") {
        bad("classify", format!("{:#o}: type bits say {}, library says {} (to_result ok={})", w, want, got, ok));
    }
    // the value itself: what an invalid word carries is the word (as the non-negative integer it is), also in the error;
    // and the i32 and i16 spellings of the same word give the same value
    if let FileMode::Invalid { raw_mode, .. } = m {
        if raw_mode != w as i32 {
            bad("invalid-carries-the-word", format!("{:#o} is kept as Invalid {{ raw_mode: {} }}", w, raw_mode));
        }
        match m.to_result() {
            Err(rpm::Error::InvalidFileMode { raw_mode: r, .. }) if r == w as i32 => {}
            other => bad("invalid-carries-the-word", format!("{:#o}: to_result() gives {:?}", w, other.map(|_| ()).map_err(|e| e.to_string()))),
        }
    }
    let via_i32 = FileMode::from(w as i32);
    if via_i32 != m || format!("{:?}", via_i32) != format!("{:?}", m) {
        bad("same-word-same-value", format!("{:#o}: from(u16) = {:?}, from(i32) = {:?}", w, m, via_i32));
    }
    acc.count(got);
    if want != "invalid" {
        acc.nontrivial += 1;
    }
    // named constructors mask to 12 bits
    for (name, m2, ty) in [
        ("regular", FileMode::regular(w), 0o100000u16),
        ("dir", FileMode::dir(w), 0o040000),
        ("symbolic_link", FileMode::symbolic_link(w), 0o120000),
    ] {
        // the value itself (public fields, ==, Debug), not only what the accessors make of it
        let same = FileMode::from(ty | (w & PERM_MASK));
        if m2.permissions() != (w & PERM_MASK) || m2.raw_mode() != (ty | (w & PERM_MASK)) || m2.file_type() != ty || m2 != same || format!("{:?}", m2) != format!("{:?}", same) {
            acc.viol(
                Violation::new("u16", format!("FileMode::{}({:#o}) = {:?}", name, w, m2), case()).sig("clause", "ctor-mask"),
            );
        }
    }
    acc.sample(w as u64 ^ 0x81a4, || json!({"u16": format!("{:#o}", w), "class": got}));
}

fn check_i32(i: i32, acc: &mut Acc) {
    acc.evals += 1;
    let case = || json!({"kind": "i32", "value": i});
    let r = catch(|| (FileMode::from(i), FileMode::try_from_raw(i).is_ok()));
    let (m, try_ok) = match r {
        Ok(x) => x,
        Err(p) => return acc.viol(panic_violation("i32", &p, case())),
    };
    let invalid = matches!(m, FileMode::Invalid { .. });
    if try_ok == invalid {
        acc.viol(Violation::new("i32", format!("{}: from = {:?} but try_from_raw ok = {}", i, m, try_ok), case()).sig("clause", "try-consistent"));
    }
    if (0..=65535).contains(&i) {
        let u = FileMode::from(i as u16);
        // Invalid carries raw_mode as i32 in both paths
        if m != u {
            acc.viol(Violation::new("i32", format!("{}: i32 path {:?} != u16 path {:?}", i, m, u), case()).sig("clause", "i32-inrange"));
        }
        if !invalid {
            acc.nontrivial += 1;
        }
        acc.count("in-range");
    } else if i < -32768 || i > 65535 {
        let ok = matches!(m, FileMode::Invalid { raw_mode, .. } if raw_mode == i) && !try_ok;
        if !ok {
            acc.viol(Violation::new("i32", format!("{} is outside 16 bits but gives {:?}", i, m), case()).sig("clause", "i32-outside"));
        }
        // "reported invalid" also as a value: it must not be equal to (or hash like) the mode of the word that shares its low 16 bits
        let low = FileMode::from(i as u16);
        let h = |x: &FileMode| {
            use std::hash::{Hash, Hasher};
            let mut s = std::collections::hash_map::DefaultHasher::new();
            x.hash(&mut s);
            s.finish()
        };
        if m == low || (h(&m) == h(&low) && !matches!(low, FileMode::Invalid { .. })) {
            acc.viol(Violation::new("i32", format!("{} is outside 16 bits but its result {:?} equals / hashes like {:?}", i, m, low), case()).sig("clause", "i32-outside-equals-valid"));
        }
        acc.count("outside");
    } else {
        // −32768..−1 is the signed reading of a 16-bit mode word with bit 15 set (regular files and
        // symbolic links!): the word must be classified by its type bits like any other 16-bit word.
        let u = FileMode::from(i as u16);
        let same = match (&m, &u) {
            (FileMode::Invalid { .. }, FileMode::Invalid { .. }) => m.raw_mode() == u.raw_mode(),
            _ => m == u,
        };
        if !same {
            acc.viol(Violation::new("i32", format!("{} is the 16-bit word {:#o}: u16 path gives {:?}, i32 path {:?}", i, i as u16, u, m), case()).sig("clause", "i32-negative"));
        }
        if !matches!(u, FileMode::Invalid { .. }) {
            acc.nontrivial += 1;
        }
        acc.count("negative-16bit");
    }
}

fn quick_i32_domain() -> Vec<i32> {
    let mut v: Vec<i32> = (-(1 << 17)..=(1 << 17)).collect();
    for p in 0..32u32 {
        let c = (1i64 << p) as i64;
        for d in -32i64..32 {
            for s in [1i64, -1] {
                let x = s * c + d;
                if x >= i32::MIN as i64 && x <= i32::MAX as i64 {
                    v.push(x as i32);
                }
            }
        }
    }
    v.push(i32::MIN);
    v.push(i32::MAX);
    v.sort();
    v.dedup();
    v
}

pub fn run(ctx: &Ctx) -> i32 {
    let a = merge(par_fold(65536, Acc::new, |i, acc| check_u16(i as u16, acc)));
    let s1 = SubReport::new(
        "u16",
        "A",
        "all 65 536 16-bit words: round trip, recombination, classification, constructor masks; non-trivial = word with a known file type",
        a,
    );
    let (b, rule, exhaustive) = if ctx.quick() {
        let dom = quick_i32_domain();
        let b = merge(par_fold(dom.len() as u64, Acc::new, |i, acc| check_i32(dom[i as usize], acc)));
        (b, "i32 values in [-2^17, 2^17] plus the 64 values around ±2^p for every p, i32::MIN/MAX; non-trivial = in 16-bit range with a known file type".to_string(), false)
    } else {
        let b = merge(par_fold(1u64 << 32, Acc::new, |i, acc| check_i32(i as u32 as i32, acc)));
        (b, "all 2^32 i32 values; non-trivial = in 16-bit range with a known file type".to_string(), true)
    };
    let mut s2 = SubReport::new("i32", "A", &rule, b);
    s2.exhaustive = exhaustive;
    // the mode word on its way through the builder and back: given explicitly (with and without a link target / capabilities)
    // and taken over from the source file
    let s3 = {
        use std::os::unix::fs::PermissionsExt;
        let dir = crate::ctx::run_dir().join("c18");
        let _ = std::fs::create_dir_all(&dir);
        let mut acc = Acc::new();
        let perms_list = [0u16, 0o644, 0o755, 0o4755, 0o2750, 0o1777, 0o7777];
        let mut idx = 0u64;
        for ty in 0..16u16 {
            for perms in perms_list {
                let w = (ty << 12) | perms;
                for extra in ["", "link target", "capabilities"] {
                    idx += 1;
                    acc.evals += 1;
                    let src = dir.join("src");
                    std::fs::write(&src, b"x").expect("temp");
                    let case = json!({"kind": "through-builder", "mode_word": format!("{:#o}", w), "with": extra});
                    let r = catch(|| {
                        let mut o = rpm::FileOptions::new("/f").mode(w as i32);
                        if extra == "link target" {
                            o = o.symlink("somewhere");
                        }
                        if extra == "capabilities" {
                            o = o.caps("cap_chown=p")?;
                        }
                        let p = rpm::PackageBuilder::new("t", "1", "MIT", "noarch", "s").compression(rpm::CompressionType::None).with_file(&src, o)?.build()?;
                        let mut out = vec![];
                        p.write(&mut out)?;
                        let q = rpm::Package::parse(&mut &out[..])?;
                        // the word in the archive entry, decoded independently (the package is not compressed)
                        let archived = vlib::refhdr::scan(&out).and_then(|(_, _, _, l)| vlib::refcpio::read_archive(&out[l.payload_off..], &[]).ok()).and_then(|(ents, _)| {
                            ents.into_iter().find_map(|e| match e {
                                vlib::refcpio::Ent::Newc(c) => Some(c.mode),
                                _ => None,
                            })
                        });
                        q.metadata.get_file_entries().map(|v| v.first().map(|f| (f.mode, archived)))
                    });
                    match r {
                        Err(p) => acc.viol(panic_violation("through-builder", &p, case).rank(idx)),
                        Ok(Err(_)) => acc.count("rejected by the builder or on re-parse (not judged)"),
                        Ok(Ok(None)) => acc.count("no file entry"),
                        Ok(Ok(Some((m, archived)))) => {
                            acc.nontrivial += 1;
                            match archived {
                                None => acc.count("archive entry not decoded (not judged)"),
                                Some(a) if a != w as u32 => acc.viol(Violation::new("through-builder", format!("mode word {:#o} given to FileOptions::mode ({}) is archived as {:#o} in the cpio entry", w, if extra.is_empty() { "alone" } else { extra }, a), case.clone()).sig("clause", "archived-mode").rank(idx)),
                                Some(_) => acc.count("archived word equals the given word"),
                            }
                            if m.raw_mode() != w || m != FileMode::from(w) {
                                acc.viol(Violation::new("through-builder", format!("mode word {:#o} given to FileOptions::mode ({}) comes back as {:?} ({:#o})", w, if extra.is_empty() { "alone" } else { extra }, m, m.raw_mode()), case).sig("clause", "builder-roundtrip").rank(idx));
                            }
                        }
                    }
                }
            }
        }
        // inherited from the source file: all twelve permission bits
        for perms in [0o644u32, 0o600, 0o755, 0o4755, 0o2755, 0o1777, 0o7777, 0o4000, 0o0] {
            idx += 1;
            acc.evals += 1;
            let src = dir.join(format!("inherit-{:o}", perms));
            std::fs::write(&src, b"x").expect("temp");
            std::fs::set_permissions(&src, std::fs::Permissions::from_mode(perms)).expect("chmod");
            let kept = std::fs::metadata(&src).map(|m| m.permissions().mode() & 0o7777).unwrap_or(0);
            if kept != perms {
                acc.count("file system did not keep the permission bits (skipped)");
                continue;
            }
            let case = json!({"kind": "inherited", "source_permissions": format!("{:#o}", perms)});
            let r = catch(|| {
                let p = rpm::PackageBuilder::new("t", "1", "MIT", "noarch", "s").compression(rpm::CompressionType::None).with_file(&src, rpm::FileOptions::new("/f"))?.build()?;
                p.metadata.get_file_entries().map(|v| v.first().map(|f| f.mode))
            });
            match r {
                Err(p) => acc.viol(panic_violation("through-builder", &p, case).rank(idx)),
                Ok(Ok(Some(m))) => {
                    acc.nontrivial += 1;
                    if m.raw_mode() as u32 != (0o100000 | perms) {
                        acc.viol(Violation::new("through-builder", format!("a regular source file with permissions {:#o} is recorded as {:#o}", perms, m.raw_mode()), case).sig("clause", "inherited-mode").rank(idx));
                    }
                }
                Ok(other) => acc.count(&format!("not judged: {:?}", other.map(|_| ()).map_err(|e| e.to_string()))),
            }
        }
        // and out onto the file system: the permission bits of extracted files and directories (a directory that holds other
        // packaged entries included) are those of the word
        for perms in [0o700u16, 0o755, 0o750, 0o711, 0o1777, 0o2775, 0o4711, 0o7777, 0o600, 0o644] {
            idx += 1;
            acc.evals += 1;
            let src = dir.join("src");
            std::fs::write(&src, b"x").expect("temp");
            let to = dir.join(format!("extract-{:o}", perms));
            let _ = std::fs::remove_dir_all(&to);
            let case = json!({"kind": "extracted", "permissions": format!("{:#o}", perms), "entries": "/h (directory), /h/inner (file), /h/sub (directory), /h/sub/x (file), /empty (directory), /f (file)"});
            let (dperm, fperm) = (perms | 0o700, perms & !0o111 | 0o600);
            let r = catch(|| {
                let p = rpm::PackageBuilder::new("t", "1", "MIT", "noarch", "s")
                    .compression(rpm::CompressionType::None)
                    .with_file(&src, rpm::FileOptions::new("/h").mode(FileMode::dir(dperm)))?
                    .with_file(&src, rpm::FileOptions::new("/h/inner").mode(FileMode::regular(fperm)))?
                    .with_file(&src, rpm::FileOptions::new("/h/sub").mode(FileMode::dir(dperm)))?
                    .with_file(&src, rpm::FileOptions::new("/h/sub/x").mode(FileMode::regular(fperm)))?
                    .with_file(&src, rpm::FileOptions::new("/empty").mode(FileMode::dir(dperm)))?
                    .with_file(&src, rpm::FileOptions::new("/f").mode(FileMode::regular(fperm)))?
                    .build()?;
                p.extract(&to)
            });
            match r {
                Err(p) => acc.viol(panic_violation("through-builder", &p, case).rank(idx)),
                Ok(Err(e)) => acc.count(&format!("not judged: {}", e).chars().take(60).collect::<String>()),
                Ok(Ok(())) => {
                    acc.nontrivial += 1;
                    for (rel, want) in [("h", 0o040000 | dperm), ("h/inner", 0o100000 | fperm), ("h/sub", 0o040000 | dperm), ("h/sub/x", 0o100000 | fperm), ("empty", 0o040000 | dperm), ("f", 0o100000 | fperm)] {
                        match std::fs::symlink_metadata(to.join(rel)) {
                            Err(_) => acc.count("extracted entry missing (C12's matter, not judged here)"),
                            Ok(md) => {
                                let got = (md.permissions().mode() & 0o177777) as u16;
                                if got != want || FileMode::from(got) != FileMode::from(want) {
                                    acc.viol(Violation::new("through-builder", format!("/{} is packaged with mode word {:#o} and extracted with mode word {:#o}", rel, want, got), case.clone()).sig("clause", "extracted-mode").rank(idx));
                                }
                            }
                        }
                    }
                }
            }
        }
        let _ = std::fs::remove_dir_all(&dir);
        SubReport::new("through-builder", "A", "each of the 16 type nibbles × permissions {0, 0644, 0755, 04755, 02750, 01777, 07777} given to FileOptions::mode — alone, with a link target, with capabilities — built, written, parsed: the recorded word equals the given word, and so does the word in the archive entry (decoded independently); packages with directories (one holding other packaged entries, one nested, one empty) and files in ten permission patterns, extracted: the st_mode of every extracted entry is the packaged word; and regular source files with nine permission patterns (incl. set-uid, set-gid, sticky) packaged without an explicit mode: the recorded word is 0100000 | permissions. non-trivial = read back", acc)
    };
    ctx.finish(
        "exploration",
        vec![s1, s2, s3],
        &["rustc/std", "the u16 domain is enumerated completely in both tiers; the i32 domain completely in the thorough tier"],
        vec![],
    )
}

pub fn replay(_ctx: &Ctx, v: &Value) -> i32 {
    let c = &v["case"];
    let mut acc = Acc::new();
    match c["kind"].as_str() {
        Some("u16") => check_u16(c["value"].as_u64().unwrap_or(0) as u16, &mut acc),
        Some("i32") => check_i32(c["value"].as_i64().unwrap_or(0) as i32, &mut acc),
        _ => crate::ctx::machinery("unknown case kind"),
    }
    for v in acc.viols.values() {
        println!("REPRODUCED {}: {}", v.key(), v.what);
    }
    if acc.viols.is_empty() {
        println!("not reproduced (case passes)");
        0
    } else {
        1
    }
}
