//! C20 — timestamp conversion is exact inside 0..2^32 and an error outside (engine A).
use crate::common::*;
use crate::ctx::Ctx;
use rpm::chrono::{DateTime, FixedOffset, Utc};
use rpm::{Timestamp, TimestampError};
use serde_json::{json, Value};
use std::time::{Duration, SystemTime};
use vlib::par::par_fold;
use vlib::report::{catch, Acc, SubReport, Violation};

const TWO32: i128 = 1 << 32;
const NANOS: [u32; 4] = [0, 1, 500_000_000, 999_999_999];

fn expect(total_nanos: i128) -> Result<u32, TimestampError> {
    // floor division to whole seconds
    let secs = total_nanos.div_euclid(1_000_000_000);
    if secs < 0 {
        Err(TimestampError::Underflow)
    } else if secs >= TWO32 {
        Err(TimestampError::Overflow)
    } else {
        Ok(secs as u32)
    }
}

fn systime(secs: i64, nanos: u32) -> Option<SystemTime> {
    if secs >= 0 {
        SystemTime::UNIX_EPOCH.checked_add(Duration::new(secs as u64, nanos))
    } else {
        // secs + nanos/1e9 with secs negative: subtract |secs| then add nanos
        SystemTime::UNIX_EPOCH
            .checked_sub(Duration::new(secs.unsigned_abs(), 0))
            .and_then(|t| t.checked_add(Duration::new(0, nanos)))
    }
}

fn check_systime(secs: i64, nanos: u32, acc: &mut Acc) -> Option<Result<u32, TimestampError>> {
    let Some(st) = systime(secs, nanos) else {
        acc.count("unrepresentable");
        return None;
    };
    acc.evals += 1;
    let case = || json!({"kind": "systemtime", "secs": secs, "nanos": nanos});
    let got = match catch(|| Timestamp::try_from(st)) {
        Ok(g) => g.map(|t| t.0),
        Err(p) => {
            acc.viol(panic_violation("systemtime", &p, case()));
            return None;
        }
    };
    let want = expect(secs as i128 * 1_000_000_000 + nanos as i128);
    if got != want {
        acc.viol(
            Violation::new("systemtime", format!("{}s+{}ns: got {:?}, want {:?}", secs, nanos, got, want), case())
                .sig("clause", match want {
                    Ok(_) => "exact",
                    Err(TimestampError::Underflow) => "underflow",
                    Err(TimestampError::Overflow) => "overflow",
                }),
        );
    }
    match want {
        Ok(_) => {
            acc.nontrivial += 1;
            acc.count("ok")
        }
        Err(TimestampError::Underflow) => acc.count("underflow"),
        Err(TimestampError::Overflow) => acc.count("overflow"),
    }
    acc.sample((secs as u64).wrapping_mul(0x9e3779b97f4a7c15) ^ nanos as u64, || {
        json!({"systemtime": {"secs": secs, "nanos": nanos}, "expected": format!("{:?}", want)})
    });
    Some(got)
}

const OFFSETS: [i32; 5] = [-12 * 3600, -1, 0, 5 * 3600 + 45 * 60, 14 * 3600];

fn check_chrono(secs: i64, nanos: u32, off: i32, acc: &mut Acc) {
    let Some(utc) = DateTime::<Utc>::from_timestamp(secs, nanos) else {
        acc.count("unrepresentable");
        return;
    };
    let fo = FixedOffset::east_opt(off).expect("offset");
    acc.evals += 1;
    let case = || json!({"kind": "chrono", "secs": secs, "nanos": nanos, "offset": off});
    let got = match catch(|| Timestamp::try_from(utc.with_timezone(&fo))) {
        Ok(g) => g.map(|t| t.0),
        Err(p) => return acc.viol(panic_violation("chrono", &p, case())),
    };
    let want = expect(secs as i128 * 1_000_000_000 + nanos as i128);
    if got != want {
        acc.viol(
            Violation::new("chrono", format!("{}s+{}ns @{:+}s: got {:?}, want {:?}", secs, nanos, off, got, want), case())
                .sig("clause", match want {
                    Ok(_) => "exact",
                    Err(TimestampError::Underflow) => "underflow",
                    Err(TimestampError::Overflow) => "overflow",
                }),
        );
    }
    match want {
        Ok(_) => {
            acc.nontrivial += 1;
            acc.count("ok")
        }
        Err(TimestampError::Underflow) => acc.count("underflow"),
        Err(TimestampError::Overflow) => acc.count("overflow"),
    }
    acc.sample((secs as u64).wrapping_mul(0x9e3779b97f4a7c15) ^ (off as u64) ^ nanos as u64, || {
        json!({"chrono": {"secs": secs, "nanos": nanos, "offset_s": off}, "expected": format!("{:?}", want)})
    });
}

/// chrono's leap-second representation: second `secs` (with secs % 60 == 59) and a nanosecond field in 10^9..2·10^9.
/// Such an instant lies strictly between `secs`.999999999 and `secs + 1`; what number it converts to is not
/// specified by the statement, so only the ordering clauses are judged: the result must lie between the
/// results of its two neighbours, and an instant before the epoch is an underflow.
fn check_leap(secs: i64, nanos: u32, off: i32, acc: &mut Acc) {
    let Some(utc) = DateTime::<Utc>::from_timestamp(secs, nanos) else {
        acc.count("unrepresentable");
        return;
    };
    let (Some(before), Some(after)) = (DateTime::<Utc>::from_timestamp(secs, 999_999_999), DateTime::<Utc>::from_timestamp(secs + 1, 0)) else { return };
    let fo = FixedOffset::east_opt(off).expect("offset");
    acc.evals += 1;
    let case = || json!({"kind": "chrono-leap", "secs": secs, "nanos": nanos, "offset": off});
    let conv = |d: DateTime<Utc>| catch(|| Timestamp::try_from(d.with_timezone(&fo))).map(|r| r.map(|t| t.0));
    let (lo, got, hi) = match (conv(before), conv(utc), conv(after)) {
        (Ok(a), Ok(b), Ok(c)) => (a, b, c),
        (a, b, c) => {
            for r in [a, b, c] {
                if let Err(p) = r {
                    acc.viol(panic_violation("chrono", &p, case()));
                }
            }
            return;
        }
    };
    // rank: underflow < Ok(n) < overflow
    let rank = |r: &Result<u32, TimestampError>| match r {
        Err(TimestampError::Underflow) => -1i64,
        Ok(n) => *n as i64,
        Err(TimestampError::Overflow) => 1 << 40,
    };
    acc.nontrivial += 1;
    acc.count("leap-second representation");
    if !(rank(&lo) <= rank(&got) && rank(&got) <= rank(&hi)) {
        acc.viol(Violation::new("chrono", format!("leap second {}s+{}ns @{:+}s converts to {:?}, its neighbours to {:?} and {:?}: ordering not preserved", secs, nanos, off, got, lo, hi), case()).sig("clause", "monotone-leap"));
    }
    if secs < 0 && got != Err(TimestampError::Underflow) {
        acc.viol(Violation::new("chrono", format!("leap second {}s+{}ns @{:+}s lies before the epoch but converts to {:?}", secs, nanos, off, got), case()).sig("clause", "underflow"));
    }
}

/// A zone with one offset transition (like Europe/Berlin on 2021-10-31: +02:00 before 01:00 UTC, +01:00 from then on),
/// so that local times in the repeated hour are ambiguous; and its mirror image with a skipped hour.
#[derive(Clone, Copy, Debug)]
struct Transition {
    at: i64,
    before: i32,
    after: i32,
}

impl rpm::chrono::TimeZone for Transition {
    type Offset = FixedOffset;
    fn from_offset(_: &FixedOffset) -> Self {
        Transition { at: 1_635_642_000, before: 7200, after: 3600 }
    }
    fn offset_from_local_date(&self, d: &rpm::chrono::NaiveDate) -> rpm::chrono::LocalResult<FixedOffset> {
        self.offset_from_local_datetime(&d.and_hms_opt(12, 0, 0).expect("noon"))
    }
    fn offset_from_local_datetime(&self, l: &rpm::chrono::NaiveDateTime) -> rpm::chrono::LocalResult<FixedOffset> {
        let s = l.and_utc().timestamp();
        let in_before = s < self.at + self.before as i64;
        let in_after = s >= self.at + self.after as i64;
        let east = |x: i32| FixedOffset::east_opt(x).expect("offset");
        match (in_before, in_after) {
            (true, true) => rpm::chrono::LocalResult::Ambiguous(east(self.before), east(self.after)),
            (true, false) => rpm::chrono::LocalResult::Single(east(self.before)),
            (false, true) => rpm::chrono::LocalResult::Single(east(self.after)),
            (false, false) => rpm::chrono::LocalResult::None,
        }
    }
    fn offset_from_utc_date(&self, d: &rpm::chrono::NaiveDate) -> FixedOffset {
        self.offset_from_utc_datetime(&d.and_hms_opt(12, 0, 0).expect("noon"))
    }
    fn offset_from_utc_datetime(&self, u: &rpm::chrono::NaiveDateTime) -> FixedOffset {
        FixedOffset::east_opt(if u.and_utc().timestamp() < self.at { self.before } else { self.after }).expect("offset")
    }
}

fn check_transition_zone(acc: &mut Acc) {
    use rpm::chrono::TimeZone;
    for (name, zone) in [("clocks set back (an hour of local time occurs twice)", Transition { at: 1_635_642_000, before: 7200, after: 3600 }), ("clocks set forward (an hour of local time is skipped)", Transition { at: 1_616_893_200, before: 3600, after: 7200 })] {
        for secs in zone.at - 7300..=zone.at + 7300 {
            for nanos in [0u32, 1, 999_999_999] {
                acc.evals += 1;
                let Some(dt) = zone.timestamp_opt(secs, nanos).single() else {
                    acc.count("unrepresentable");
                    continue;
                };
                let case = json!({"kind": "chrono-transition-zone", "zone": name, "secs": secs, "nanos": nanos});
                match catch(|| Timestamp::try_from(dt)) {
                    Err(p) => acc.viol(panic_violation("chrono", &p, case)),
                    Ok(got) => {
                        acc.nontrivial += 1;
                        if got.map(|t| t.0) != Ok(secs as u32) {
                            acc.viol(Violation::new("chrono", format!("{}: {}s+{}ns converts to {:?}", name, secs, nanos, got), case).sig("clause", "exact"));
                        }
                    }
                }
            }
        }
        acc.count(name);
    }
}

const W: i64 = 4096;

fn window_secs() -> Vec<i64> {
    let mut v = vec![];
    for c in [0i64, 1 << 31, 1 << 32] {
        for d in -W..=W {
            v.push(c + d);
        }
    }
    v.extend([1 << 33, i64::MAX, i64::MIN + 1, -(1i64 << 40), 1i64 << 40, 253402300799, -62135596800]);
    v
}

/// The other places where an instant given by the caller is recorded: changelog times (with and without a source date,
/// before and after it) and the creation time of the OpenPGP signature (before and after the signing key's own creation).
fn recorded_instants(ctx: &Ctx) -> SubReport {
    use chrono::TimeZone;
    let mut acc = Acc::new();
    let grid: [u32; 12] = [0, 1, 86_399, 1_000_000_000, 1_599_999_999, 1_600_000_000, 1_600_000_001, 1_742_000_000, 1_800_000_000, (1u32 << 31) - 1, 1 << 31, u32::MAX];
    let mut rank = 0u64;
    // changelog entries
    for sd in [None, Some(0u32), Some(1_600_000_000), Some(u32::MAX)] {
        for t in grid {
            for form in ["u32", "chrono +05:30", "chrono -08:00 with 999 ms", "SystemTime with 999 999 999 ns"] {
                rank += 1;
                acc.evals += 1;
                let case = json!({"kind": "changelog", "source_date": sd, "changelog_time": t, "given_as": form});
                let r = catch(|| {
                    let mut b = rpm::PackageBuilder::new("t", "1", "MIT", "noarch", "s").compression(rpm::CompressionType::None);
                    if let Some(s) = sd {
                        b = b.source_date(s);
                    }
                    b = match form {
                        "u32" => b.add_changelog_entry("A <a@b>", "- x", t),
                        "chrono +05:30" => b.add_changelog_entry("A <a@b>", "- x", chrono::FixedOffset::east_opt(19_800).unwrap().timestamp_opt(t as i64, 0).unwrap()),
                        "chrono -08:00 with 999 ms" => b.add_changelog_entry("A <a@b>", "- x", chrono::FixedOffset::west_opt(28_800).unwrap().timestamp_opt(t as i64, 999_000_000).unwrap()),
                        _ => b.add_changelog_entry("A <a@b>", "- x", std::time::UNIX_EPOCH + std::time::Duration::new(t as u64, 999_999_999)),
                    };
                    let p = b.build()?;
                    p.metadata.get_changelog_entries().map(|v| v.first().map(|e| e.timestamp))
                });
                match r {
                    Err(pn) => acc.viol(panic_violation("recorded-instants", &pn, case).rank(rank)),
                    Ok(Err(e)) => acc.viol(Violation::new("recorded-instants", format!("a changelog time inside the range is refused: {}", e), case).sig("clause", "changelog-time").rank(rank)),
                    Ok(Ok(got)) => {
                        acc.nontrivial += 1;
                        acc.count("changelog time read back");
                        if got != Some(t as u64) && got.map(|g| g as u64) != Some(t as u64) {
                            acc.viol(Violation::new("recorded-instants", format!("changelog entry at second {} is recorded as {:?}", t, got), case).sig("clause", "changelog-time").rank(rank));
                        }
                    }
                }
            }
        }
    }
    // several entries, one of which has a time outside the range: whether the builder refuses it (today: by panicking in the
    // setter) or skips it, the entries that do end up in a package must be entries that were given — name, text and second together
    for bad_at in 0..3usize {
        for bad_time in [-1i64, -86_400 * 365, 1i64 << 32, 1i64 << 40] {
            rank += 1;
            acc.evals += 1;
            let given: Vec<(String, String, i64)> = (0..3).map(|k| (format!("N{} <n{}@x>", k, k), format!("- entry {}", k), if k == bad_at { bad_time } else { 1_000_000_000 + k as i64 * 1_000 })).collect();
            let case = json!({"kind": "changelog-sequence", "entries": given.iter().map(|g| json!({"name": g.0, "time": g.2})).collect::<Vec<_>>()});
            let r = catch(|| {
                let mut b = rpm::PackageBuilder::new("t", "1", "MIT", "noarch", "s").compression(rpm::CompressionType::None);
                for (n, t, secs) in &given {
                    b = b.add_changelog_entry(n, t, chrono::Utc.timestamp_opt(*secs, 0).unwrap());
                }
                b.build().and_then(|p| p.metadata.get_changelog_entries())
            });
            match r {
                Err(_) => acc.count("an entry outside the range is refused by a panic in the setter (the API has no error path; not judged)"),
                Ok(Err(_)) => acc.count("refused with an error"),
                Ok(Ok(got)) => {
                    acc.nontrivial += 1;
                    for e in &got {
                        if !given.iter().any(|g| g.0 == e.name && g.1 == e.description && g.2 == e.timestamp as i64) {
                            acc.viol(Violation::new("recorded-instants", format!("the package holds the changelog entry ({:?}, {:?}, {}) which was never given", e.name, e.description, e.timestamp), case.clone()).sig("clause", "changelog-time").rank(rank));
                        }
                    }
                }
            }
        }
    }
    // how a failed conversion is reported: the two kinds of failure read differently, as a value and as text, alone and inside rpm::Error
    {
        rank += 1;
        acc.evals += 1;
        let under = rpm::Timestamp::try_from(std::time::UNIX_EPOCH - std::time::Duration::from_secs(1));
        let over = rpm::Timestamp::try_from(std::time::UNIX_EPOCH + std::time::Duration::from_secs(1 << 33));
        let texts = |e: &TimestampError| (format!("{:?}", e), rpm::Error::TimestampConv(*e).to_string());
        match (under, over) {
            (Err(u), Err(o)) => {
                acc.nontrivial += 1;
                let (ud, ut) = texts(&u);
                let (od, ot) = texts(&o);
                if u == o || ud == od || ut == ot {
                    acc.viol(Violation::new("recorded-instants", format!("an instant before 1970 is reported as {:?} / {:?}, one after 2106 as {:?} / {:?}: the two reports must differ", ud, ut, od, ot), json!({"kind": "error-text"})).sig("clause", "error-report").rank(rank));
                }
            }
            other => acc.viol(Violation::new("recorded-instants", format!("conversions outside the range give {:?}", other.0.is_ok()), json!({"kind": "error-text"})).sig("clause", "error-report").rank(rank)),
        }
    }
    // a source date outside the range must be reported (today: by a panic in the setter), not taken for "no source date"
    for (what, secs) in [("one second before 1970", -1i64), ("the year 1900", -2_208_988_800), ("one second after the range", 1i64 << 32), ("the year 3000", 32_503_680_000)] {
        rank += 1;
        acc.evals += 1;
        let case = json!({"kind": "source-date", "source_date": what, "seconds": secs});
        let r = catch(|| rpm::PackageBuilder::new("t", "1", "MIT", "noarch", "s").compression(rpm::CompressionType::None).source_date(chrono::Utc.timestamp_opt(secs, 0).unwrap()).build().map(|p| p.metadata.get_build_time().ok()));
        match r {
            Err(_) => acc.count("a source date outside the range is refused by a panic in the setter (the API has no error path; not judged)"),
            Ok(Err(_)) => acc.count("refused with an error"),
            Ok(Ok(bt)) => {
                acc.nontrivial += 1;
                acc.viol(Violation::new("recorded-instants", format!("a source date of {} is accepted silently (the package's build time is {:?})", what, bt), case).sig("clause", "error-report").rank(rank));
            }
        }
    }
    // signature creation time
    let env = crate::spec::Env::new(&ctx.repo, "c20s");
    let base = crate::corpus::one_file().build(&env).unwrap_or_else(|e| crate::ctx::machinery(&format!("c20: {}", e)));
    for key in [crate::keys::Key::Ed25519, crate::keys::Key::EcdsaP256] {
        for t in grid {
            for via in ["sign_with_timestamp", "build_and_sign with this source date"] {
                rank += 1;
                acc.evals += 1;
                let case = json!({"kind": "signature-time", "key": key.name(), "requested_second": t, "via": via});
                let now_secs = || std::time::SystemTime::now().duration_since(std::time::UNIX_EPOCH).map(|d| d.as_secs()).unwrap_or(0);
                let now_before = now_secs();
                let r = catch(|| {
                    let p = if via == "sign_with_timestamp" {
                        let mut p = base.clone();
                        p.sign_with_timestamp(env.signer(key), t)?;
                        p
                    } else {
                        rpm::PackageBuilder::new("t", "1", "MIT", "noarch", "s").compression(rpm::CompressionType::None).source_date(t).build_and_sign(env.signer(key))?
                    };
                    let mut x = vec![];
                    p.write(&mut x)?;
                    Ok::<_, rpm::Error>(crate::c11::timestamps(&x).into_iter().filter(|(n, _)| n.starts_with("signature creation time")).map(|(_, v)| v).collect::<Vec<u32>>())
                });
                match r {
                    Err(pn) => acc.viol(panic_violation("recorded-instants", &pn, case).rank(rank)),
                    Ok(Err(e)) => acc.count(&format!("signing refused: {}", e).chars().take(60).collect::<String>()),
                    Ok(Ok(times)) => {
                        acc.nontrivial += 1;
                        acc.count("signature time decoded");
                        // build_and_sign clamps: the source date if it is in the past, the current time otherwise
                        let fine = |x: u32| x == t || (via != "sign_with_timestamp" && (t as u64) >= now_before && (x as u64) >= now_before && (x as u64) <= now_secs());
                        if times.is_empty() || times.iter().any(|x| !fine(*x)) {
                            acc.viol(Violation::new("recorded-instants", format!("signature requested for second {} carries the creation time(s) {:?}", t, times), case).sig("clause", "signature-time").rank(rank));
                        }
                    }
                }
            }
        }
    }
    SubReport::new("recorded-instants", "A", "the other places where a caller's instant is recorded. Changelog entries: 12 seconds from 0 to 2^32−1 × given as integer, as zoned chrono values (one with a sub-second part) and as SystemTime with 999 999 999 ns × source date ∈ {none, 0, 1 600 000 000, 2^32−1}: get_changelog_entries returns the whole second, whatever the source date; three entries of which one has a time outside the range (12 sequences): whatever is built holds only entries that were given; the two kinds of failed conversion read differently (as values and as the text of rpm::Error) and a source date outside the range is not accepted silently. OpenPGP signatures: the same 12 seconds (before and after the signing keys' own creation in 2025) × 2 keys × {sign_with_timestamp, build_and_sign with that source date}: the signature's creation-time subpacket is that second (build_and_sign with a source date in the future: the current time, as documented clamping)", acc)
}

fn builder_path(ctx: &Ctx) -> SubReport {
    // with_file converts the source file's mtime: −1 s and 2^32 must make it fail, 0 and 2^32−1 not.
    let mut acc = Acc::new();
    let dir = crate::ctx::run_dir().join("c20");
    let _ = std::fs::create_dir_all(&dir);
    let signer = crate::keys::Key::Ed25519.signer(&ctx.repo);
    let mut cases: Vec<(i64, u32, bool)> = vec![];
    for secs in [-86_400i64 * 366, -2, -1, 0, 1, (1 << 31) - 1, 1 << 31, TWO32 as i64 - 2, TWO32 as i64 - 1, TWO32 as i64, TWO32 as i64 + 1, 1 << 33] {
        for nanos in [0u32, 1, 500_000_000, 999_999_999] {
            cases.push((secs, nanos, (0..TWO32 as i64).contains(&secs)));
        }
    }
    for (i, (secs, nanos, want_ok)) in cases.iter().enumerate() {
        let p = dir.join(format!("f{}", i));
        std::fs::write(&p, b"x").expect("temp file");
        let Some(st) = systime(*secs, *nanos) else { continue };
        let f = std::fs::OpenOptions::new().write(true).open(&p).expect("open");
        if f.set_modified(st).is_err() {
            acc.count("fs-refused-mtime");
            continue;
        }
        drop(f);
        let back = std::fs::metadata(&p).and_then(|m| m.modified()).ok();
        if back != Some(st) {
            acc.count("fs-clamped-mtime");
            continue;
        }
      // the same conversion on every way a package gets finished and whatever was configured before the file is added
      for variant in ["build", "build_and_sign", "source date far in the future set before with_file"] {
        acc.evals += 1;
        let case = json!({"kind": "builder", "mtime_secs": secs, "mtime_nanos": nanos, "variant": variant});
        let r = catch(|| {
            let mut b = rpm::PackageBuilder::new("t", "1", "MIT", "noarch", "s").compression(rpm::CompressionType::None);
            if variant.starts_with("source date") {
                b = b.source_date(u32::MAX);
            }
            let b = b.with_file(&p, rpm::FileOptions::new("/f"))?;
            let pkg = if variant == "build_and_sign" { b.build_and_sign(signer.clone())? } else { b.build()? };
            pkg.metadata.get_file_entries().map(|fe| fe.first().map(|f| f.modified_at.0))
        });
        match r {
            Err(pn) => acc.viol(panic_violation("builder", &pn, case.clone())),
            Ok(res) => {
                if res.is_ok() != *want_ok {
                    acc.viol(
                        Violation::new("builder", format!("with_file on mtime {}s+{}ns: ok={} want ok={}", secs, nanos, res.is_ok(), want_ok), case.clone())
                            .sig("clause", "with_file"),
                    );
                }
                match &res {
                    Ok(mt) => {
                        if *mt != Some(*secs as u32) {
                            acc.viol(Violation::new("builder", format!("with_file on mtime {}s+{}ns: the package records {:?}", secs, nanos, mt), case.clone()).sig("clause", "with_file-value"));
                        }
                    }
                    Err(e) => {
                        let want = if *secs < 0 { TimestampError::Underflow } else { TimestampError::Overflow };
                        if !matches!(e, rpm::Error::TimestampConv(k) if *k == want) {
                            acc.viol(Violation::new("builder", format!("with_file on mtime {}s+{}ns: error is {:?}, want TimestampConv({:?})", secs, nanos, e, want), case.clone()).sig("clause", "with_file-error-kind"));
                        }
                    }
                }
                acc.count(if res.is_ok() { "accepted" } else { "rejected" });
                if res.is_ok() {
                    acc.nontrivial += 1;
                }
                acc.sample(i as u64, || json!({"with_file_mtime": {"secs": secs, "nanos": nanos}, "accepted": res.is_ok()}));
            }
        }
      }
    }
    let _ = std::fs::remove_dir_all(&dir);
    let _ = ctx;
    SubReport::new("builder", "A", "with_file on real files whose mtime is −366 d, −2, −1, 0, 1, 2^31−1, 2^31, 2^32−2, 2^32−1, 2^32, 2^32+1, 2^33 s × sub-second {0, 1 ns, 0.5 s, 999 999 999 ns} (skipped where the file system cannot store the mtime): each through build(), through build_and_sign() and with a far-future source date configured before with_file: accepted exactly inside 0..2^32 with the whole second recorded in the built package, underflow / overflow reported as such; non-trivial = accepted", acc)
}

pub fn run(ctx: &Ctx) -> i32 {
    let ws = window_secs();
    // SystemTime windows, incl. monotonicity over consecutive instants
    let a = merge(par_fold(ws.len() as u64, Acc::new, |i, acc| {
        let s = ws[i as usize];
        let mut prev: Option<u32> = None;
        for n in NANOS {
            if let Some(Ok(t)) = check_systime(s, n, acc) {
                if let Some(p) = prev {
                    if t < p {
                        acc.viol(Violation::new("systemtime", format!("not monotone at {}s", s), json!({"kind": "systemtime", "secs": s, "nanos": n})).sig("clause", "monotone"));
                    }
                }
                prev = Some(t);
            }
        }
    }));
    let mut subs = vec![SubReport::new(
        "systemtime-windows",
        "A",
        "every whole second in ±4096 s around 0, 2^31, 2^32 × sub-second ∈ {0, 1 ns, 0.5 s, 999 999 999 ns}, plus extremes, a logarithmic grid ±(m·2^p + d) s for every p < 63, m ∈ {1,3,5,7}, d ∈ {−1,0,1}, and the instants at which a count of milli- / micro- / nanoseconds passes a multiple of 2^63; oracle = floor seconds / Underflow / Overflow; non-trivial = instant inside 0..2^32",
        a,
    )
    .not_exhaustive()];
    // extremes
    let mut ex = Acc::new();
    for (s, n) in [(i64::MAX, 999_999_999u32), (i64::MIN, 0), (i64::MIN + 1, 0)] {
        check_systime(s, n, &mut ex);
    }
    // the far future and the far past on a logarithmic grid: ±(2^p + d) and ±(3·2^p), ±(5·2^p) seconds for every p
    // (conversions that go through milliseconds, microseconds, nanoseconds or floating point wrap or round somewhere on it)
    for p in 0..63u32 {
        for m in [1i64, 3, 5, 7] {
            for d in [-1i64, 0, 1] {
                let Some(v) = (1i64 << p).checked_mul(m).and_then(|x| x.checked_add(d)) else { continue };
                for n in [0u32, 999_999_999] {
                    check_systime(v, n, &mut ex);
                    check_systime(-v, n, &mut ex);
                }
            }
        }
    }
    // multiples of 2^64 and 2^63 sub-second units expressed in seconds (where counts of ms / µs / ns wrap)
    for unit in [1_000u128, 1_000_000, 1_000_000_000] {
        for k in 1..=6u128 {
            for half in [0u128, 1] {
                let total_units = k * (1u128 << 64) + half * (1u128 << 63);
                let secs = (total_units / unit) as i64;
                for d in [-1i64, 0, 1, 2] {
                    for n in [0u32, 1, 999_999_999] {
                        check_systime(secs.saturating_add(d), n, &mut ex);
                    }
                }
            }
        }
    }
    subs[0].acc.merge(ex);

    let c = merge(par_fold((ws.len() * OFFSETS.len()) as u64, Acc::new, |i, acc| {
        let s = ws[i as usize / OFFSETS.len()];
        let off = OFFSETS[i as usize % OFFSETS.len()];
        for n in NANOS {
            check_chrono(s, n, off, acc);
        }
        if s.rem_euclid(60) == 59 && s.unsigned_abs() < (1u64 << 40) {
            for n in [1_000_000_000u32, 1_000_000_001, 1_500_000_000, 1_999_999_999] {
                check_leap(s, n, off, acc);
            }
        }
    }));
    let mut cs = SubReport::new(
        "chrono-windows",
        "A",
        "same windows × fixed offsets {−12 h, −1 s, 0, +5:45, +14 h}, plus MIN_UTC/MAX_UTC in each zone; every second within ±7300 s of the offset transition of two hand-written zones (one where an hour of local time occurs twice, one where an hour is skipped); every minute-ending second of the windows also in chrono's leap-second representation (nanosecond field 10^9 … 2·10^9−1): ordering clauses only",
        c,
    )
    .not_exhaustive();
    {
        let mut acc = Acc::new();
        for base in [DateTime::<Utc>::MIN_UTC, DateTime::<Utc>::MAX_UTC] {
            for off in OFFSETS {
                acc.evals += 1;
                let fo = FixedOffset::east_opt(off).unwrap();
                let want = if base == DateTime::<Utc>::MIN_UTC { Err(TimestampError::Underflow) } else { Err(TimestampError::Overflow) };
                let case = json!({"kind": "chrono-extreme", "which": if want == Err(TimestampError::Underflow) {"MIN_UTC"} else {"MAX_UTC"}, "offset": off});
                match catch(|| Timestamp::try_from(base.with_timezone(&fo))) {
                    Err(p) => acc.viol(panic_violation("chrono", &p, case)),
                    Ok(got) => {
                        if got.map(|t| t.0) != want {
                            acc.viol(Violation::new("chrono", format!("extreme: got {:?} want {:?}", got, want), case).sig("clause", "extreme"));
                        }
                    }
                }
            }
        }
        cs.acc.merge(acc);
    }
    {
        let mut acc = Acc::new();
        check_transition_zone(&mut acc);
        cs.acc.merge(acc);
    }
    subs.push(cs);

    if ctx.thorough() {
        // every whole second of 0..2^32 × the four sub-second offsets (complete on the range)
        let chunk: u64 = 1 << 16;
        let n = (1u64 << 32) / chunk;
        let t = merge(par_fold(n, Acc::new, |ci, acc| {
            let mut prev: u32 = 0;
            let mut evals = 0u64;
            for s in ci * chunk..(ci + 1) * chunk {
                for nn in NANOS {
                    let st = SystemTime::UNIX_EPOCH + Duration::new(s, nn);
                    evals += 1;
                    match Timestamp::try_from(st) {
                        Ok(t) if t.0 as u64 == s && t.0 >= prev => prev = t.0,
                        other => acc.viol(
                            Violation::new("systemtime-all", format!("{}s+{}ns: got {:?}", s, nn, other), json!({"kind": "systemtime", "secs": s, "nanos": nn}))
                                .sig("clause", "exact"),
                        ),
                    }
                }
            }
            acc.evals += evals;
            acc.nontrivial += evals;
            acc.count_n("ok", evals);
            acc.sample(ci, || json!({"systemtime_seconds": format!("{}..{}", ci * chunk, (ci + 1) * chunk), "subsec": NANOS}));
        }));
        subs.push(SubReport::new(
            "systemtime-all",
            "A",
            "every whole second of 0..2^32 × sub-second ∈ {0, 1 ns, 0.5 s, 999 999 999 ns}: exact and monotone (complete on the range)",
            t,
        ));
    }
    subs.push(builder_path(ctx));
    subs.push(recorded_instants(ctx));
    ctx.finish(
        "exploration",
        subs,
        &["rustc/std SystemTime and chrono arithmetic are correct", "instants outside the enumerated windows are covered only in the thorough tier (all seconds of 0..2^32)"],
        vec![],
    )
}

pub fn replay(_ctx: &Ctx, v: &Value) -> i32 {
    let c = &v["case"];
    let mut acc = Acc::new();
    let secs = c["secs"].as_i64().unwrap_or(0);
    let nanos = c["nanos"].as_u64().unwrap_or(0) as u32;
    match c["kind"].as_str() {
        Some("systemtime") => {
            check_systime(secs, nanos, &mut acc);
        }
        Some("chrono") => check_chrono(secs, nanos, c["offset"].as_i64().unwrap_or(0) as i32, &mut acc),
        _ => crate::ctx::machinery("replay of this case kind: re-run the check (the case list is 6 entries long)"),
    }
    for v in acc.viols.values() {
        println!("REPRODUCED {}: {}", v.key(), v.what);
    }
    if acc.viols.is_empty() {
        println!("not reproduced (case passes)");
        0
    } else {
        1
    }
}
