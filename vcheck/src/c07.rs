//! C07 — payload iteration returns every file's exact content under its own metadata (engine A).
use crate::common::*;
use crate::ctx::Ctx;
use crate::foreign::{self, FFile};
use crate::oracles::*;
use crate::spec::*;
use serde_json::{json, Value};
use std::io::Write;
use vlib::par::par_fold;
use vlib::report::{catch, Acc, SubReport, Violation};

pub const SIZES: [usize; 13] = [0, 1, 2, 3, 4, 5, 7, 8, 4095, 4096, 4097, 65_535, 65_537];

pub fn comps(thorough: bool) -> Vec<Comp> {
    if thorough {
        let mut v = vec![Comp::None];
        v.extend((0..=9).map(Comp::Gzip));
        v.extend((0..=9).map(Comp::Xz));
        v.extend((1..=22).map(Comp::Zstd));
        v
    } else {
        vec![Comp::None, Comp::Gzip(0), Comp::Gzip(6), Comp::Gzip(9), Comp::Zstd(1), Comp::Zstd(3), Comp::Zstd(19), Comp::Xz(0), Comp::Xz(6), Comp::Xz(9)]
    }
}

fn content(kind: u64, n: usize) -> Content {
    if kind == 0 {
        Content::Noise(n)
    } else {
        Content::Text(n)
    }
}

/// All built-package configurations of this check, as a flat list.
pub fn specs(thorough: bool) -> Vec<BuildSpec> {
    let mut v = vec![];
    let cs = comps(thorough);
    let mut sizes: Vec<usize> = SIZES.to_vec();
    if thorough {
        sizes.extend([1 << 20, 5 << 20]);
    }
    let mk = |files: Vec<FileSpec>, c: Comp, large: bool| {
        let mut s = BuildSpec::minimal();
        s.name = "payload".into();
        s.files = files;
        s.compression = c;
        s.large_files = large;
        s
    };
    // (0) no files at all
    for c in &cs {
        for large in [false, true] {
            v.push(mk(vec![], *c, large));
        }
    }
    // (1) one file: every size × compressible / incompressible × every compression × both layouts
    for &n in &sizes {
        for kind in 0..2 {
            for c in &cs {
                if n >= (1 << 20) && matches!(c, Comp::Zstd(l) if *l >= 20) && kind == 0 {
                    // zstd ultra levels on MiB-sized noise cost seconds each; keep one representative
                    if !matches!(c, Comp::Zstd(22)) {
                        continue;
                    }
                }
                for large in [false, true] {
                    v.push(mk(vec![FileSpec::new("/d/f", content(kind, n))], *c, large));
                }
            }
        }
    }
    // (2) name lengths (all residues mod 4, long names)
    for nl in [1usize, 2, 3, 4, 5, 255, 4000] {
        for &n in &[0usize, 1, 4, 5] {
            for c in [Comp::None, Comp::Gzip(6)] {
                for large in [false, true] {
                    v.push(mk(vec![FileSpec::new(&format!("/d/{}", "n".repeat(nl)), content(0, n))], c, large));
                }
            }
        }
    }
    // (2b) zstd levels above the default need larger decoder windows: keep a few in the quick tier too
    if !thorough {
        for l in [20, 21, 22] {
            for &n in &[0usize, 5, 4096] {
                for large in [false, true] {
                    v.push(mk(vec![FileSpec::new("/d/f", content(1, n))], Comp::Zstd(l), large));
                }
            }
        }
    }
    // (2c) paths that are related to each other: one a suffix / prefix of the other, same base name in different directories
    let related: [&[&str]; 19] = [
        // names that look like archive-format markers
        &["/TRAILER!!!", "/a", "/z"],
        &["/d/TRAILER!!!", "/d/x", "./TRAILER!!!"],
        &["/070701", "/07070X00000000", "/.x", "/..a"],
        // destinations that are not in their shortest form
        &["/ns/demo//bin/tool.py", "/ns/./demo/lib/x", "//ns2/y"],
        // the relative './' spelling with a hidden first component
        &["./.config/demo/settings.toml", "/config/demo/settings.toml"],
        &["./.hidden", "./visible", "./..d/x"],
        &["./.a/.b/.c", "/a/b/c", "./a/.b/c"],
        // hidden (dot-prefixed) names next to their plain twins, at the top level and below
        &["/.config/settings", "/config/settings"],
        &["/.hidden", "/hidden", "/d/.hidden", "/d/hidden"],
        &["/..data/x", "/.data/x", "/data/x"],
        &["/etc/.a./f", "/etc/a/f", "/etc/a./f"],
        &["/opt/vendor/usr/bin/tool", "/usr/bin/tool"],
        &["/a/b/f", "/b/f", "/f"],
        &["/usr/bin/tool", "/usr/bin/tool.d/tool"],
        &["/d/a", "/d/a.bak", "/d/aa"],
        &["/x/y", "/x/y/z"],
        &["/d/File", "/d/file", "/D/file"],
        // byte order of the full path is not component order: '-' and '.' sort before '/'
        &["/lib/x", "/lib-1.0/y", "/lib.d/z", "/lib/sub/w", "/lib.conf"],
        &["/demo/a", "/demo.d/a", "/demo a/a", "/demo+/a"],
    ];
    for set in related {
        for c in [Comp::None, Comp::Gzip(6)] {
            for large in [false, true] {
                let files: Vec<FileSpec> = set
                    .iter()
                    .enumerate()
                    .map(|(i, p)| {
                        let mut f = FileSpec::new(p, Content::Bytes(format!("content of {} #{}", p, i).into_bytes()));
                        if *p == "/x/y" {
                            f.mode = ModeSpec::Dir(0o755);
                            f.content = Content::Bytes(vec![]);
                        }
                        f
                    })
                    .collect();
                v.push(mk(files, c, large));
            }
        }
    }
    // (2d) sources that are not plain files: kernel-backed (stat size 0) and reached through a symbolic link
    for c in [Comp::None, Comp::Gzip(6), Comp::Default] {
        for large in [false, true] {
            let mut files = vec![FileSpec::new("/s/a-first", Content::Bytes(b"first".to_vec())), FileSpec::new("/s/linked", Content::Linked(Box::new(Content::Noise(4097))))];
            if std::path::Path::new(KERNEL_SOURCE).exists() {
                let mut k = FileSpec::new("/s/kernel", Content::Kernel);
                k.mode = ModeSpec::Inherit(0o444);
                files.push(k);
            }
            files.push(FileSpec::new("/s/z-last", Content::Bytes(b"last".to_vec())));
            v.push(mk(files, c, large));
        }
    }
    // (2d') entries that are not regular files but are built from sources with content, between regular neighbours
    for c in [Comp::None, Comp::Gzip(6)] {
        for large in [false, true] {
            let mut d = FileSpec::new("/t/dir", Content::Bytes(b"content of a directory entry".to_vec()));
            d.mode = ModeSpec::Dir(0o755);
            let mut l = FileSpec::new("/t/link", Content::Bytes(b"content of a link entry".to_vec()));
            l.mode = ModeSpec::Symlink(0o777);
            l.symlink = Some("dir".into());
            let mut r = FileSpec::new("/t/raw", Content::Text(9));
            r.mode = ModeSpec::Raw(0o640);
            let mut g = FileSpec::new("/t/ghost", Content::Text(11));
            g.flags = vec!["ghost"];
            v.push(mk(vec![FileSpec::new("/t/a", Content::Bytes(b"a".to_vec())), d, g, l, r, FileSpec::new("/t/z", Content::Bytes(b"zz".to_vec()))], c, large));
        }
    }
    // (2e) many files: counts that cross 8- and 16-bit boundaries, in one directory and in one directory each
    let counts: Vec<usize> = if thorough { vec![255, 256, 257, 1000, 65_536, 65_537] } else { vec![255, 256, 257, 1000] };
    for n in counts {
        for one_dir in [true, false] {
            for (c, large) in [(Comp::None, false), (Comp::Gzip(1), true)] {
                if n > 2000 && (!one_dir || large) {
                    continue; // the big counts once
                }
                let files: Vec<FileSpec> = (0..n)
                    .map(|i| {
                        let p = if one_dir { format!("/many/f{:06}", i) } else { format!("/many/d{:06}/f", i) };
                        FileSpec::new(&p, Content::Bytes(format!("{}", i % 7).into_bytes()))
                    })
                    .collect();
                v.push(mk(files, c, large));
            }
        }
    }
    // (2f) the size ladder: 2^k − 1, 2^k, 2^k + 1 for every k from 13 to 20 (thorough: 24) in one package
    for c in [Comp::None, Comp::Gzip(1), Comp::Zstd(1), Comp::Xz(0)] {
        for large in [false, true] {
            let mut files = vec![];
            for k in 13..=(if thorough { 24 } else { 20 }) {
                for (d, n) in [(-1i64, "m"), (0, "e"), (1, "p")] {
                    files.push(FileSpec::new(&format!("/ladder/k{:02}{}", k, n), content((k % 2) as u64, ((1i64 << k) + d) as usize)));
                }
            }
            v.push(mk(files, c, large));
        }
    }
    // (3) two and three files, every ordered size tuple over a small set
    let small = [0usize, 1, 3, 4, 5, 4096];
    for c in [Comp::None, Comp::Gzip(6), Comp::Zstd(3), Comp::Xz(1)] {
        for large in [false, true] {
            for &a in &small {
                for &b in &small {
                    v.push(mk(vec![FileSpec::new("/d/a", content(0, a)), FileSpec::new("/d/b", content(1, b))], c, large));
                    if c == Comp::None || c == Comp::Gzip(6) {
                        for &d in &small {
                            // given out of path order on purpose: the builder sorts by path
                            v.push(mk(vec![FileSpec::new("/z/c", content(0, d)), FileSpec::new("/d/a", content(0, a)), FileSpec::new("/e/b", content(1, b))], c, large));
                        }
                    }
                }
            }
        }
    }
    v
}

#[derive(Debug, Clone, PartialEq)]
pub struct Yielded {
    pub path: String,
    pub content_sha: String,
    pub len: usize,
    pub meta_size: usize,
    pub meta_digest: Option<String>,
}

fn yielded(f: rpm::RpmFile) -> Yielded {
    Yielded {
        path: f.metadata.path.to_string_lossy().to_string(),
        content_sha: sha256_hex(&f.content),
        len: f.content.len(),
        meta_size: f.metadata.size,
        meta_digest: f.metadata.digest.as_ref().map(|d| d.as_hex().to_string()),
    }
}

/// The same files through the other ways of driving an iterator: `nth`, `skip`, `step_by`, `last`, `count`, `size_hint`
/// between the steps. Returns a description of the first disagreement with `plain` (the result of a `for` loop).
pub fn iterate_other_ways(p: &rpm::Package, plain: &[Yielded]) -> Result<(), String> {
    let n = plain.len();
    let open = || p.files().map_err(|e| format!("files(): {}", e));
    for k in 0..=n {
        let got = open()?.nth(k).map(|r| r.map(yielded).map_err(|e| e.to_string()));
        let want = plain.get(k).cloned();
        match (got, want) {
            (Some(Ok(g)), Some(w)) if g == w => {}
            (None, None) => {}
            (g, w) => return Err(format!("files().nth({}) gives {:?}, the {}-th file of a plain loop is {:?}", k, g.map(|r| r.map(|y| y.path)), k, w.map(|y| y.path))),
        }
        let got: Result<Vec<Yielded>, String> = open()?.skip(k).map(|r| r.map(yielded).map_err(|e| e.to_string())).collect();
        if got.as_ref().ok().map(|v| &v[..]) != Some(&plain[k.min(n)..]) {
            return Err(format!("files().skip({}) gives {:?}", k, got.map(|v| v.into_iter().map(|y| y.path).collect::<Vec<_>>())));
        }
    }
    for step in [2usize, 3] {
        let got: Result<Vec<Yielded>, String> = open()?.step_by(step).map(|r| r.map(yielded).map_err(|e| e.to_string())).collect();
        let want: Vec<Yielded> = plain.iter().step_by(step).cloned().collect();
        if got.as_ref().ok() != Some(&want) {
            return Err(format!("files().step_by({}) gives {:?}", step, got.map(|v| v.into_iter().map(|y| y.path).collect::<Vec<_>>())));
        }
    }
    if open()?.count() != n {
        return Err(format!("files().count() is not {}", n));
    }
    let last = open()?.last().map(|r| r.map(yielded).map_err(|e| e.to_string()));
    if last.as_ref().map(|r| r.as_ref().ok()) != plain.last().map(Some) {
        return Err(format!("files().last() gives {:?}", last.map(|r| r.map(|y| y.path))));
    }
    // size_hint between the steps must bracket what is still to come
    let mut it = open()?;
    for k in 0..=n {
        let (lo, hi) = it.size_hint();
        let rest = n - k;
        if lo > rest || hi.map(|h| h < rest).unwrap_or(false) {
            return Err(format!("after {} of {} files size_hint() is ({}, {:?})", k, n, lo, hi));
        }
        if it.next().is_none() {
            break;
        }
    }
    Ok(())
}

pub fn iterate(p: &rpm::Package) -> Result<Vec<Yielded>, String> {
    let mut out = vec![];
    // an iterator that yields more entries than the header lists files (plus a margin) is treated as not terminating
    let cap = p.metadata.get_file_paths().map(|v| v.len()).unwrap_or(0) + 1000;
    for f in p.files().map_err(|e| format!("files(): {}", e))? {
        let f = f.map_err(|e| format!("entry {}: {}", out.len(), e))?;
        out.push(Yielded {
            path: f.metadata.path.to_string_lossy().to_string(),
            content_sha: sha256_hex(&f.content),
            len: f.content.len(),
            meta_size: f.metadata.size,
            meta_digest: f.metadata.digest.as_ref().map(|d| d.as_hex().to_string()),
        });
        if out.len() > cap {
            return Err("iterator does not terminate".into());
        }
    }
    Ok(out)
}

/// Oracle for a package built from `spec`.
pub fn judge_built(sub: &str, spec: &BuildSpec, p: &rpm::Package, rank: u64, case: &dyn Fn() -> Value, acc: &mut Acc) {
    let mut want: Vec<(String, Vec<u8>)> = spec.files.iter().map(|f| (f.expected_path(), f.content.materialize())).collect();
    want.sort_by(|a, b| a.0.cmp(&b.0));
    let layout = if spec.large_files { "stripped" } else { "standard" };
    let mut bad = |clause: &str, what: String| {
        acc.viol(Violation::new(sub, what, case()).sig("clause", clause).sig("layout", layout).rank(rank));
    };
    match catch(|| iterate(p)) {
        Err(pn) => bad("no-panic", format!("files() panics at {}", pn.at)),
        Ok(Err(e)) => bad("iteration-fails", format!("iterating the payload of a built package fails: {}", e)),
        Ok(Ok(got)) => {
            if got.len() != want.len() {
                bad("sequence", format!("{} files given, {} yielded", want.len(), got.len()));
                return;
            }
            for (g, (wp, wc)) in got.iter().zip(want.iter()) {
                if g.path != *wp {
                    bad("sequence", format!("yielded {:?} where {:?} is next in path order", g.path, wp));
                }
                if g.content_sha != sha256_hex(wc) || g.len != wc.len() {
                    bad("content", format!("{}: content differs ({} bytes yielded, {} given)", wp, g.len, wc.len()));
                }
                if g.len != g.meta_size {
                    bad("size", format!("{}: {} bytes yielded, metadata says {}", wp, g.len, g.meta_size));
                }
                if g.meta_digest.as_deref() != Some(g.content_sha.as_str()) {
                    bad("digest", format!("{}: digest of the yielded bytes {} but metadata records {:?}", wp, g.content_sha, g.meta_digest));
                }
            }
            if got.len() <= 24 {
                match catch(|| iterate_other_ways(p, &got)) {
                    Err(pn) => bad("no-panic", format!("driving files() through nth / skip / step_by / last / count panics at {}", pn.at)),
                    Ok(Err(e)) => bad("iterator-protocol", e),
                    Ok(Ok(())) => {}
                }
            }
        }
    }
}

// ------------------------------------------------------------------ foreign packages

fn gzip(b: &[u8]) -> Vec<u8> {
    let mut e = flate2::write::GzEncoder::new(vec![], flate2::Compression::new(6));
    e.write_all(b).unwrap();
    e.finish().unwrap()
}

struct Foreign {
    desc: Value,
    bytes: Vec<u8>,
    /// expected (path, archived data) in archive order
    expect: Vec<(String, Vec<u8>)>,
}

fn permutations(n: usize) -> Vec<Vec<usize>> {
    fn rec(cur: &mut Vec<usize>, n: usize, out: &mut Vec<Vec<usize>>) {
        if !cur.is_empty() {
            out.push(cur.clone());
        }
        for i in 0..n {
            if !cur.contains(&i) {
                cur.push(i);
                rec(cur, n, out);
                cur.pop();
            }
        }
    }
    let mut out = vec![vec![]];
    rec(&mut vec![], n, &mut out);
    out
}

fn foreign_cases() -> Vec<Foreign> {
    let mut v = vec![];
    // header files in path order; g is a %ghost file that rpm never archives
    let mut ghost = FFile::regular("/a/", "g", b"");
    ghost.flags = 1 << 6;
    ghost.content = b"ghost-size-only".to_vec(); // recorded size, not in the archive
    let sets: Vec<Vec<FFile>> = vec![
        vec![FFile::regular("/a/", "f", b"content of f")],
        vec![FFile::regular("/a/", "f", b"content of f"), FFile::regular("/a/", "x", b"x!")],
        vec![FFile::regular("/a/", "f", b"content of f"), ghost.clone(), FFile::regular("/a/", "x", b"the x file.....")],
        vec![FFile::regular("/a/", "f", b"12345"), FFile::symlink("/a/", "l", "f"), FFile::regular("/b/", "z", b"")],
    ];
    // a source package as rpmbuild writes it: no directories, bare archive names, incl. names that start with dots
    {
        let files = vec![FFile::regular("", ".rpmlintrc", b"lint"), FFile::regular("", "..data", b"dd"), FFile::regular("", "a.spec", b"spec file"), FFile::regular("", "rpmlintrc", b"twin without the dot")];
        for order in permutations(files.len()).into_iter().filter(|o| o.len() >= 3) {
            for (cname, comp) in [("none", None), ("gzip", Some("gzip"))] {
                let arch = foreign::newc_archive_bare(&files, &order);
                let payload = if comp.is_some() { gzip(&arch) } else { arch };
                let mut parts = foreign::package("foreign-src", &files, payload, comp, false);
                crate::pkgtool::set(&mut parts.main, 1106, Some(vlib::refhdr::Val::Int32(vec![1])));
                let bytes = parts.join().0;
                let expect = order.iter().map(|&i| (files[i].path(), files[i].archive_data())).collect();
                v.push(Foreign {
                    desc: json!({"header_files": files.iter().map(|f| json!({"path": f.path()})).collect::<Vec<_>>(), "archive_order": order.iter().map(|&i| files[i].path()).collect::<Vec<_>>(), "compression": cname,
                                 "layout": "source package: SOURCEPACKAGE tag, no directory names, newc entries named by the bare file name (as rpmbuild writes them)"}),
                    bytes,
                    expect,
                });
            }
        }
    }
    // %ghost files (not archived) whose path ends with the whole path of a file that is archived
    let mut deep_ghost = FFile::regular("/chroot/etc/", "motd", b"");
    deep_ghost.flags = 1 << 6;
    deep_ghost.content = b"ghost in the chroot".to_vec();
    let mut deep_ghost2 = FFile::regular("/var/lib/machines/x/usr/bin/", "sh", b"");
    deep_ghost2.flags = 1 << 6;
    deep_ghost2.content = b"another ghost".to_vec();
    let mut sets = sets;
    sets.push(vec![deep_ghost.clone(), FFile::regular("/etc/", "motd", b"message of the day"), FFile::regular("/etc/", "z", b"zz")]);
    sets.push(vec![FFile::regular("/etc/", "motd", b"message of the day"), FFile::regular("/usr/bin/", "sh", b"#!shell"), deep_ghost2.clone()]);
    for files in &sets {
        for order in permutations(files.len()) {
            for (cname, comp) in [("none", None), ("gzip", Some("gzip"))] {
                for (stripped, upper) in [(false, false), (true, false), (false, true)] {
                    let arch = if stripped { foreign::stripped_archive(files, &order) } else { foreign::newc_archive(files, &order) };
                    let arch = if upper { foreign::newc_upper_hex(&arch) } else { arch };
                    let payload = if comp.is_some() { gzip(&arch) } else { arch };
                    let mut parts = foreign::package("foreign", files, payload, comp, stripped);
                    if stripped {
                        // rpm declares the feature for packages that use the stripped format
                        crate::pkgtool::set(&mut parts.main, 1049, Some(vlib::refhdr::Val::strs(&["rpmlib(LargeFiles)"])));
                        crate::pkgtool::set(&mut parts.main, 1048, Some(vlib::refhdr::Val::Int32(vec![0x0100_0008])));
                        crate::pkgtool::set(&mut parts.main, 1050, Some(vlib::refhdr::Val::strs(&["4.12.0-1"])));
                    }
                    let bytes = parts.join().0;
                    let expect = order.iter().map(|&i| (files[i].path(), files[i].archive_data())).collect();
                    v.push(Foreign {
                        desc: json!({"header_files": files.iter().map(|f| json!({"path": f.path(), "ghost": f.flags & 64 != 0})).collect::<Vec<_>>(),
                                     "archive_order": order.iter().map(|&i| files[i].path()).collect::<Vec<_>>(), "compression": cname,
                                     "layout": if stripped {"stripped (07070X + index, padded to 4, as rpm writes it)"} else if upper {"newc with upper-case hexadecimal header fields (as GNU cpio writes them)"} else {"newc"}}),
                        bytes,
                        expect,
                    });
                }
            }
        }
    }
    v
}

pub fn run(ctx: &Ctx) -> i32 {
    let env = Env::new(&ctx.repo, "c07");
    let specs = specs(ctx.thorough());
    let a = merge(par_fold(specs.len() as u64, Acc::new, |i, acc| {
        let spec = &specs[i as usize];
        acc.evals += 1;
        let case = || json!({"spec": spec.to_json()});
        match catch(|| spec.build_bytes(&env)) {
            Err(p) => acc.viol(panic_violation("built", &p, case()).rank(i)),
            Ok(Err(e)) => acc.viol(Violation::new("built", format!("a valid configuration does not build: {}", e), case()).sig("clause", "build-fails").sig("layout", if spec.large_files { "stripped" } else { "standard" }).rank(i)),
            Ok(Ok((_, bytes))) => match parse_pkg(&bytes) {
                Ok(Ok(p)) => {
                    if !spec.files.is_empty() {
                        acc.nontrivial += 1;
                    }
                    acc.count(&format!("{:?} {}", spec.compression.name().unwrap_or("none"), if spec.large_files { "stripped" } else { "standard" }));
                    judge_built("built", spec, &p, i, &case, acc);
                    if i % 211 == 0 {
                        acc.sample(i, || json!({"files": spec.files.iter().map(|f| json!([f.dest, f.content.len()])).collect::<Vec<_>>(), "compression": format!("{:?}", spec.compression), "large_files": spec.large_files}));
                    }
                }
                _ => acc.viol(Violation::new("built", "built package is not accepted by the parser", case()).sig("clause", "reparse").rank(i)),
            },
        }
    }));
    let s1 = SubReport::new(
        "built",
        "A",
        &format!(
            "{} packages built by the library: 0–3 files; sizes {:?}{} (every residue mod 4) × compressible / incompressible content; name lengths 1–5, 255, 4000; every compression type {} × standard and stripped (large-file, forced by the verif hook) layout; all ordered size tuples over {{0,1,3,4,5,4096}} for 2 and 3 files given out of path order; file sets whose paths are suffixes / prefixes / case variants / dot-prefixed twins of one another; sources that are kernel-backed files (stat size 0) or symbolic links; 255 / 256 / 257 / 1000 files (thorough: 65 535 / 65 536 / 65 537) in one directory and in one directory each; a ladder of sizes 2^k − 1, 2^k, 2^k + 1 for k = 13…20 (thorough: …24) in one package per compressor and layout; names that look like archive markers (TRAILER!!!, 070701); directory / link / ghost / untyped entries built from sources with content; zstd levels 20–22. Oracle: files() yields exactly the given files in path order, bytes identical, length = recorded size, SHA-256 = recorded digest. non-trivial = package with ≥ 1 file",
            specs.len(), SIZES, if ctx.thorough() { ", 1 MiB, 5 MiB" } else { "" }, if ctx.thorough() { "and every documented level (gzip 0–9, xz 0–9, zstd 1–22)" } else { "at three levels each" }
        ),
        a,
    );
    let fc = foreign_cases();
    let b = merge(par_fold(fc.len() as u64, Acc::new, |i, acc| {
        let f = &fc[i as usize];
        acc.evals += 1;
        let case = || {
            let mut c = f.desc.clone();
            c["bytes_hex"] = json!(vlib::hex(&f.bytes));
            c
        };
        let layout = if f.desc["layout"].as_str().unwrap_or("").starts_with("stripped") { "stripped" } else { "newc" };
        let bad = |acc: &mut Acc, clause: &str, what: String| {
            acc.viol(Violation::new("foreign", what, case()).sig("clause", clause).sig("layout", layout).rank(i));
        };
        match parse_pkg(&f.bytes) {
            Ok(Ok(p)) => {
                acc.nontrivial += 1;
                match catch(|| {
                    let mut out = vec![];
                    for e in p.files().map_err(|e| e.to_string())? {
                        let e = e.map_err(|e| e.to_string())?;
                        out.push((e.metadata.path.to_string_lossy().to_string(), e.content));
                        if out.len() > 100 {
                            return Err("does not terminate".to_string());
                        }
                    }
                    Ok(out)
                }) {
                    Err(pn) => bad(acc, "no-panic", format!("files() panics at {}", pn.at)),
                    Ok(Err(e)) => bad(acc, "iteration-fails", format!("iterating a well-formed foreign package fails: {}", e)),
                    Ok(Ok(got)) => {
                        if got != f.expect {
                            let show = |v: &Vec<(String, Vec<u8>)>| v.iter().map(|(p, c)| format!("{}={:?}", p, String::from_utf8_lossy(c))).collect::<Vec<_>>();
                            bad(acc, "pairing", format!("archive holds {:?} but files() yields {:?}", show(&f.expect), show(&got)));
                        }
                    }
                }
                if i % 17 == 0 {
                    acc.sample(i, || f.desc.clone());
                }
            }
            _ => bad(acc, "parse", "hand-encoded package rejected by the parser".into()),
        }
    }));
    let s2 = SubReport::new(
        "foreign",
        "A",
        &format!("{} hand-encoded packages: 6 file sets (1–3 header files incl. a %ghost file that is not archived, a symlink, an empty file; %ghost files whose path ends with the whole path of an archived file, as a chroot tree does) × every ordered selection of their entries as archive order × {{uncompressed, gzip}} × {{newc, newc with upper-case hexadecimal header fields, stripped entries with rpm's alignment bytes}}. Plus a source package as rpmbuild writes it (no directory names, entries named by the bare file name, names that start with one and two dots next to their dot-less twin) in every order of ≥ 3 of its 4 files. Oracle: files() yields the archived entries in archive order, each under the metadata of the file of that name (of that index for stripped entries), bytes identical", fc.len()),
        b,
    );
    // the rpmbuild-made packages of the repository: files() against an independent decoding of header and payload
    let s_assets = {
        let mut acc = Acc::new();
        for (k, rel) in crate::common_assets::ASSETS.iter().enumerate() {
            acc.evals += 1;
            let x = std::fs::read(ctx.asset(rel)).unwrap_or_else(|e| crate::ctx::machinery(&format!("{}: {}", rel, e)));
            let case = || json!({"asset": rel});
            let Some(want) = crate::c12::model(&x) else {
                acc.count("independent decoding not possible (compressor not available to the harness; not judged)");
                continue;
            };
            let Ok(Ok(p)) = parse_pkg(&x) else { crate::ctx::machinery(&format!("{} does not parse", rel)) };
            let mut bad = |clause: &str, what: String| acc.viol(Violation::new("assets", what, case()).sig("clause", clause).rank(k as u64));
            match catch(|| {
                let mut out = vec![];
                for f in p.files().map_err(|e| e.to_string())? {
                    let f = f.map_err(|e| e.to_string())?;
                    out.push(f);
                    if out.len() > want.len() + 1000 {
                        return Err("does not terminate".to_string());
                    }
                }
                Ok(out)
            }) {
                Err(pn) => bad("no-panic", format!("files() panics at {}", pn.at)),
                Ok(Err(e)) => bad("iteration-fails", format!("iterating the payload of an rpmbuild-made package fails: {}", e)),
                Ok(Ok(got)) => {
                    if got.len() != want.len() {
                        bad("sequence", format!("the archive holds {} entries, files() yields {}", want.len(), got.len()));
                    }
                    for (g, (wpath, wmode, wdata, _)) in got.iter().zip(want.iter()) {
                        let gp = g.metadata.path.to_string_lossy().to_string();
                        if gp != *wpath || g.metadata.mode.raw_mode() != *wmode {
                            bad("pairing", format!("archive entry {:?} (mode {:o}) is yielded as {:?} (mode {:o})", wpath, wmode, gp, g.metadata.mode.raw_mode()));
                        }
                        if g.content != *wdata {
                            bad("content", format!("{}: {} bytes yielded, {} archived, or different bytes", wpath, g.content.len(), wdata.len()));
                        }
                        if wmode & 0o170000 == 0o100000 {
                            if g.metadata.size != wdata.len() {
                                bad("size", format!("{}: recorded size {} but {} bytes archived", wpath, g.metadata.size, wdata.len()));
                            }
                            if let Some(d) = &g.metadata.digest {
                                use sha2::Digest;
                                let hx = d.as_hex().to_ascii_lowercase();
                                let ok = hx == hex::encode(sha2::Sha256::digest(wdata)) || hx == hex::encode(crate::oracles::md5_raw(&[wdata])) || hx == hex::encode(sha1::Sha1::digest(wdata)) || hx == hex::encode(sha2::Sha512::digest(wdata));
                                if !ok && !wdata.is_empty() {
                                    bad("digest", format!("{}: the recorded digest {} is no digest of the archived bytes", wpath, hx));
                                }
                            }
                        }
                    }
                    acc.nontrivial += 1;
                    acc.count(&format!("{} entries compared", want.len().min(99)));
                    acc.sample(k as u64, || json!({"asset": rel, "entries": want.len()}));
                }
            }
        }
        SubReport::new("assets", "A", "the six rpmbuild-made packages of the repository (binary and source packages, gzip / xz / zstd payloads, one with IMA signatures): files() yields exactly the archive's entries in archive order — path, mode, bytes — as an independent decoding of header and payload gives them, the recorded size is the number of bytes and the recorded digest a digest of them", acc)
    };
    // payloads around the sizes at which compressors change their behaviour (window sizes, block sizes): one at a time,
    // they are big
    let s3 = {
        let mut acc = Acc::new();
        let mut cases: Vec<(usize, usize, Comp)> = vec![(1, (1 << 27) + 4096, Comp::Zstd(1))];
        if ctx.thorough() {
            for total in [(1usize << 26) + 4096, (1 << 27) - 4096, (1 << 27) + 4096, (1 << 28) + 4096] {
                for c in [Comp::None, Comp::Gzip(1), Comp::Zstd(3), Comp::Zstd(19), Comp::Xz(0)] {
                    cases.push((1, total, c));
                }
            }
            cases.push((3, (1 << 27) + 4096, Comp::Zstd(1)));
            cases.push((3, (1 << 27) + 4096, Comp::Default));
            cases.push((1, (1 << 30) + 4096, Comp::Zstd(1)));
        }
        for (k, (n_files, total, comp)) in cases.iter().enumerate() {
            acc.evals += 1;
            let mut spec = BuildSpec::minimal();
            spec.name = format!("big-{}", k);
            spec.compression = comp.clone();
            for j in 0..*n_files {
                spec.files.push(FileSpec::new(&format!("/big/part{}", j), Content::Text(total / n_files + j)));
            }
            let case = || json!({"files": n_files, "bytes_in_all": total, "compression": format!("{:?}", comp)});
            match catch(|| spec.build_bytes(&env)) {
                Err(p) => acc.viol(panic_violation("big-payloads", &p, case()).rank(k as u64)),
                Ok(Err(e)) => acc.viol(Violation::new("big-payloads", format!("a valid configuration does not build: {}", e), case()).sig("clause", "build-fails").rank(k as u64)),
                Ok(Ok((_, bytes))) => match parse_pkg(&bytes) {
                    Ok(Ok(p)) => {
                        acc.nontrivial += 1;
                        acc.count(&format!("{:?}", comp.name().unwrap_or("none")));
                        judge_built("big-payloads", &spec, &p, k as u64, &case, &mut acc);
                        acc.sample(k as u64, case);
                    }
                    _ => acc.viol(Violation::new("big-payloads", "built package is not accepted by the parser", case()).sig("clause", "reparse").rank(k as u64)),
                },
            }
        }
        SubReport::new("big-payloads", "A", &format!("{} package(s) whose files add up to {}: built, written, parsed, iterated: the same oracle as for the small packages", cases.len(), if ctx.thorough() { "2^26, 2^27 ∓ 4096, 2^28 and 2^30 (+4096) bytes × {none, gzip 1, zstd 1 / 3 / 19 / default, xz 0}, in one file or three" } else { "2^27 + 4096 bytes (zstd 1, one file); the thorough tier walks sizes from 2^26 to 2^30 and five compressors" }), acc)
    };
    if s1.acc.nontrivial == 0 || s2.acc.nontrivial == 0 || s3.acc.nontrivial == 0 {
        crate::ctx::machinery("nothing judged: vacuous");
    }
    ctx.finish(
        "exploration",
        vec![s1, s2, s_assets, s3],
        &[
            "the stripped (large-file) layout is reached below 4 GiB through the verif-hooks feature; with > 4 GiB of real content it is not exercised",
            "between 64 KiB (quick) / 5 MiB (thorough) and the big-payloads sizes only the listed sizes are covered",
            "flate2 / zstd / liblzma as used by the harness to compress foreign payloads",
        ],
        vec![],
    )
}

pub fn replay(ctx: &Ctx, v: &Value) -> i32 {
    let c = &v["case"];
    if c["bytes_hex"].is_string() {
        return replay_bytes(v, &|x, acc| match parse_pkg(x) {
            Ok(Ok(p)) => match catch(|| iterate(&p)) {
                Ok(Ok(l)) => {
                    for y in l {
                        println!("yielded {} ({} bytes, metadata size {})", y.path, y.len, y.meta_size);
                    }
                    println!("compare with archive_order in the replay file");
                }
                other => {
                    println!("iteration: {:?}", other.map(|r| r.map(|_| ())));
                    acc.viol(Violation::new("replay", "iteration fails", json!({})));
                }
            },
            _ => println!("parse failed"),
        });
    }
    let _ = ctx;
    println!("built-package case: re-run ./check C07 (the configuration is in the replay file under case.spec)");
    0
}
