//! C06 — everything given to the builder is read back unchanged
//! (engine A: minimal configuration + ≤ k setter calls, reference = the BuildSpec itself).
use crate::common::*;
use crate::ctx::Ctx;
use crate::keys::Key;
use crate::oracles::*;
use crate::spec::*;
use rpm::IndexTag as T;
use serde_json::{json, Value};
use vlib::par::par_fold;
use vlib::report::{catch, Acc, SubReport, Violation};

pub struct Op {
    pub desc: String,
    pub apply: Box<dyn Fn(&mut BuildSpec) + Sync + Send>,
}

fn op(desc: String, f: impl Fn(&mut BuildSpec) + Sync + Send + 'static) -> Op {
    Op { desc, apply: Box::new(f) }
}

const TEXTS: [&str; 4] = ["", "x", "two\nlines", "ünï✓"];

pub fn menu() -> Vec<Op> {
    let mut m: Vec<Op> = vec![];
    macro_rules! opt {
        ($field:ident) => {
            for v in TEXTS {
                m.push(op(format!("{}({:?})", stringify!($field), v), move |s| {
                    if let Some(old) = s.$field.take() {
                        s.overwritten.push(Overwritten::Text(stringify!($field), old));
                    }
                    s.$field = Some(v.to_string())
                }));
            }
        };
    }
    opt!(release);
    opt!(description);
    opt!(vendor);
    opt!(packager);
    opt!(group);
    opt!(url);
    opt!(vcs);
    opt!(cookie);
    opt!(build_host);
    macro_rules! req {
        ($field:ident) => {
            for v in ["x", "ünï✓", "two words"] {
                m.push(op(format!("{}({:?})", stringify!($field), v), move |s| s.$field = v.to_string()));
            }
        };
    }
    req!(name);
    req!(version);
    req!(license);
    req!(arch);
    req!(summary);
    for e in [0u32, 1, u32::MAX] {
        m.push(op(format!("epoch({})", e), move |s| {
            if let Some(old) = s.epoch.take() {
                s.overwritten.push(Overwritten::Epoch(old));
            }
            s.epoch = Some(e)
        }));
    }
    for k in SCRIPT_KINDS {
        for (variant, flags, prog) in [("plain", None, None), ("flags", Some(5u32), None), ("prog", None, Some(vec!["/bin/sh".to_string(), "-c".to_string()])), ("flags+prog", Some(1), Some(vec!["/usr/bin/lua".to_string()])), ("empty body", None, None), ("empty body + prog", None, Some(vec!["/sbin/ldconfig".to_string()]))] {
            let prog = prog.clone();
            m.push(op(format!("{}_script({})", k, variant), move |s| {
                let body = if variant.starts_with("empty body") { String::new() } else { format!("echo {} {}\nexit 0", k, variant) };
                if let Some(old) = s.scripts.insert(k, ScriptSpec { script: body, flags, prog: prog.clone() }) {
                    s.overwritten.push(Overwritten::Script(k, old));
                }
            }));
        }
    }
    for k in DEP_KINDS {
        for (ctor, name, ver) in [("any", "dep-any", ""), ("greater_eq", "dep-ge", "1:2.0-3"), ("less", "dep(lt)", "9")] {
            m.push(op(format!("{}({} {} {})", k, ctor, name, ver), move |s| {
                s.deps.entry(k).or_default().push(DepSpec { ctor, name: name.to_string(), version: ver.to_string() });
            }));
        }
    }
    // dependencies whose names collide with the ones the builder generates itself (the package's own name, rpmlib features) but differ in version or flags
    for (k, ctor, name, ver) in [("provides", "eq", "pkg", "9:9.9-9"), ("provides", "any", "pkg", ""), ("provides", "any", "pkg(noarch)", ""), ("provides", "less", "pkg(noarch)", "0"), ("requires", "rpmlib", "CompressedFileNames", "9.9-9"), ("requires", "rpmlib", "PayloadIsZstd", "0"), ("requires", "any", "rpmlib(FileDigests)", "")] {
        m.push(op(format!("{}({} {} {})", k, ctor, name, ver), move |s| {
            s.deps.entry(k).or_default().push(DepSpec { ctor, name: name.to_string(), version: ver.to_string() });
        }));
    }
    // every remaining constructor once, as a requirement
    for (ctor, name, ver) in [("eq", "dep-eq", "2.0"), ("less_eq", "dep-le", "0:1~rc1"), ("greater", "dep-gt", "3^post"), ("script_pre", "/bin/pre", ""), ("script_post", "/bin/post", ""), ("script_preun", "/bin/preun", ""), ("script_postun", "/bin/postun", ""), ("rpmlib", "CustomFeature", "1.0-1"), ("config", "cfgpkg", "1.0-1")] {
        m.push(op(format!("requires({} {} {})", ctor, name, ver), move |s| {
            s.deps.entry("requires").or_default().push(DepSpec { ctor, name: name.to_string(), version: ver.to_string() });
        }));
    }
    // the same dependencies the builder derives from non-root file owners, given by hand
    for (ctor, name) in [("user", "u1"), ("group", "g1"), ("user", "u2")] {
        m.push(op(format!("recommends({}({}))", ctor, name), move |s| {
            s.deps.entry("recommends").or_default().push(DepSpec { ctor, name: name.to_string(), version: String::new() });
        }));
    }
    for off in [19_800, -28_800] {
        m.push(op(format!("timestamps as chrono DateTime at UTC{:+}s", off), move |s| s.chrono_offset = Some(off)));
    }
    for (n, t_, ts) in [("A <a@example.com> - 1.0-1", "- first entry\n- second line", 1_400_000_000u32), ("Bé <b@example.com> - 0.9", "- older", 1_300_000_000)] {
        m.push(op(format!("add_changelog_entry({:?})", n), move |s| s.changelog.push((n.to_string(), t_.to_string(), ts))));
    }
    // files: one attribute varied per op
    let base_file = || FileSpec::new("/a/f", Content::Bytes(b"hello".to_vec()));
    let mut fops: Vec<(String, FileSpec)> = vec![];
    for d in ["/f", "./f", "/a/f", "./a/b/f", "/a/b/c/f", "/a/g", "/usr/share/ünï/é"] {
        let mut f = base_file();
        f.dest = d.to_string();
        fops.push((format!("dest {}", d), f));
    }
    for (n, mode, link) in [
        ("inherit 0755", ModeSpec::Inherit(0o755), None),
        ("inherit 0600", ModeSpec::Inherit(0o600), None),
        ("regular 0600", ModeSpec::Regular(0o600), None),
        ("regular 04755", ModeSpec::Regular(0o4755), None),
        ("dir 0750", ModeSpec::Dir(0o750), None),
        ("symlink 0777", ModeSpec::Symlink(0o777), Some("../target")),
        // special permission bits taken over from the source file
        ("inherit 04755", ModeSpec::Inherit(0o4755), None),
        ("inherit 02750", ModeSpec::Inherit(0o2750), None),
        ("inherit 01777", ModeSpec::Inherit(0o1777), None),
        // a link target on entries whose mode is not that of a symbolic link: mode and target are independent values
        ("regular 0644 with a link target", ModeSpec::Regular(0o644), Some("elsewhere")),
        ("dir 0755 with a link target", ModeSpec::Dir(0o755), Some("x/y")),
        ("inherit 0640 with a link target", ModeSpec::Inherit(0o640), Some("/abs")),
    ] {
        let mut f = base_file();
        f.dest = format!("/m/{}", n.replace(' ', "-"));
        f.mode = mode;
        f.symlink = link.map(|s| s.to_string());
        if matches!(f.mode, ModeSpec::Dir(_) | ModeSpec::Symlink(_)) {
            f.content = Content::Bytes(vec![]);
        }
        fops.push((format!("mode {}", n), f));
    }
    for (u, g) in [("u1", "root"), ("root", "g1"), ("u2", "g2")] {
        let mut f = base_file();
        f.dest = format!("/o/{}-{}", u, g);
        f.user = Some(u.to_string());
        f.group = Some(g.to_string());
        fops.push((format!("owner {}:{}", u, g), f));
    }
    for fl in ["config", "noreplace", "doc", "ghost", "license", "readme"] {
        let mut f = base_file();
        f.dest = format!("/fl/{}", fl);
        f.flags = vec![fl];
        fops.push((format!("flag {}", fl), f));
    }
    {
        let mut f = base_file();
        f.dest = "/c/caps".into();
        f.caps = Some("cap_chown,cap_kill=ep".into());
        fops.push(("caps".into(), f));
        // capabilities on entries that are not regular files
        let mut d = base_file();
        d.dest = "/c/capdir".into();
        d.mode = ModeSpec::Dir(0o755);
        d.content = Content::Bytes(vec![]);
        d.caps = Some("cap_net_admin=p".into());
        fops.push(("caps on a directory".into(), d));
        let mut l = base_file();
        l.dest = "/c/caplink".into();
        l.mode = ModeSpec::Symlink(0o777);
        l.symlink = Some("caps".into());
        l.content = Content::Bytes(vec![]);
        l.caps = Some("=".into());
        fops.push(("caps on a symbolic link".into(), l));
    }
    // %verify flags: which attributes rpm -V compares later does not change what is recorded now
    for (n, bits) in [("verify none", 0u32), ("verify all but the file digest", 0xffff_fffe), ("verify digest only", 1), ("verify not size mtime digest", !(1u32 | 2 | 32))] {
        let mut f = base_file();
        f.dest = format!("/v/{}", n.replace(' ', "-"));
        f.verify = Some(bits);
        fops.push((n.to_string(), f));
    }
    // capability texts with more than one clause and every kind of white space between and around them
    for (n, t) in [("two clauses, tab", "cap_net_admin=p\tcap_net_raw+ep"), ("two clauses, two blanks", "cap_chown=e  cap_kill+i"), ("leading and trailing blank", " cap_chown=p "), ("trailing newline", "cap_net_raw=ep\n"), ("newline between clauses", "cap_chown=p\ncap_kill=e\r\n")] {
        let mut f = base_file();
        f.dest = format!("/c/{}", n.replace([' ', ','], "-"));
        f.caps = Some(t.to_string());
        fops.push((format!("caps {}", n), f));
    }
    for (n, c) in [("empty", Content::Bytes(vec![])), ("1 byte", Content::Bytes(vec![0xff])), ("4097 bytes", Content::Noise(4097))] {
        let mut f = base_file();
        f.dest = format!("/s/{}", n.replace(' ', "-"));
        f.content = c;
        fops.push((format!("size {}", n), f));
    }
    // sources that are not plain files: a kernel-backed file whose stat size is 0, and a file reached through a symbolic link
    if std::path::Path::new(KERNEL_SOURCE).exists() {
        let mut f = base_file();
        f.dest = "/k/ostype".into();
        f.content = Content::Kernel;
        f.mode = ModeSpec::Inherit(0o444);
        fops.push(("kernel-backed source".into(), f));
    }
    {
        let mut f = base_file();
        f.dest = "/k/linked".into();
        f.content = Content::Linked(Box::new(Content::Text(33)));
        fops.push(("source behind a symbolic link".into(), f));
    }
    {
        let mut f = base_file();
        f.dest = "/k/relative".into();
        f.content = Content::Relative(Box::new(Content::Text(21)));
        fops.push(("source named relative to the working directory".into(), f));
    }
    for (n, mt) in [("mtime = source date", 1_600_000_000u32), ("mtime after source date", 1_700_000_000), ("mtime 0", 0)] {
        let mut f = base_file();
        f.dest = format!("/t/{}", mt);
        f.mtime = mt;
        fops.push((n.to_string(), f));
    }
    for (d, f) in fops {
        m.push(op(format!("with_file({})", d), move |s| s.files.push(f.clone())));
    }
    for c in [Comp::Gzip(6), Comp::Zstd(3), Comp::Xz(1), Comp::Default] {
        m.push(op(format!("compression({:?})", c), move |s| {
            if c == Comp::Default {
                // "no call of compression() at all": nothing is overwritten, earlier calls are dropped from the sequence too
                s.overwritten.retain(|o| !matches!(o, Overwritten::Compression(_)));
            } else if s.compression != Comp::None && s.compression != Comp::Default {
                s.overwritten.push(Overwritten::Compression(s.compression));
            }
            s.compression = c
        }));
    }
    m.push(op("build_and_sign(ed25519)".into(), |s| s.sign = Some(Key::Ed25519)));
    m.push(op("no source_date".into(), |s| s.source_date = None));
    m.push(op("source_date(1)".into(), |s| s.source_date = Some(1)));
    m
}

fn as_string(r: Result<&str, rpm::Error>) -> Result<String, String> {
    r.map(|s| s.to_string()).map_err(|e| err_kind(&e))
}

/// Compare every supplied value with what the re-parsed package reports.
pub fn read_back(sub: &str, spec: &BuildSpec, p: &rpm::Package, rank: u64, case: &dyn Fn() -> Value, acc: &mut Acc) {
    let m = &p.metadata;
    let mut bad = |field: &str, what: String| {
        acc.viol(Violation::new(sub, format!("{}: {}", field, what), case()).sig("clause", "read-back").sig("field", field).rank(rank));
    };
    let mut cmp_s = |field: &str, want: &str, got: Result<String, String>| {
        if got.as_deref() != Ok(want) {
            bad(field, format!("supplied {:?}, read back {:?}", want, got));
        }
    };
    cmp_s("name", &spec.name, as_string(m.get_name()));
    cmp_s("version", &spec.version, as_string(m.get_version()));
    cmp_s("license", &spec.license, as_string(m.get_license()));
    cmp_s("arch", &spec.arch, as_string(m.get_arch()));
    cmp_s("summary", &spec.summary, as_string(m.get_summary()));
    if let Some(v) = &spec.release {
        cmp_s("release", v, as_string(m.get_release()));
    }
    if let Some(v) = &spec.description {
        cmp_s("description", v, as_string(m.get_description()));
    }
    if let Some(v) = &spec.vendor {
        cmp_s("vendor", v, as_string(m.get_vendor()));
    }
    if let Some(v) = &spec.packager {
        cmp_s("packager", v, as_string(m.get_packager()));
    }
    if let Some(v) = &spec.group {
        cmp_s("group", v, as_string(m.get_group()));
    }
    if let Some(v) = &spec.url {
        cmp_s("url", v, as_string(m.get_url()));
    }
    if let Some(v) = &spec.vcs {
        cmp_s("vcs", v, as_string(m.get_vcs()));
    }
    if let Some(v) = &spec.cookie {
        cmp_s("cookie", v, as_string(m.get_cookie()));
    }
    if let Some(v) = &spec.build_host {
        cmp_s("build_host", v, as_string(m.get_build_host()));
    }
    if let Some(e) = spec.epoch {
        let got = m.get_epoch().map_err(|e| err_kind(&e));
        if got != Ok(e) {
            bad("epoch", format!("supplied {}, read back {:?}", e, got));
        }
    }
    // scriptlets
    for (k, s) in &spec.scripts {
        let got: Result<(String, Option<u32>, Option<Vec<String>>), String> = if *k == "verify" {
            // no accessor: read the tags directly
            m.header
                .get_entry_data_as_string(T::RPMTAG_VERIFYSCRIPT)
                .map(|sc| {
                    (
                        sc.to_string(),
                        m.header.get_entry_data_as_u32(T::RPMTAG_VERIFYSCRIPTFLAGS).ok(),
                        m.header.get_entry_data_as_string_array(T::RPMTAG_VERIFYSCRIPTPROG).ok().map(|v| v.to_vec()),
                    )
                })
                .map_err(|e| err_kind(&e))
        } else {
            let r = match *k {
                "pre_install" => m.get_pre_install_script(),
                "post_install" => m.get_post_install_script(),
                "pre_uninstall" => m.get_pre_uninstall_script(),
                "post_uninstall" => m.get_post_uninstall_script(),
                "pre_trans" => m.get_pre_trans_script(),
                "post_trans" => m.get_post_trans_script(),
                "pre_untrans" => m.get_pre_untrans_script(),
                _ => m.get_post_untrans_script(),
            };
            r.map(|x| (x.script, x.flags.map(|f| f.bits()), x.program)).map_err(|e| err_kind(&e))
        };
        let field = format!("{}_script", k);
        match got {
            Err(e) => bad(&field, format!("supplied, read back Err({})", e)),
            Ok((sc, fl, pr)) => {
                if sc != s.script {
                    bad(&field, format!("script supplied {:?}, read back {:?}", s.script, sc));
                }
                if s.flags.is_some() && fl != s.flags {
                    bad(&field, format!("flags supplied {:?}, read back {:?}", s.flags, fl));
                }
                if let Some(want) = &s.prog {
                    if !want.is_empty() && pr.as_ref() != Some(want) {
                        bad(&field, format!("interpreter supplied {:?}, read back {:?}", want, pr));
                    }
                }
            }
        }
    }
    // dependencies: supplied ones must appear, in order, as a subsequence
    for (k, deps) in &spec.deps {
        let got = match *k {
            "provides" => m.get_provides(),
            "requires" => m.get_requires(),
            "conflicts" => m.get_conflicts(),
            "obsoletes" => m.get_obsoletes(),
            "recommends" => m.get_recommends(),
            "suggests" => m.get_suggests(),
            "enhances" => m.get_enhances(),
            _ => m.get_supplements(),
        };
        match got {
            Err(e) => bad(k, format!("supplied {} dependencies, read back Err({})", deps.len(), err_kind(&e))),
            Ok(list) => {
                let list: Vec<(String, u32, String)> = list.into_iter().map(|d| (d.name, d.flags.bits(), d.version)).collect();
                let mut pos = 0;
                for d in deps {
                    let want = d.expected();
                    match list[pos..].iter().position(|x| *x == want) {
                        Some(i) => pos += i + 1,
                        None => {
                            bad(k, format!("supplied {:?} not found in order in {:?}", want, list));
                            break;
                        }
                    }
                }
            }
        }
    }
    // changelog
    if !spec.changelog.is_empty() {
        match m.get_changelog_entries() {
            Err(e) => bad("changelog", format!("read back Err({})", err_kind(&e))),
            Ok(l) => {
                let got: Vec<(String, String, u32)> = l.into_iter().map(|c| (c.name, c.description, c.timestamp as u32)).collect();
                if got != spec.changelog {
                    bad("changelog", format!("supplied {:?}, read back {:?}", spec.changelog, got));
                }
            }
        }
    }
    // files
    if !spec.files.is_empty() {
        match m.get_file_entries() {
            Err(e) => bad("files", format!("get_file_entries: Err({})", err_kind(&e))),
            Ok(entries) => {
                for f in &spec.files {
                    let want_path = f.expected_path();
                    let Some(e) = entries.iter().find(|e| e.path.to_string_lossy() == want_path) else {
                        bad("file.path", format!("file supplied as {:?} (expected path {:?}) not in {:?}", f.dest, want_path, entries.iter().map(|e| e.path.to_string_lossy().to_string()).collect::<Vec<_>>()));
                        continue;
                    };
                    if e.mode.raw_mode() != f.mode.expected_word() {
                        bad("file.mode", format!("{}: supplied {:#o}, read back {:#o}", want_path, f.mode.expected_word(), e.mode.raw_mode()));
                    }
                    let (wu, wg) = (f.user.clone().unwrap_or("root".into()), f.group.clone().unwrap_or("root".into()));
                    if e.ownership.user != wu || e.ownership.group != wg {
                        bad("file.owner", format!("{}: supplied {}:{}, read back {}:{}", want_path, wu, wg, e.ownership.user, e.ownership.group));
                    }
                    if e.flags.bits() != f.expected_flags() {
                        bad("file.flags", format!("{}: supplied {:#x}, read back {:#x}", want_path, f.expected_flags(), e.flags.bits()));
                    }
                    if let Some(c) = &f.caps {
                        if e.caps.as_deref() != Some(c.as_str()) {
                            bad("file.caps", format!("{}: supplied {:?}, read back {:?}", want_path, c, e.caps));
                        }
                    }
                    if e.linkto != f.symlink.clone().unwrap_or_default() {
                        bad("file.linkto", format!("{}: supplied {:?}, read back {:?}", want_path, f.symlink, e.linkto));
                    }
                    let content = f.content.materialize();
                    if e.size != content.len() {
                        bad("file.size", format!("{}: supplied {} bytes, read back {}", want_path, content.len(), e.size));
                    }
                    if matches!(f.mode, ModeSpec::Inherit(_) | ModeSpec::Regular(_) | ModeSpec::Raw(_)) {
                        let want = sha256_hex(&content);
                        if e.digest.as_ref().map(|d| d.as_hex().to_string()) != Some(want.clone()) {
                            bad("file.digest", format!("{}: want {}, read back {:?}", want_path, want, e.digest));
                        }
                    }
                    let want_mtime = match spec.source_date {
                        Some(sd) if !f.content.mtime_known() => sd, // the kernel's "now" is later than the source date
                        Some(sd) => f.mtime.min(sd),
                        None => f.mtime,
                    };
                    if (f.content.mtime_known() || spec.source_date.is_some()) && e.modified_at.0 != want_mtime {
                        bad("file.mtime", format!("{}: supplied {} (source date {:?}), read back {}", want_path, f.mtime, spec.source_date, e.modified_at.0));
                    }
                }
                if entries.len() != spec.files.len() {
                    bad("files", format!("{} files supplied, {} read back", spec.files.len(), entries.len()));
                }
            }
        }
        if let Ok(paths) = m.get_file_paths() {
            let mut want: Vec<String> = spec.files.iter().map(|f| f.expected_path()).collect();
            want.sort();
            let got: Vec<String> = paths.iter().map(|p| p.to_string_lossy().to_string()).collect();
            let mut gs = got.clone();
            gs.sort();
            if gs != want {
                bad("file.path", format!("paths supplied {:?}, get_file_paths {:?}", want, got));
            }
        }
    }
    // compression
    match m.get_payload_compressor() {
        Ok(c) => {
            let want = spec.compression.name().unwrap_or("none");
            if c.to_string() != want {
                bad("compression", format!("supplied {}, read back {}", want, c));
            }
        }
        Err(e) => bad("compression", format!("Err({})", err_kind(&e))),
    }
}

/// The configuration with index `i`: 0 = minimal, then single ops, then ordered pairs, then triples a<b<c.
pub fn config(menu: &[Op], i: u64, k: usize) -> Option<(BuildSpec, Vec<usize>)> {
    let m = menu.len() as u64;
    let mut s = BuildSpec::minimal();
    let ops: Vec<usize> = if i == 0 {
        vec![]
    } else if i <= m {
        vec![(i - 1) as usize]
    } else if i <= m + m * m {
        let j = i - 1 - m;
        vec![(j / m) as usize, (j % m) as usize]
    } else if k >= 3 {
        let j = i - 1 - m - m * m;
        let (a, b, c) = ((j / (m * m)) as usize, (j / m % m) as usize, (j % m) as usize);
        if !(a < b && b < c) {
            return None;
        }
        vec![a, b, c]
    } else {
        return None;
    };
    for o in &ops {
        (menu[*o].apply)(&mut s);
    }
    // two files with the same destination: which one wins is not specified
    let mut paths: Vec<String> = s.files.iter().map(|f| f.expected_path()).collect();
    paths.sort();
    paths.dedup();
    if paths.len() != s.files.len() {
        return None;
    }
    Some((s, ops))
}

pub fn domain_size(m: u64, k: usize) -> u64 {
    1 + m + if k >= 2 { m * m } else { 0 } + if k >= 3 { m * m * m } else { 0 }
}

pub fn run(ctx: &Ctx) -> i32 {
    let env = Env::new(&ctx.repo, "c06");
    let menu = menu();
    let k = if ctx.thorough() { 3 } else { 2 };
    let n = domain_size(menu.len() as u64, k);
    // every configuration is built twice: under the real clock, and under a wall clock the harness
    // decides (earlier than some file mtimes and than the source date), with a harness-chosen hash seed
    const EARLY_CLOCK: i64 = 1_550_000_000;
    let acc = merge(par_fold(2 * n, Acc::new, |j, acc| {
        let (i, early) = (j / 2, j % 2 == 1);
        let Some((spec, ops)) = config(&menu, i, k) else { return };
        if early && spec.files.is_empty() && spec.sign.is_none() {
            return; // the clock can only matter for file times and signatures
        }
        acc.evals += 1;
        let case = || json!({"setter_calls": ops.iter().map(|o| menu[*o].desc.clone()).collect::<Vec<_>>(), "spec": spec.to_json(), "wall_clock": if early { json!(EARLY_CLOCK) } else { json!("real") }});
        if early {
            crate::interpose::set(Some(crate::interpose::Scenario { seed: i, clock_secs: EARLY_CLOCK }));
        }
        let r = catch(|| spec.build_bytes(&env));
        crate::interpose::set(None);
        match r {
            Err(p) => acc.viol(panic_violation("setters", &p, case()).rank(i)),
            Ok(Err(e)) => acc.viol(Violation::new("setters", format!("a valid configuration does not build: {}", e), case()).sig("clause", "build-fails").rank(i)),
            Ok(Ok((_, bytes))) => match parse_pkg(&bytes) {
                Ok(Ok(p)) => {
                    acc.nontrivial += 1;
                    read_back("setters", &spec, &p, i, &case, acc);
                    if i < 3 || i % 5003 == 0 {
                        acc.sample(i, || json!({"setter_calls": ops.iter().map(|o| menu[*o].desc.clone()).collect::<Vec<_>>()}));
                    }
                    acc.count(&format!("{} setter call(s)", ops.len()));
                }
                _ => acc.viol(Violation::new("setters", "built package is not accepted by the parser", case()).sig("clause", "reparse").rank(i)),
            },
        }
    }));
    let s1 = SubReport::new(
        "setters",
        "A",
        &format!(
            "minimal configuration + every sequence of ≤ {} setter calls ({} pairs ordered{}) from a menu of {} calls: every optional scalar × {:?}; required scalars × 3 values; epoch ∈ {{0,1,2^32−1}}; 9 scriptlets × {{plain,+flags,+prog,+both}}; 8 dependency kinds × 3 constructors; 2 changelog entries; {} with_file variants (destinations '/f' './f' nested, inherited / explicit modes incl. dir and symlink, owners, flags, caps, sizes, mtimes around the source date); 4 compressions; signing; source date variants. each configuration with files or a signature is built under the real clock and under an interposed wall clock of 1 550 000 000 (earlier than the source date and than some file mtimes); build → write → parse → every supplied value compared with its accessor. non-trivial = built and re-parsed",
            k, "all", if k >= 3 { ", triples a<b<c" } else { "" }, menu.len(), TEXTS, 31
        ),
        acc,
    );
    // attributes whose value domain is small enough to be covered completely
    let vd = {
        let mut specs: Vec<(String, BuildSpec)> = vec![];
        // every permission value, given explicitly, for each of the three kinds (the sources have other permissions)
        for (kind, mk) in [("regular", ModeSpec::Regular as fn(u16) -> ModeSpec), ("directory", ModeSpec::Dir as fn(u16) -> ModeSpec), ("symbolic link", ModeSpec::Symlink as fn(u16) -> ModeSpec)] {
            let mut s = BuildSpec::minimal();
            s.name = format!("all-modes-{}", kind.replace(' ', "-"));
            s.compression = Comp::None;
            for p in 0..0o10000u16 {
                let mut f = FileSpec::new(&format!("/m/{:04o}", p), Content::Bytes(if kind == "regular" { b"x".to_vec() } else { vec![] }));
                f.mode = mk(p);
                if kind == "symbolic link" {
                    f.symlink = Some("t".into());
                }
                s.files.push(f);
            }
            specs.push((format!("4096 {} entries, one for every permission value 0…07777 given explicitly", kind), s));
        }
        // every dependency kind × every constructor × names that collide with what the builder generates itself
        for k in DEP_KINDS {
            for ctor in ["any", "eq", "less", "less_eq", "greater", "greater_eq", "script_pre", "script_post", "script_preun", "script_postun", "rpmlib", "config", "user", "group"] {
                for name in ["pkg", "pkg(noarch)", "rpmlib(CompressedFileNames)", "config(pkg)", "CompressedFileNames", "root", "/bin/sh", ""] {
                    let mut s = crate::corpus::one_file();
                    s.name = "pkg".into();
                    s.deps.entry(k).or_default().push(DepSpec { ctor, name: name.to_string(), version: "1.0-1".into() });
                    specs.push((format!("{}({}({:?}, 1.0-1)) on a package called pkg", k, ctor, name), s));
                }
            }
        }
        // scriptlet flags: every subset of the three defined bits (the empty set included: Some(empty) is not None), for each kind
        for k in SCRIPT_KINDS {
            for bits in 0..8u32 {
                let mut s = crate::corpus::one_file();
                s.scripts.insert(k, ScriptSpec { script: "exit 0".into(), flags: Some(bits), prog: None });
                specs.push((format!("{}_script with flags {:#b}", k, bits), s));
            }
        }
        // files with names that contain dots in every arrangement short of a '..' component
        {
            let mut s = BuildSpec::minimal();
            s.name = "dots".into();
            for (i, d) in ["/d/notes..txt", "/d/..data/x", "/d/a..b/c", "/d/...", "/d/.../x", "/d/x..", "/d/..x", "./d2/archive..old", "/d/a.b.c", "/d/.hidden."].iter().enumerate() {
                s.files.push(FileSpec::new(d, Content::Bytes(format!("file {}", i).into_bytes())));
            }
            specs.push(("files whose names contain runs of dots".into(), s));
        }
        // dependencies written as struct literals (the fields are public): every single flag bit, and no flag at all, with and without a version
        for k in DEP_KINDS {
            for bit in 0..=32u32 {
                for version in ["", "2.0"] {
                    let bits = if bit == 32 { 0 } else { 1u32 << bit };
                    let mut s = crate::corpus::one_file();
                    s.name = "pkg".into();
                    s.deps.entry(k).or_default().push(DepSpec::literal(bits, "helper", version));
                    specs.push((format!("{}(Dependency {{ name: \"helper\", flags: {:#x}, version: {:?} }})", k, bits, version), s));
                }
            }
        }
        let acc = merge(par_fold(specs.len() as u64, Acc::new, |i, acc| {
            let (what, spec) = &specs[i as usize];
            acc.evals += 1;
            let case = || json!({"configuration": what});
            match catch(|| spec.build_bytes(&env)) {
                Err(p) => acc.viol(panic_violation("value-domains", &p, case()).rank(i)),
                Ok(Err(e)) => acc.count(&format!("not built: {}", e).chars().take(80).collect::<String>()),
                Ok(Ok((_, bytes))) => match parse_pkg(&bytes) {
                    Ok(Ok(p)) => {
                        acc.nontrivial += 1;
                        read_back("value-domains", spec, &p, i, &case, acc);
                        acc.count("built and read back");
                        if i % 101 == 0 {
                            acc.sample(i, case);
                        }
                    }
                    _ => acc.viol(Violation::new("value-domains", "built package is not accepted by the parser", case()).sig("clause", "reparse").rank(i)),
                },
            }
        }));
        SubReport::new("value-domains", "A", "attributes with a small value domain, covered completely: every permission value 0…07777 given explicitly for regular files, directories and symbolic links (three packages of 4096 entries; the source files have other permissions); each of the eight dependency kinds × each of the 14 Dependency constructors × 8 names that collide with what the builder generates itself (the package's own name, its arch-qualified name, rpmlib / config names, a user name, an interpreter, the empty name); each scriptlet kind × every subset of the three flag bits (the empty set is Some, not None); files whose names contain runs of dots short of a '..' component; each dependency kind × a Dependency written as a struct literal with each single flag bit or none × with and without a version: read-back oracle as for the setters (a configuration the builder refuses is not judged)", acc)
    };
    // the whole corpus (curated rich configuration with every compression / key, sign/clear histories, payload enumeration)
    let c = crate::corpus::run_corpus(ctx, "corpus", "oracle: read-back of every supplied value", &|sub, it, rank, acc| {
        if let Ok(Ok(p)) = parse_pkg(&it.bytes) {
            acc.nontrivial += 1;
            read_back(sub, &it.spec, &p, rank, &|| it.desc.clone(), acc);
            if rank % 977 == 0 {
                acc.sample(rank, || json!({"corpus_item": it.spec.name, "history": it.desc["history"]}));
            }
        }
    });
    if s1.acc.nontrivial == 0 {
        crate::ctx::machinery("no configuration built: vacuous");
    }
    ctx.finish(
        "exploration",
        vec![s1, vd, c],
        &[
            "only supplied values are judged; defaults the builder fills in (description, group, release) are not",
            "user-supplied dependencies must appear in order as a subsequence (the builder appends its own)",
            "digest is judged for regular files only; caps of files without capabilities and empty interpreter lists are not judged",
            "configurations more than 2 (quick) / 3 (thorough) setter calls away from the minimal one are covered by the curated corpus only",
        ],
        vec![],
    )
}

pub fn replay(ctx: &Ctx, v: &Value) -> i32 {
    let Some(calls) = v["case"]["setter_calls"].as_array() else {
        println!("case is a corpus item: re-run ./check C06");
        return 0;
    };
    let menu = menu();
    let mut s = BuildSpec::minimal();
    for c in calls {
        match menu.iter().find(|o| Some(o.desc.as_str()) == c.as_str()) {
            Some(o) => (o.apply)(&mut s),
            None => crate::ctx::machinery(&format!("unknown setter call {}", c)),
        }
    }
    let env = Env::new(&ctx.repo, "c06-replay");
    let mut acc = Acc::new();
    match s.build_bytes(&env) {
        Err(e) => {
            println!("REPRODUCED: build fails: {}", e);
            return 1;
        }
        Ok((_, bytes)) => match parse_pkg(&bytes) {
            Ok(Ok(p)) => read_back("replay", &s, &p, 0, &|| json!({}), &mut acc),
            _ => {
                println!("REPRODUCED: built package rejected");
                return 1;
            }
        },
    }
    for v in acc.viols.values() {
        println!("REPRODUCED {}: {}", v.key(), v.what);
    }
    if acc.viols.is_empty() {
        println!("not reproduced");
        0
    } else {
        1
    }
}
