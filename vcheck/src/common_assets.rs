//! The six rpmbuild-produced packages shipped with the repository.
pub const ASSETS: [&str; 6] = [
    "test_assets/389-ds-base-devel-1.3.8.4-15.el7.x86_64.rpm",
    "test_assets/freesrp-udev-0.3.0-1.25.x86_64.rpm",
    "test_assets/ima_signed.rpm",
    "test_assets/rpm-sign-4.15.1-1.fc31.x86_64.rpm",
    "test_assets/fixture_packages/rpm-empty-0-0.src.rpm",
    "test_assets/fixture_packages/rpm-empty-0-0.x86_64.rpm",
];
