//! C09 — emitted packages satisfy rpm's structural rules (engine A over the corpus,
//! strict validator with self-check).
use crate::common_assets::ASSETS;
use crate::ctx::Ctx;
use crate::keys::Key;
use crate::spec::*;
use crate::validator::{self_test, validate};
use serde_json::{json, Value};
use vlib::report::{Acc, SubReport, Violation};

pub fn oracle_valid(sub: &str, x: &[u8], emitted: bool, rank: u64, case: &dyn Fn() -> Value, acc: &mut Acc) -> bool {
    let v = validate(x, emitted);
    for r in &v {
        acc.viol(Violation::new(sub, format!("{}: {}", r.rule, r.detail), case()).sig("clause", "structural-rule").sig("rule", r.rule).rank(rank));
    }
    v.is_empty()
}

pub fn run(ctx: &Ctx) -> i32 {
    // validator self-check: a false rule would show up on rpmbuild's own packages, a missing one on the hand-broken ones
    let n_broken = match self_test() {
        Ok(n) => n,
        Err(e) => crate::ctx::machinery(&format!("validator self-test failed: {}", e)),
    };
    let mut a = Acc::new();
    for (k, rel) in ASSETS.iter().enumerate() {
        let x = std::fs::read(ctx.asset(rel)).unwrap_or_else(|e| crate::ctx::machinery(&format!("{}: {}", rel, e)));
        a.evals += 1;
        let v = validate(&x, false);
        if !v.is_empty() {
            crate::ctx::machinery(&format!("validator rejects the rpmbuild-produced asset {}: {:?}", rel, v));
        }
        a.nontrivial += 1;
        a.sample(k as u64, || json!({"asset": rel, "verdict": "valid"}));
    }
    a.count_n("hand-broken packages rejected by the intended rule", n_broken as u64);
    let s0 = SubReport::new("validator-self-check", "A", &format!("the six rpmbuild-produced assets pass every rule; {} hand-broken variants of a valid package are each rejected by the intended rule", n_broken), a);

    let s1 = crate::corpus::run_corpus(ctx, "corpus", "oracle: strict validator (LEAD, HDR, REG, ENT, SIG, PAY, LIB rules)", &|sub, it, rank, acc| {
        if oracle_valid(sub, &it.bytes, true, rank, &|| it.desc.clone(), acc) {
            acc.nontrivial += 1;
            if rank % 1499 == 0 {
                acc.sample(rank, || json!({"corpus_item": it.spec.name, "compression": format!("{:?}", it.spec.compression), "large_files": it.spec.large_files, "history": it.desc["history"]}));
            }
        }
        acc.count(if it.has_history { "after sign/clear operations" } else { "as built" });
    });

    // sign / clear histories on the foreign (rpmbuild-produced) assets: the signature header is then ours
    let env = Env::new(&ctx.repo, "c09");
    let mut b = Acc::new();
    for (k, rel) in ASSETS.iter().enumerate() {
        let Ok(mut p) = rpm::Package::open(ctx.asset(rel)) else { continue };
        let steps: Vec<(&str, Box<dyn Fn(&mut rpm::Package) -> Result<(), rpm::Error>>)> = vec![
            ("sign(ed25519)", Box::new(|p| p.sign_with_timestamp(env.signer(Key::Ed25519), 1_600_000_000u32))),
            ("sign(rsa4096)", Box::new(|p| p.sign_with_timestamp(env.signer(Key::Rsa4096), 1_600_000_000u32))),
            ("clear", Box::new(|p| p.clear_signatures())),
            ("sign(ecdsa)", Box::new(|p| p.sign_with_timestamp(env.signer(Key::EcdsaP256), 1_600_000_000u32))),
        ];
        let mut hist = vec![];
        for (name, step) in steps {
            hist.push(name);
            if let Err(e) = step(&mut p) {
                b.count(&format!("operation failed: {}", e));
                break;
            }
            let mut x = vec![];
            if p.write(&mut x).is_err() {
                continue;
            }
            b.evals += 1;
            let h = hist.clone();
            if oracle_valid("foreign-histories", &x, false, (k * 8 + hist.len()) as u64, &|| json!({"asset": rel, "history": h}), &mut b) {
                b.nontrivial += 1;
                b.sample((k * 8 + hist.len()) as u64, || json!({"asset": rel, "history": h}));
            }
            // a signing attempt that fails in this state: what the caller then writes must still be a valid package
            let mut f = p.clone();
            if f.sign(crate::corpus::UnavailableSigner).is_err() {
                let mut y = vec![];
                if f.write(&mut y).is_ok() {
                    b.evals += 1;
                    let mut h2 = hist.clone();
                    h2.push("sign(unavailable signer) → Err");
                    if oracle_valid("foreign-histories", &y, false, (k * 8 + hist.len()) as u64 + 100, &|| json!({"asset": rel, "history": h2}), &mut b) {
                        b.nontrivial += 1;
                    }
                }
            }
        }
    }
    let s2 = SubReport::new("foreign-histories", "B-style history on assets", "each asset after sign(ed25519), sign(rsa4096), clear, sign(ecdsa), and in each of these states after a signing attempt that fails: the rebuilt signature header and the untouched rest must satisfy every rule", b);
    // the public SignatureHeaderBuilder driven directly: every sequence of ≤ 4 calls
    let s3 = {
        let mut c = Acc::new();
        let base = crate::corpus::one_file().build(&env).unwrap_or_else(|e| crate::ctx::machinery(&format!("c09: {}", e)));
        let w = crate::oracles::write_pkg(&base).unwrap_or_else(|e| crate::ctx::machinery(&format!("c09: {}", e)));
        let (_, _, _, l) = vlib::refhdr::scan(&w).unwrap_or_else(|| crate::ctx::machinery("c09: built package cannot be scanned"));
        let hdr_bytes = &w[l.hdr_off..l.payload_off];
        let sha = hex::encode(<sha2::Sha256 as sha2::Digest>::digest(hdr_bytes));
        let sigs: Vec<(&str, Vec<u8>)> = [("rsa4096", Key::Rsa4096), ("ed25519", Key::Ed25519), ("ecdsa-p256", Key::EcdsaP256)]
            .iter()
            .map(|(n, k)| (*n, rpm::signature::Signing::sign(&env.signer(*k), hdr_bytes, rpm::Timestamp(1_600_000_000)).unwrap_or_else(|e| crate::ctx::machinery(&format!("c09: sign: {}", e)))))
            .collect();
        const OPS: [&str; 5] = ["add_openpgp_signature(rsa4096)", "add_openpgp_signature(ed25519)", "add_openpgp_signature(ecdsa-p256)", "set_sha256_digest", "clear_signatures"];
        let depth = if ctx.thorough() { 5 } else { 4 };
        let mut rank = 0u64;
        for len in 0..=depth {
            for code in 0..5u64.pow(len) {
                rank += 1;
                c.evals += 1;
                let seq: Vec<usize> = (0..len).map(|i| (code / 5u64.pow(i) % 5) as usize).collect();
                let case = || json!({"SignatureHeaderBuilder": seq.iter().map(|o| OPS[*o]).collect::<Vec<_>>(), "then": "build(), put in place of the signature header of a built package, write"});
                let r = vlib::report::catch(|| {
                    let mut b = rpm::SignatureHeaderBuilder::new();
                    for o in &seq {
                        b = match o {
                            0..=2 => b.add_openpgp_signature(sigs[*o].1.clone()),
                            3 => b.set_sha256_digest(&sha),
                            _ => b.clear_signatures(),
                        };
                    }
                    let h = b.build()?;
                    let mut p = base.clone();
                    p.metadata.signature = h;
                    let mut x = vec![];
                    p.write(&mut x)?;
                    Ok::<_, rpm::Error>(x)
                });
                match r {
                    Err(pn) => c.viol(crate::common::panic_violation("signature-builder", &pn, case()).rank(rank)),
                    Ok(Err(e)) => c.viol(Violation::new("signature-builder", format!("build / write fails: {}", e), case()).sig("clause", "operation-fails").rank(rank)),
                    Ok(Ok(x)) => {
                        if oracle_valid("signature-builder", &x, false, rank, &case, &mut c) {
                            c.nontrivial += 1;
                        }
                        // what the calls say must be there: one OpenPGP string per signature added since the last clear
                        let live = seq.iter().fold(0usize, |n, o| match o {
                            0..=2 => n + 1,
                            4 => 0,
                            _ => n,
                        });
                        let got = vlib::refhdr::scan(&x).map(|(_, sig, _, _)| {
                            sig.entries.iter().skip(1).find(|e| e.tag == 278).and_then(|e| vlib::refhdr::value(e, &sig.store).ok()).map(|v| match v {
                                vlib::refhdr::Val::StrArray(a) => a.len(),
                                _ => usize::MAX,
                            })
                        });
                        if got != Some(if live == 0 { None } else { Some(live) }) {
                            c.viol(Violation::new("signature-builder", format!("{} signature(s) added since the last clear, the OpenPGP tag of the emitted signature header holds {:?}", live, got), case()).sig("clause", "signature-count").rank(rank));
                        }
                        c.count(&format!("{} live signature(s)", live));
                        if rank % 97 == 0 {
                            c.sample(rank, case);
                        }
                    }
                }
            }
        }
        SubReport::new("signature-builder", "A", &format!("the public SignatureHeaderBuilder driven directly: every sequence of ≤ {} calls over {:?} (real signatures over the package's header), built, put in place of a built package's signature header and written: every structural rule (tags strictly ascending, so no legacy tag twice), and one OpenPGP string per signature added since the last clear", depth, OPS), c)
    };
    // scriptlet interpreter lists: every list of ≤ 3 words over a small vocabulary, for each scriptlet kind
    let s4 = {
        const WORDS: [&str; 5] = ["", "/bin/sh", "-c", "<lua>", "<"];
        let mut lists: Vec<Vec<String>> = vec![];
        for len in 0..=3u32 {
            for code in 0..5u64.pow(len) {
                lists.push((0..len).map(|i| WORDS[(code / 5u64.pow(i) % 5) as usize].to_string()).collect());
            }
        }
        let kinds = crate::spec::SCRIPT_KINDS;
        let n = (lists.len() * kinds.len()) as u64;
        let acc = vlib::report::Acc::merge_all(vlib::par::par_fold(n, Acc::new, |i, acc| {
            let (list, kind) = (&lists[i as usize / kinds.len()], kinds[i as usize % kinds.len()]);
            acc.evals += 1;
            let mut spec = crate::corpus::one_file();
            spec.name = "progs".into();
            spec.compression = Comp::None;
            spec.scripts.insert(kind, ScriptSpec { script: "exit 0".into(), flags: None, prog: Some(list.clone()) });
            let case = || json!({"scriptlet": kind, "interpreter_list": list});
            match vlib::report::catch(|| spec.build_bytes(&env)) {
                Err(p) => acc.viol(crate::common::panic_violation("scriptlet-programs", &p, case()).rank(i)),
                Ok(Err(e)) => acc.count(&format!("not built: {}", e).chars().take(60).collect::<String>()),
                Ok(Ok((_, x))) => {
                    if oracle_valid("scriptlet-programs", &x, true, i, &case, acc) {
                        acc.nontrivial += 1;
                    }
                    acc.count("built");
                    if i % 211 == 0 {
                        acc.sample(i, case);
                    }
                }
            }
        }));
        SubReport::new("scriptlet-programs", "A", &format!("each of the {} scriptlet kinds × every interpreter list of ≤ 3 words over {:?} ({} lists: empty words, lists of empty words only, the built-in interpreter marker and its prefix): the emitted package passes every structural rule (so no entry with a count of 0); a configuration the builder refuses is not judged", kinds.len(), WORDS, lists.len()), acc)
    };
    for s in [&s1, &s2, &s3, &s4] {
        if s.acc.nontrivial == 0 && s.acc.viols.is_empty() {
            crate::ctx::machinery(&format!("sub-check {} judged nothing: vacuous", s.name));
        }
    }
    ctx.finish(
        "exploration",
        vec![s0, s1, s2, s3, s4],
        &[
            "the validator (vcheck/src/validator.rs) implements the rules listed in DESIGN.md A.5; it is cross-checked against the six rpmbuild-produced assets and hand-broken packages on every run",
            "only rules that all assets satisfy and that the property lists are enforced",
        ],
        vec![],
    )
}

pub fn replay(_ctx: &Ctx, v: &Value) -> i32 {
    if let Some(h) = v["case"]["bytes_hex"].as_str() {
        let x = vlib::unhex(h).unwrap_or_default();
        let r = validate(&x, true);
        println!("{:?}", r);
        return if r.is_empty() { 0 } else { 1 };
    }
    println!("re-run ./check C09; the configuration is in the replay file under case.spec");
    0
}
