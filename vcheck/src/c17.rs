//! C17 — the builder rejects bad arguments with errors, not panics (engine A).
use crate::common::*;
use crate::ctx::Ctx;
use crate::oracles::*;
use crate::spec::*;
use rpm::{CompressionWithLevel, FileOptions, PackageBuilder};
use serde_json::{json, Value};
use vlib::par::{par_fold, strings_count, strings_nth};
use vlib::report::{catch, Acc, SubReport, Violation};

const DTOK: [&str; 4] = ["/", ".", "..", "a"];

/// Destinations that certainly cannot be split into a directory and a file name.
fn must_reject(dest: &str) -> bool {
    if !dest.starts_with('/') && !dest.starts_with("./") {
        return true;
    }
    let comps: Vec<&str> = dest.split('/').filter(|c| !c.is_empty() && *c != ".").collect();
    comps.is_empty() || *comps.last().unwrap() == ".."
}

fn try_build(src: &std::path::Path, opts: Result<rpm::FileOptionsBuilder, rpm::Error>, comp: CompressionWithLevel) -> Result<Vec<u8>, String> {
    let opts = opts.map_err(|e| err_kind(&e))?;
    let p = PackageBuilder::new("t", "1", "MIT", "noarch", "s")
        .compression(comp)
        .source_date(1_600_000_000u32)
        .with_file(src, opts)
        .map_err(|e| err_kind(&e))?
        .build()
        .map_err(|e| err_kind(&e))?;
    let mut o = vec![];
    p.write(&mut o).map_err(|e| e.to_string())?;
    Ok(o)
}

/// An accepted argument must give a package that reads back (payload iterates, one file).
fn usable(x: &[u8]) -> Result<(), String> {
    let p = match parse_pkg(x) {
        Ok(Ok(p)) => p,
        _ => return Err("built package does not parse".into()),
    };
    let l = catch(|| crate::c07::iterate(&p)).map_err(|p| format!("files() panics at {}", p.at))??;
    if l.len() != 1 || l[0].len != 5 {
        return Err(format!("payload iteration yields {:?}", l));
    }
    Ok(())
}

pub fn run(ctx: &Ctx) -> i32 {
    let env = Env::new(&ctx.repo, "c17");
    let src = env.source(&Content::Bytes(b"hello".to_vec()), 0o644, 1_500_000_000);
    let none = CompressionWithLevel::None;

    // ---- destinations
    let maxlen = if ctx.thorough() { 9 } else { 5 };
    let n = strings_count(DTOK.len(), maxlen);
    let a = merge(par_fold(n, Acc::new, |i, acc| {
        let mut t = vec![];
        strings_nth(i, DTOK.len(), &mut t);
        let dest: String = t.iter().map(|x| DTOK[*x]).collect();
        acc.evals += 1;
        let case = || json!({"kind": "destination", "destination": dest});
        match catch(|| try_build(&src, Ok(FileOptions::new(dest.clone())), none)) {
            Err(p) => acc.viol(panic_violation("destinations", &p, case()).sig("arg", "destination").rank(i)),
            Ok(Err(k)) => acc.count(&format!("rejected: {}", k)),
            Ok(Ok(x)) => {
                acc.nontrivial += 1;
                acc.count("accepted");
                if must_reject(&dest) {
                    acc.viol(Violation::new("destinations", format!("destination {:?} cannot be split into a directory and a file name but was accepted", dest), case()).sig("clause", "accepted-unsplittable-destination").rank(i));
                } else if usable(&x).is_err() {
                    // not part of the statement: an odd but accepted destination (e.g. "//a") may give odd archive names
                    acc.count("accepted; payload of the resulting package does not iterate (not judged)");
                }
                acc.sample(i, || json!({"destination": dest, "accepted": true}));
            }
        }
    }));
    // the whole character domain (quick: the Basic Multilingual Plane) in every role a character has in a destination, and in the metadata
    let top: u64 = if ctx.thorough() { 0x11_0000 } else { 0x1_0000 };
    let ua = merge(par_fold(top, Acc::new, |cp, acc| {
        let Some(c) = char::from_u32(cp as u32) else { return };
        for dest in [format!("/d/{}", c), format!("/{}/f", c), format!("/d/a{}b", c), format!("{}/f", c), format!("/d/f{}", c)] {
            acc.evals += 1;
            let case = || json!({"kind": "destination", "destination": dest, "code_point": format!("U+{:04X}", cp)});
            match catch(|| try_build(&src, Ok(FileOptions::new(dest.clone())), none)) {
                Err(p) => acc.viol(panic_violation("unicode-scalars", &p, case()).sig("arg", "destination").rank(cp)),
                Ok(Err(k)) => acc.count(&format!("rejected: {}", k)),
                Ok(Ok(_)) => {
                    acc.nontrivial += 1;
                    acc.count("accepted");
                    if must_reject(&dest) {
                        acc.viol(Violation::new("unicode-scalars", format!("destination {:?} cannot be split into a directory and a file name but was accepted", dest), case()).sig("clause", "accepted-unsplittable-destination").rank(cp));
                    }
                }
            }
        }
        acc.evals += 1;
        let t = format!("a{}b", c);
        let case = || json!({"kind": "metadata", "every text argument": t, "code_point": format!("U+{:04X}", cp)});
        if let Err(p) = catch(|| {
            let _ = PackageBuilder::new(&t, &t, &t, &t, &t).description(&t).vendor(&t).url(&t).group(&t).packager(&t).release(&t).compression(none).build().map(|p| {
                let mut o = vec![];
                let _ = p.write(&mut o);
            });
        }) {
            acc.viol(panic_violation("unicode-scalars", &p, case()).sig("arg", "metadata").rank(cp));
        }
    }));
    let s1u = SubReport::new("unicode-scalars", "A", &format!("every Unicode scalar value below U+{:X} ({}) as a file name, a directory name, inside and at the end of a file name, in front of the first '/', and inside every text argument of the metadata setters: no panic; Err for destinations that cannot be split", top, if ctx.thorough() { "the whole domain" } else { "the Basic Multilingual Plane; the thorough tier covers the whole domain" }), ua);
    let s1 = SubReport::new("destinations", "A", &format!("every sequence of ≤ {} tokens over {:?} ({} strings) as FileOptions destination through with_file + build; oracle: no panic; Err when the string does not start with '/' or './', has no name component or ends in '..'; non-trivial = accepted", maxlen, DTOK, n), a);

    // ---- the same payload path named twice (two with_file calls), in its two spellings './P' and '/P'
    let plen = if ctx.thorough() { 9 } else { 6 };
    let np = strings_count(DTOK.len(), plen);
    let a2 = merge(par_fold(np * 3, Acc::new, |j, acc| {
        let (i, variant) = (j / 3, j % 3);
        let mut t = vec![];
        strings_nth(i, DTOK.len(), &mut t);
        let d1: String = t.iter().map(|x| DTOK[*x]).collect();
        let alt = if let Some(r) = d1.strip_prefix("./") {
            format!("/{}", r)
        } else if d1.starts_with('/') {
            format!(".{}", d1)
        } else {
            return;
        };
        let (x, y) = match variant {
            0 => (d1.clone(), d1.clone()),
            1 => (d1.clone(), alt),
            _ => (alt, d1.clone()),
        };
        acc.evals += 1;
        let case = || json!({"kind": "destination-pair", "first": x, "second": y});
        let r = catch(|| {
            let b = PackageBuilder::new("t", "1", "MIT", "noarch", "s").compression(none).source_date(1_600_000_000u32);
            let b = b.with_file(&src, FileOptions::new(x.clone())).map_err(|e| err_kind(&e))?;
            let b = b.with_file(&src, FileOptions::new(y.clone())).map_err(|e| err_kind(&e))?;
            b.build().map(|_| ()).map_err(|e| err_kind(&e))
        });
        match r {
            Err(p) => acc.viol(panic_violation("destination-pairs", &p, case()).sig("arg", "destination").rank(j)),
            Ok(Err(k)) => acc.count(&format!("rejected: {}", k)),
            Ok(Ok(())) => {
                acc.nontrivial += 1;
                acc.count("accepted");
                if j % 499 == 0 {
                    acc.sample(j, case);
                }
            }
        }
    }));
    let s1b = SubReport::new("destination-pairs", "A", &format!("two with_file calls naming the same payload path: every destination of ≤ {} tokens that starts with '/' or './' × {{twice the same string, './P' then '/P', '/P' then './P'}}; oracle: build returns Ok or Err, never panics. non-trivial = accepted", plen), a2);

    // ---- any two destinations in one builder: the same directory spelled differently, nested spellings, file-vs-directory clashes
    let xtok = ["/", ".", "a", "b"];
    let xlen = if ctx.thorough() { 7 } else { 5 };
    let mut xs: Vec<String> = vec![];
    for i in 0..strings_count(xtok.len(), xlen) {
        let mut t = vec![];
        strings_nth(i, xtok.len(), &mut t);
        let d: String = t.iter().map(|x| xtok[*x]).collect();
        // keep one representative per token pattern that the builder accepts on its own
        if (d.starts_with('/') || d.starts_with("./")) && !must_reject(&d) && !d.contains("aa") && !d.contains("bb") && !d.contains("ab") && !d.contains("ba") && !d.contains("..") {
            xs.push(d);
        }
    }
    let nx = xs.len() as u64;
    let a3 = merge(par_fold(nx * nx, Acc::new, |j, acc| {
        let (x, y) = (&xs[(j / nx) as usize], &xs[(j % nx) as usize]);
        acc.evals += 1;
        let case = || json!({"kind": "destination-cross-pair", "first": x, "second": y});
        let r = catch(|| {
            let b = PackageBuilder::new("t", "1", "MIT", "noarch", "s").compression(none).source_date(1_600_000_000u32);
            let b = b.with_file(&src, FileOptions::new(x.clone())).map_err(|e| err_kind(&e))?;
            let b = b.with_file(&src, FileOptions::new(y.clone())).map_err(|e| err_kind(&e))?;
            b.build().map(|_| ()).map_err(|e| err_kind(&e))
        });
        match r {
            Err(p) => acc.viol(panic_violation("destination-cross-pairs", &p, case()).sig("arg", "destination").rank(j)),
            Ok(Err(k)) => acc.count(&format!("rejected: {}", k)),
            Ok(Ok(())) => {
                acc.nontrivial += 1;
                acc.count("accepted");
                if j % 4999 == 0 {
                    acc.sample(j, case);
                }
            }
        }
    }));
    let s1c = SubReport::new("destination-cross-pairs", "A", &format!("two with_file calls with every ordered pair of the {} individually acceptable destinations of ≤ {} tokens over {:?} (redundant '/' and '.' components, two file names): the same directory in different spellings, a path used as file and as directory, …; oracle: Ok or Err, never a panic. non-trivial = accepted", nx, xlen, xtok), a3);

    // ---- sources the builder is pointed at: odd modification times, odd kinds of file
    let mut a4 = Acc::new();
    {
        let dir = env.dir().join("sources");
        let _ = std::fs::create_dir_all(&dir);
        let mut cases: Vec<(String, std::path::PathBuf)> = vec![];
        for (i, secs) in [-86_400i64 * 365 * 69, -86_400 * 366, -2, -1, 0, 1, (1i64 << 31) - 1, 1 << 31, (1i64 << 32) - 1, 1 << 32, (1 << 32) + 1, 1 << 33, 253_402_300_799].iter().enumerate() {
            for nanos in [0u32, 500_000_000] {
                let p = dir.join(format!("mtime-{}-{}", i, nanos));
                std::fs::write(&p, b"hello").expect("temp source");
                let st = if *secs >= 0 { std::time::UNIX_EPOCH.checked_add(std::time::Duration::new(*secs as u64, nanos)) } else { std::time::UNIX_EPOCH.checked_sub(std::time::Duration::new((-*secs) as u64, 0)).and_then(|t| t.checked_add(std::time::Duration::new(0, nanos))) };
                let Some(st) = st else { continue };
                let f = std::fs::OpenOptions::new().write(true).open(&p).expect("open");
                if f.set_modified(st).is_err() || std::fs::metadata(&p).and_then(|m| m.modified()).ok() != Some(st) {
                    a4.count("file system cannot store this mtime (skipped)");
                    continue;
                }
                cases.push((format!("regular file with mtime {} s + {} ns", secs, nanos), p));
            }
        }
        cases.push(("a directory".into(), dir.clone()));
        cases.push(("a path that does not exist".into(), dir.join("missing")));
        cases.push(("an empty path".into(), std::path::PathBuf::new()));
        let dangling = dir.join("dangling-link");
        let _ = std::os::unix::fs::symlink("nowhere", &dangling);
        cases.push(("a dangling symbolic link".into(), dangling));
        let looped = dir.join("loop");
        let _ = std::os::unix::fs::symlink("loop", &looped);
        cases.push(("a symbolic link to itself".into(), looped));
        let unreadable = dir.join("mode-000");
        std::fs::write(&unreadable, b"x").expect("temp");
        let _ = std::fs::set_permissions(&unreadable, std::os::unix::fs::PermissionsExt::from_mode(0o000));
        cases.push(("a file with mode 000".into(), unreadable));
        // names that are not valid UTF-8: readable, missing, a directory
        {
            use std::os::unix::ffi::OsStrExt;
            let bad = std::ffi::OsStr::from_bytes(b"na\xefve-\xff.bin");
            let readable = dir.join(bad);
            std::fs::write(&readable, b"hello").expect("temp");
            cases.push(("a readable file whose name is not valid UTF-8".into(), readable));
            cases.push(("a missing file whose name is not valid UTF-8".into(), dir.join(std::ffi::OsStr::from_bytes(b"missing-\xfe"))));
            let d = dir.join(std::ffi::OsStr::from_bytes(b"dir-\xfd"));
            let _ = std::fs::create_dir_all(&d);
            cases.push(("a directory whose name is not valid UTF-8".into(), d));
        }
        for k in [KERNEL_SOURCE, "/proc/self/status", "/dev/null", "/proc/self/exe"] {
            if std::path::Path::new(k).exists() {
                cases.push((format!("special file {}", k), k.into()));
            }
        }
        for (i, (what, path)) in cases.iter().enumerate() {
            for dest in ["/f", "./d/f"] {
                a4.evals += 1;
                let case = json!({"kind": "source", "source": what, "destination": dest});
                let r = catch(|| {
                    PackageBuilder::new("t", "1", "MIT", "noarch", "s")
                        .compression(none)
                        .with_file(path, FileOptions::new(dest))
                        .and_then(|b| b.build())
                        .map(|_| ())
                        .map_err(|e| err_kind(&e))
                });
                match r {
                    Err(p) => a4.viol(panic_violation("sources", &p, case).sig("arg", "source").rank(i as u64)),
                    Ok(Err(k)) => a4.count(&format!("rejected: {}", k)),
                    Ok(Ok(())) => {
                        a4.nontrivial += 1;
                        a4.count("accepted");
                    }
                }
                a4.sample(i as u64, || json!({"source": what}));
            }
        }
    }
    let s1d = SubReport::new("sources", "A", "with_file + build on source paths of every kind: regular files whose modification time is 1901, −366 d, −2 s … 2^33 s, year 9999 (× whole / half second), a directory, a missing path, an empty path, a dangling and a self-referential symbolic link, a file with mode 000, readable / missing / directory names that are not valid UTF-8, kernel-backed files, /dev/null; oracle: Ok or Err, never a panic. non-trivial = accepted", a4);

    // ---- destinations whose length is around the limits of the archive format (name field of 4096 bytes incl. "." and NUL)
    let mut a7 = Acc::new();
    {
        let mut lens: Vec<usize> = (4088..=4100).collect();
        lens.extend([255, 256, 257, 1023, 1024, 1025, 65_535, 65_536]);
        let mut idx = 0u64;
        for total in lens {
            for (prefix, shape) in [("/", "one long name"), ("./", "one long name"), ("/", "nested 200-byte components"), ("/d/", "long name in a directory")] {
                for large in [false, true] {
                    idx += 1;
                    a7.evals += 1;
                    let body_len = total.saturating_sub(prefix.len());
                    let body: String = if shape.starts_with("nested") {
                        let mut b = String::new();
                        while b.len() < body_len {
                            let take = (body_len - b.len()).min(200);
                            if !b.is_empty() && take > 1 {
                                b.push('/');
                                b.push_str(&"n".repeat(take - 1));
                            } else {
                                b.push_str(&"n".repeat(take));
                            }
                        }
                        b
                    } else {
                        "n".repeat(body_len)
                    };
                    let dest = format!("{}{}", prefix, body);
                    let case = json!({"kind": "long-destination", "length": dest.len(), "shape": shape, "prefix": prefix, "large_file_layout": large});
                    crate::hooks::set_force_large_files(large);
                    let r = catch(|| {
                        PackageBuilder::new("t", "1", "MIT", "noarch", "s").compression(none).with_file(&src, FileOptions::new(dest.clone())).and_then(|b| b.build()).map(|_| ()).map_err(|e| err_kind(&e))
                    });
                    crate::hooks::set_force_large_files(false);
                    match r {
                        Err(p) => a7.viol(panic_violation("long-destinations", &p, case).sig("arg", "destination").rank(idx)),
                        Ok(Err(k)) => a7.count(&format!("rejected: {}", k)),
                        Ok(Ok(())) => {
                            a7.nontrivial += 1;
                            a7.count("accepted");
                        }
                    }
                }
            }
        }
    }
    let s1f = SubReport::new("long-destinations", "A", "destinations of every length 4088..=4100 and of 255, 256, 257, 1023, 1024, 1025, 65 535, 65 536 bytes, as one long name after '/' or './', nested 200-byte components, a long name in a directory; standard and large-file layout; with_file + build: Ok or Err, never a panic. non-trivial = accepted", a7);

    // ---- link targets of symbolic-link entries: any text, at links of several depths
    let ltok = ["/", "..", ".", "a"];
    let llen = if ctx.thorough() { 7 } else { 5 };
    let nl = strings_count(ltok.len(), llen);
    let a5 = merge(par_fold(nl * 3, Acc::new, |j, acc| {
        let (i, at) = (j / 3, ["/link", "/opt/link", "./a/b/link"][(j % 3) as usize]);
        let mut t = vec![];
        strings_nth(i, ltok.len(), &mut t);
        let target: String = t.iter().map(|x| ltok[*x]).collect();
        acc.evals += 1;
        let case = || json!({"kind": "link-target", "link": at, "target": target});
        let r = catch(|| {
            PackageBuilder::new("t", "1", "MIT", "noarch", "s")
                .compression(none)
                .with_file(&src, FileOptions::new(at).mode(rpm::FileMode::symbolic_link(0o777)).symlink(target.clone()))
                .and_then(|b| b.build())
                .map(|_| ())
                .map_err(|e| err_kind(&e))
        });
        match r {
            Err(p) => acc.viol(panic_violation("link-targets", &p, case()).sig("arg", "symlink").rank(j)),
            Ok(Err(k)) => acc.count(&format!("rejected: {}", k)),
            Ok(Ok(())) => {
                acc.nontrivial += 1;
                acc.count("accepted");
            }
        }
        if j % 997 == 0 {
            acc.sample(j, case);
        }
    }));
    let s1e = SubReport::new("link-targets", "A", &format!("every sequence of ≤ {} tokens over {:?} ({} strings, incl. the empty one) as the link target of a symbolic-link entry at /link, /opt/link and ./a/b/link (targets that climb above the root, absolute, empty, with redundant components); oracle: Ok or Err, never a panic. non-trivial = accepted", llen, ltok, nl), a5);

    // ---- capability text (the acceptance iff is C19's; here: no panic and unknown text is an error)
    let ctoks = ["cap_chown", "all", "bogus", ",", "=", "+", "e", "p", " ", "\t", "é", "\0", "cap_", "E", "P", "_v2"];
    let n2 = strings_count(ctoks.len(), 4);
    let b = merge(par_fold(n2, Acc::new, |i, acc| {
        let mut t = vec![];
        strings_nth(i, ctoks.len(), &mut t);
        let text: String = t.iter().map(|x| ctoks[*x]).collect();
        acc.evals += 1;
        let case = || json!({"kind": "caps", "caps": text});
        match catch(|| try_build(&src, FileOptions::new("/usr/bin/f").caps(text.clone()), none)) {
            Err(p) => acc.viol(panic_violation("capabilities", &p, case()).sig("arg", "caps").rank(i)),
            Ok(Err(k)) => {
                acc.count(&format!("rejected: {}", k));
                if k != "InvalidCapabilities" {
                    acc.viol(Violation::new("capabilities", format!("caps {:?}: rejected with {} instead of InvalidCapabilities", text, k), case()).sig("clause", "wrong-error").rank(i));
                }
            }
            Ok(Ok(_)) => {
                acc.nontrivial += 1;
                acc.count("accepted");
                if !vlib::capsref::accepts(&text) {
                    acc.viol(Violation::new("capabilities", format!("unknown capability text {:?} accepted", text), case()).sig("clause", "unknown-capability-accepted").rank(i));
                }
                acc.sample(i, || json!({"caps": text, "accepted": true}));
            }
        }
    }));
    let s2 = SubReport::new("capabilities", "A", &format!("every sequence of ≤ 4 tokens over {:?} ({} strings) through FileOptions::caps + with_file + build; oracle: no panic, rejection is InvalidCapabilities, text that the capability grammar (DESIGN A.4) does not accept — an unknown name such as cap_cap_chown or cap_chown_v2, upper-case flags, non-ASCII, NUL — is rejected", ctoks, n2), b);

    // ---- compression levels
    let mut levels: Vec<(String, CompressionWithLevel)> = vec![("none".into(), CompressionWithLevel::None)];
    for l in [0u32, 1, 9, 10, 23, 31, 32, 41, 64, 100, 255, 256, 1000, 1 << 30, (1 << 31) | 6, 0x7fff_ffff, u32::MAX] {
        levels.push((format!("gzip {}", l), CompressionWithLevel::Gzip(l)));
        levels.push((format!("xz {}", l), CompressionWithLevel::Xz(l)));
        levels.push((format!("bzip2 {}", l), CompressionWithLevel::Bzip2(l)));
    }
    for l in [i32::MIN, -200_000, -131_072, -1, 0, 1, 22, 23, 100, i32::MAX] {
        levels.push((format!("zstd {}", l), CompressionWithLevel::Zstd(l)));
    }
    let c = merge(par_fold(levels.len() as u64, Acc::new, |i, acc| {
        let (name, comp) = &levels[i as usize];
        acc.evals += 1;
        let case = || json!({"kind": "compression", "compression": name});
        match catch(|| try_build(&src, Ok(FileOptions::new("/usr/bin/f")), *comp)) {
            Err(p) => acc.viol(panic_violation("compression-levels", &p, case()).sig("arg", "compression").rank(i)),
            Ok(Err(k)) => acc.count(&format!("rejected: {}", k)),
            Ok(Ok(x)) => {
                acc.nontrivial += 1;
                acc.count("accepted");
                if let Err(e) = usable(&x) {
                    acc.viol(Violation::new("compression-levels", format!("{} accepted but the package is unusable: {}", name, e), case()).sig("clause", "accepted-but-unusable").rank(i));
                }
                acc.sample(i, || json!({"compression": name, "accepted": true}));
            }
        }
    }));
    let s3 = SubReport::new("compression-levels", "A", &format!("{} (type, level) pairs: gzip / xz / bzip2 × {{0,1,9,10,23,31,32,41,64,100,255,256,1000,2^30,2^31|6,2^31−1,2^32−1}}, zstd × {{i32::MIN,−200000,−131072,−1,0,1,22,23,100,i32::MAX}}; oracle: no panic; error, or a package whose payload decompresses and iterates", levels.len()), c);

    // ---- metadata strings and modes
    let texts = ["", "\0", "a\0b", "x", "ünï✓", "two\nlines", &"n".repeat(70), &"é".repeat(40), "name with spaces", "-", ":"];
    let modes: [i32; 8] = [0, 0o100644, 0o040755, 0o120777, 0o010644, 0o200000, -1, i32::MAX];
    let nmeta = (texts.len() * 7 + modes.len()) as u64;
    let d = merge(par_fold(nmeta, Acc::new, |i, acc| {
        acc.evals += 1;
        let i = i as usize;
        let (what, r) = if i < texts.len() * 7 {
            let tx = texts[i / 7].to_string();
            let f = i % 7;
            let field = ["name", "version", "license", "arch", "summary", "release+optional fields", "scriptlets+deps+changelog"][f];
            let src = src.clone();
            (
                json!({"kind": "metadata", "field": field, "text": tx}),
                catch(move || {
                    let g = |k: usize| if f == k { tx.as_str() } else { "ok" };
                    let mut b = PackageBuilder::new(g(0), g(1), g(2), g(3), g(4)).compression(none).source_date(1u32);
                    if f == 5 {
                        b = b.release(tx.clone()).description(tx.clone()).vendor(tx.clone()).packager(tx.clone()).group(tx.clone()).url(tx.clone()).vcs(tx.clone()).cookie(&tx).build_host(&tx);
                    }
                    if f == 6 {
                        b = b.pre_install_script(tx.clone()).verify_script(rpm::Scriptlet::new(tx.clone()).prog(vec![tx.clone()])).requires(rpm::Dependency::eq(tx.clone(), tx.clone())).provides(rpm::Dependency::any(tx.clone())).add_changelog_entry(&tx, &tx, 0u32);
                    }
                    let p = b.with_file(&src, FileOptions::new("/f").user(tx.clone()).group(tx.clone()).symlink(tx.clone())).map_err(|e| err_kind(&e))?.build().map_err(|e| err_kind(&e))?;
                    let mut o = vec![];
                    p.write(&mut o).map_err(|e| e.to_string())?;
                    Ok::<Vec<u8>, String>(o)
                }),
            )
        } else {
            let m = modes[i - texts.len() * 7];
            (json!({"kind": "mode", "mode": m}), catch(|| try_build(&src, Ok(FileOptions::new("/f").mode(m)), none)))
        };
        match r {
            Err(p) => acc.viol(panic_violation("metadata", &p, what.clone()).sig("arg", what["kind"].as_str().unwrap_or("")).rank(i as u64)),
            Ok(Err(k)) => acc.count(&format!("rejected: {}", k)),
            Ok(Ok(_)) => {
                acc.nontrivial += 1;
                acc.count("accepted");
                acc.sample(i as u64, || what.clone());
            }
        }
    }));
    let s4 = SubReport::new("metadata", "A", "11 hostile strings (empty, NUL, embedded NUL, 70 bytes, 40 two-byte characters, newline, '-', ':') through each required field, all optional scalar setters, scriptlet / dependency / changelog / owner / symlink setters, and 8 mode integers (fifo, out of 16 bits, negative, i32::MAX) through FileOptions::mode; oracle: no panic", d);
    // ---- destinations in and around the directories that packaging tools treat specially (locale trees, documentation,
    // licences, debug information, configuration)
    const SPECIAL: [&str; 22] = [
        "/usr/share/locale", "/usr/share/man", "/usr/share/doc", "/usr/share/licenses", "/usr/share/info", "/usr/share/help", "/usr/lib/debug", "/usr/lib/.build-id", "/usr/lib/locale",
        "/usr/lib64", "/usr/lib", "/usr/bin", "/usr/sbin", "/etc", "/var/run", "/run", "/tmp", "/boot", "/dev", "/proc", "/usr/share/man/man1", "/usr/src/debug",
    ];
    let mut sdests: Vec<String> = vec![];
    for d in SPECIAL {
        for tail in ["/f", "/de/f", "/de/LC_MESSAGES/f.mo", "/pt_BR@latin/f", "/.hidden", "/man1/f.1.gz", "/f/", "", "/", "/../f", "/./f", "//f", ".alias", ".d/f", "-x/f"] {
            sdests.push(format!("{}{}", d, tail));
            sdests.push(format!(".{}{}", d, tail));
        }
    }
    let a8 = merge(par_fold(sdests.len() as u64 * 3, Acc::new, |i, acc| {
        let dest = &sdests[(i / 3) as usize];
        let kind = i % 3;
        acc.evals += 1;
        let case = || json!({"kind": "destination", "destination": dest, "entry": match kind { 0 => "regular file", 1 => "directory", _ => "symbolic link" }});
        let opts = match kind {
            0 => FileOptions::new(dest.clone()),
            1 => FileOptions::new(dest.clone()).mode(rpm::FileMode::dir(0o755)),
            _ => FileOptions::new(dest.clone()).mode(rpm::FileMode::symbolic_link(0o777)).symlink("target"),
        };
        match catch(|| try_build(&src, Ok(opts), none)) {
            Err(p) => acc.viol(panic_violation("special-directories", &p, case()).sig("arg", "destination").rank(i)),
            Ok(Err(k)) => acc.count(&format!("rejected: {}", k)),
            Ok(Ok(_)) => {
                acc.nontrivial += 1;
                acc.count("accepted");
                if must_reject(dest) {
                    acc.viol(Violation::new("special-directories", format!("destination {:?} cannot be split into a directory and a file name but was accepted", dest), case()).sig("clause", "accepted-unsplittable-destination").rank(i));
                }
                if i % 101 == 0 {
                    acc.sample(i, case);
                }
            }
        }
    }));
    let s7 = SubReport::new("special-directories", "A", &format!("{} destinations in, below, beside and equal to 22 directories that packaging tools treat specially (locale and manual trees, documentation, licences, debug information, configuration, /proc, /dev …), in the '/' and './' spellings, each as a regular file, a directory and a symbolic link: no panic; Err when the string cannot be split", sdests.len()), a8);
    // ---- scriptlets: every interpreter list of ≤ 3 words over a vocabulary of markers and their pieces, for each kind
    const PWORDS: [&str; 8] = ["", "<", "<lua>", "<é", ">", "<>", "/bin/sh", "é"];
    let mut plists: Vec<Vec<&str>> = vec![];
    for len in 0..=3u32 {
        for code in 0..(PWORDS.len() as u64).pow(len) {
            plists.push((0..len).map(|i| PWORDS[(code / (PWORDS.len() as u64).pow(i) % PWORDS.len() as u64) as usize]).collect());
        }
    }
    let bodies = ["exit 0", "", "é\n"];
    let sn = (plists.len() * SCRIPT_KINDS.len() * bodies.len()) as u64;
    let a7 = merge(par_fold(sn, Acc::new, |i, acc| {
        let body = bodies[i as usize % bodies.len()];
        let kind = SCRIPT_KINDS[i as usize / bodies.len() % SCRIPT_KINDS.len()];
        let list = &plists[i as usize / bodies.len() / SCRIPT_KINDS.len()];
        acc.evals += 1;
        let case = || json!({"kind": "scriptlet", "scriptlet": kind, "body": body, "interpreter_list": list});
        let r = catch(|| {
            let sc = rpm::Scriptlet::new(body).prog(list.clone()).flags(rpm::ScriptletFlags::EXPAND);
            let b = crate::spec::script_call(PackageBuilder::new("t", "1", "MIT", "noarch", "s").compression(none), kind, sc);
            b.build().map(|p| {
                let mut o = vec![];
                let _ = p.write(&mut o);
            })
        });
        match r {
            Err(p) => acc.viol(panic_violation("scriptlets", &p, case()).sig("arg", "scriptlet").rank(i)),
            Ok(Err(e)) => acc.count(&format!("rejected: {}", err_kind(&e))),
            Ok(Ok(())) => {
                acc.nontrivial += 1;
                acc.count("accepted");
                if i % 997 == 0 {
                    acc.sample(i, case);
                }
            }
        }
    }));
    let s6 = SubReport::new("scriptlets", "A", &format!("each of the nine scriptlet setters × 3 bodies × every interpreter list of ≤ 3 words over {:?} ({} lists: the built-in interpreter marker, its pieces, a marker ending in a multi-byte character, empty words): build + write, no panic", PWORDS, plists.len()), a7);
    // ---- builders that start from Default::default() instead of new()
    let mut a9 = Acc::new();
    for (i, what) in ["build", "with a file", "with a scriptlet and a dependency", "build_and_sign", "with every optional text set to the empty string"].iter().enumerate() {
        a9.evals += 1;
        let case = json!({"kind": "default-builder", "then": what});
        let signer = crate::keys::Key::Ed25519.signer(&ctx.repo);
        let r = catch(|| {
            let b = PackageBuilder::default().compression(none);
            let p = match i {
                0 => b.build(),
                1 => b.with_file(&src, FileOptions::new("/f")).and_then(|b| b.build()),
                2 => b.pre_install_script("true").requires(rpm::Dependency::any("x")).build(),
                3 => b.build_and_sign(signer),
                _ => b.description("").vendor("").url("").group("").packager("").release("").build(),
            };
            p.map(|p| {
                let mut o = vec![];
                let _ = p.write(&mut o);
                let _ = rpm::Package::parse(&mut &o[..]);
            })
        });
        match r {
            Err(p) => a9.viol(panic_violation("default-builder", &p, case).rank(i as u64)),
            Ok(Err(e)) => a9.count(&format!("rejected: {}", err_kind(&e))),
            Ok(Ok(())) => {
                a9.nontrivial += 1;
                a9.count("accepted");
            }
        }
    }
    let s8 = SubReport::new("default-builder", "A", "PackageBuilder::default() (every required text empty) finished in five ways — built, with a file, with a scriptlet and a dependency, built and signed, with every optional text empty: Ok or Err, no panic, and what is built can be written and parsed without a panic", a9);
    // ---- file modes given as values with public fields: anything can be put into `permissions`
    let mut a6 = Acc::new();
    {
        use rpm::FileMode;
        let mut vals: Vec<(String, FileMode)> = vec![];
        for p in [0u16, 0o644, 0o7777, 0o10000, 0o100644, 0o120777, 0o170000, 0xffff] {
            vals.push((format!("Regular {{ permissions: {:#o} }}", p), FileMode::Regular { permissions: p }));
            vals.push((format!("Dir {{ permissions: {:#o} }}", p), FileMode::Dir { permissions: p }));
            vals.push((format!("SymbolicLink {{ permissions: {:#o} }}", p), FileMode::SymbolicLink { permissions: p }));
        }
        for x in [0i32, -1, 0o644, 65_536, i32::MIN, i32::MAX] {
            vals.push((format!("Invalid {{ raw_mode: {} }}", x), FileMode::Invalid { raw_mode: x, reason: "given by the caller" }));
        }
        for (i, (what, m)) in vals.iter().enumerate() {
            a6.evals += 1;
            let case = json!({"kind": "mode-value", "mode": what});
            let r = catch(|| {
                let _ = (m.raw_mode(), m.permissions(), m.file_type());
                try_build(&src, Ok(FileOptions::new("/f").mode(*m)), none)
            });
            match r {
                Err(p) => a6.viol(panic_violation("mode-values", &p, case).sig("arg", "mode").rank(i as u64)),
                Ok(Err(k)) => a6.count(&format!("rejected: {}", k)),
                Ok(Ok(_)) => {
                    a6.nontrivial += 1;
                    a6.count("accepted");
                }
            }
        }
    }
    let s5 = SubReport::new("mode-values", "A", "FileMode values written with their public fields — Regular / Dir / SymbolicLink with `permissions` ∈ {0, 0644, 07777, 010000, 0100644, 0120777, 0170000, 0xFFFF} (type bits inside the permission field) and Invalid with raw_mode ∈ {0, −1, 0644, 65536, i32::MIN, i32::MAX}: accessors, FileOptions::mode, with_file, build; oracle: Ok or Err, never a panic. non-trivial = accepted", a6);
    for s in [&s1, &s1b, &s2, &s3, &s4] {
        if s.acc.nontrivial == 0 {
            crate::ctx::machinery(&format!("sub-check {} accepted nothing: vacuous", s.name));
        }
    }
    ctx.finish(
        "exploration",
        vec![s1, s1u, s1b, s1c, s1d, s1e, s1f, s7, s2, s3, s4, s6, s8, s5],
        &[
            "which in-between destinations (e.g. '/a/.', '/../a') are accepted is not specified; they must only not panic and, if accepted, give a usable package",
            "timestamp arguments of non-integer types (chrono dates before 1970) are outside the statement's 'strings and numbers'",
        ],
        vec![],
    )
}

pub fn replay(ctx: &Ctx, v: &Value) -> i32 {
    let env = Env::new(&ctx.repo, "c17-replay");
    let src = env.source(&Content::Bytes(b"hello".to_vec()), 0o644, 1_500_000_000);
    let c = &v["case"];
    let r = match c["kind"].as_str() {
        Some("destination") => catch(|| {
            let d = c["destination"].as_str().unwrap_or("");
            let o = match c["entry"].as_str() {
                Some("directory") => FileOptions::new(d).mode(rpm::FileMode::dir(0o755)),
                Some("symbolic link") => FileOptions::new(d).mode(rpm::FileMode::symbolic_link(0o777)).symlink("target"),
                _ => FileOptions::new(d),
            };
            try_build(&src, Ok(o), CompressionWithLevel::None)
        }),
        Some("scriptlet") => catch(|| {
            let list: Vec<String> = c["interpreter_list"].as_array().map(|a| a.iter().map(|x| x.as_str().unwrap_or("").to_string()).collect()).unwrap_or_default();
            let sc = rpm::Scriptlet::new(c["body"].as_str().unwrap_or("")).prog(list).flags(rpm::ScriptletFlags::EXPAND);
            let kind = SCRIPT_KINDS.iter().find(|k| Some(**k) == c["scriptlet"].as_str()).copied().unwrap_or("pre_install");
            crate::spec::script_call(PackageBuilder::new("t", "1", "MIT", "noarch", "s").compression(CompressionWithLevel::None), kind, sc).build().map_err(|e| err_kind(&e)).map(|p| {
                let mut o = vec![];
                let _ = p.write(&mut o);
                o
            })
        }),
        Some("caps") => catch(|| try_build(&src, FileOptions::new("/usr/bin/f").caps(c["caps"].as_str().unwrap_or("")), CompressionWithLevel::None)),
        _ => {
            println!("re-run ./check C17 for this case kind: {}", c);
            return 0;
        }
    };
    match r {
        Err(p) => {
            println!("REPRODUCED: panic at {}", p.at);
            1
        }
        Ok(r) => {
            println!("result: {:?}", r.map(|b| b.len()));
            0
        }
    }
}
