//! C12 — extraction recreates the files and never touches anything outside the target
//! (engine A over hostile entry shapes in single-threaded worker processes, each with its
//! own jail; file-system model for the benign subset).
use crate::common::*;
use crate::common_assets::ASSETS;
use crate::ctx::Ctx;
use crate::foreign::{self, FFile};
use crate::oracles::*;
use crate::spec::*;
use crate::sweep::{run_sweep, Sweep};
use crate::validator::decompress;
use serde_json::{json, Value};
use std::collections::BTreeMap;
use std::os::unix::fs::PermissionsExt;
use std::path::{Path, PathBuf};
use vlib::refcpio::{read_archive, Ent};
use vlib::refhdr::{scan, value, Val};
use vlib::report::{catch, Acc, SubReport, Violation};

// ------------------------------------------------------------------ jail

pub struct Jail {
    root: PathBuf,
}

impl Jail {
    pub fn new(tag: &str) -> Jail {
        // a memory file system if there is one: a case is a few dozen mkdir / unlink calls, which a journalling disk file system makes slow
        let shm = std::path::Path::new("/dev/shm");
        let base = if shm.is_dir() && std::fs::create_dir_all(shm.join(crate::ctx::run_dir().file_name().unwrap())).is_ok() { shm.join(crate::ctx::run_dir().file_name().unwrap()) } else { crate::ctx::run_dir() };
        let root = base.join(format!("c12-{}-{}", tag, std::process::id())).join("jail");
        Jail { root }
    }
    pub fn target(&self) -> PathBuf {
        self.root.join("t/target")
    }
    /// the destination as handed to `extract`: absolute (0), relative to the process's working directory `<jail>/cwd` (1),
    /// or absolute through a symbolic link above the target, `<jail>/alias -> t` (2)
    pub fn target_arg(&self, dest: u8) -> PathBuf {
        match dest {
            0 => self.target(),
            1 => PathBuf::from("../t/target"),
            2 => self.root.join("alias/target"),
            _ => self.target(),
        }
    }
    /// destination 3: the target exists already and holds links that lead out of it, under the names the alphabet uses
    pub fn prepare(&self, dest: u8) {
        if dest == 3 {
            let t = self.target();
            std::fs::create_dir_all(t.join("d")).unwrap();
            std::os::unix::fs::symlink("../../outside-dir", t.join("l")).unwrap();
            std::os::unix::fs::symlink("../../outside.txt", t.join("f")).unwrap();
            std::os::unix::fs::symlink("../../outside.txt", t.join("s.txt")).unwrap();
            std::os::unix::fs::symlink("../../../outside.txt", t.join("d/f")).unwrap();
        }
    }
    pub fn dest_name(dest: u8) -> &'static str {
        match dest {
            0 => "<jail>/t/target (absolute)",
            1 => "../t/target (relative to the working directory <jail>/cwd)",
            2 => "<jail>/alias/target (absolute; <jail>/alias is a symbolic link to the directory t)",
            _ => "<jail>/t/target (absolute), which exists already and holds l -> ../../outside-dir, f -> ../../outside.txt, s.txt -> ../../outside.txt, d/f -> ../../../outside.txt",
        }
    }
    pub fn outside_dir(&self) -> String {
        self.root.join("outside-dir").to_string_lossy().to_string()
    }
    /// fresh jail; the process's working directory is moved inside it
    pub fn reset(&self) {
        let _ = std::fs::remove_dir_all(&self.root);
        for d in ["cwd", "t", "outside-dir"] {
            std::fs::create_dir_all(self.root.join(d)).unwrap_or_else(|e| crate::ctx::machinery(&format!("jail: {}", e)));
        }
        std::fs::write(self.root.join("outside.txt"), b"outside").unwrap();
        std::fs::write(self.root.join("outside-dir/keep"), b"keep").unwrap();
        // symbolic links outside the target, under the names the alphabet uses below a link
        for n in ["f", "l", "s.txt"] {
            std::os::unix::fs::symlink("keep", self.root.join("outside-dir").join(n)).unwrap();
        }
        std::os::unix::fs::symlink("t", self.root.join("alias")).unwrap();
        std::fs::set_permissions(self.root.join("outside-dir"), std::fs::Permissions::from_mode(0o755)).unwrap();
        std::fs::set_permissions(self.root.join("outside.txt"), std::fs::Permissions::from_mode(0o644)).unwrap();
        std::env::set_current_dir(self.root.join("cwd")).unwrap();
    }
    /// everything in the jail except the target: path → (kind, permission bits, content / link target)
    pub fn snapshot(&self) -> BTreeMap<String, (char, u32, Vec<u8>)> {
        let mut out = BTreeMap::new();
        let target = self.target();
        fn walk(root: &Path, dir: &Path, skip: &Path, out: &mut BTreeMap<String, (char, u32, Vec<u8>)>) {
            let Ok(rd) = std::fs::read_dir(dir) else { return };
            for e in rd.flatten() {
                let p = e.path();
                if p == skip {
                    continue;
                }
                let Ok(md) = std::fs::symlink_metadata(&p) else { continue };
                let rel = p.strip_prefix(root).unwrap().to_string_lossy().to_string();
                let perm = md.permissions().mode() & 0o7777;
                if md.file_type().is_symlink() {
                    out.insert(rel, ('l', 0, std::fs::read_link(&p).map(|t| t.to_string_lossy().as_bytes().to_vec()).unwrap_or_default()));
                } else if md.is_dir() {
                    out.insert(rel, ('d', perm, vec![]));
                    walk(root, &p, skip, out);
                } else {
                    out.insert(rel, ('f', perm, std::fs::read(&p).unwrap_or_default()));
                }
            }
        }
        walk(&self.root, &self.root, &target, &mut out);
        out
    }
}

impl Drop for Jail {
    fn drop(&mut self) {
        let _ = std::env::set_current_dir("/");
        if let Some(p) = self.root.parent() {
            let _ = std::fs::remove_dir_all(p);
        }
    }
}

// ------------------------------------------------------------------ hostile alphabet

#[derive(Clone, Debug)]
struct Shape {
    dir: &'static str,
    base: u8,
    kind: u8,
}

const DIRS: [&str; 5] = ["/", "/d/", "/../", "/d/../../", "/l/"];
const N_BASE: u8 = 10; // f, l, .., ../f, "", absolute path inside the jail, l/f and l/s/f (slashes inside the base name), s.tmp, s.txt
const N_KIND: u8 = 10;

fn alphabet(full: bool) -> Vec<Shape> {
    let mut v = vec![];
    let (dirs, bases, kinds): (Vec<&'static str>, Vec<u8>, Vec<u8>) = if full {
        (DIRS.to_vec(), (0..N_BASE).collect(), (0..N_KIND).collect())
    } else {
        (vec!["/", "/../", "/l/"], vec![0, 1, 2, 4, 5, 6, 7, 8, 9], vec![0, 1, 5, 6, 7, 8, 9])
    };
    for d in &dirs {
        for b in &bases {
            for k in &kinds {
                v.push(Shape { dir: d, base: *b, kind: *k });
            }
        }
    }
    v
}

fn materialise(s: &Shape, jail: &Jail) -> FFile {
    let base = match s.base {
        0 => "f".to_string(),
        1 => "l".to_string(),
        2 => "..".to_string(),
        3 => "../f".to_string(),
        4 => String::new(),
        5 => format!("{}/x", jail.outside_dir()),
        6 => "l/f".to_string(),
        7 => "l/s/f".to_string(),
        8 => "s.tmp".to_string(),
        _ => "s.txt".to_string(),
    };
    let link = |t: &str| FFile::symlink(s.dir, &base, t);
    match s.kind {
        0 => FFile::regular(s.dir, &base, b"DATA"),
        1 => FFile::dir(s.dir, &base, 0o700), // differs from the mode of the directories outside the target
        2 => link("f"),
        3 => link(".."),
        4 => link("../.."),
        5 => link("../../outside.txt"),
        6 => link("../../outside-dir"),
        7 => link(&jail.outside_dir()),
        9 => link("../../dangling"), // names nothing yet; its parent directory exists outside the target
        _ => {
            let mut f = FFile::regular(s.dir, &base, b"DATA");
            f.mode = 0o010644; // fifo
            f
        }
    }
}

fn mechanism(files: &[FFile]) -> &'static str {
    let dotdot = files.iter().any(|f| f.path().split('/').any(|c| c == ".."));
    let mut via_link = false;
    for (i, f) in files.iter().enumerate() {
        if f.mode & 0o170000 == 0o120000 {
            let p = f.path();
            if files[i + 1..].iter().any(|g| g.path() == p || g.path().starts_with(&format!("{}/", p))) {
                via_link = true;
            }
        }
    }
    match (dotdot, via_link) {
        (true, true) => "dotdot-component+symlink-then-entry",
        (true, false) => "dotdot-component",
        (false, true) => "symlink-then-entry",
        (false, false) => "other",
    }
}

fn hostile_case(sub: &str, jail: &Jail, shapes: &[&Shape], stripped: bool, dest: u8, rank: u64, acc: &mut Acc) {
    let files: Vec<FFile> = shapes.iter().map(|s| materialise(s, jail)).collect();

    hostile_files(sub, jail, files, stripped, dest, rank, acc)
}

fn hostile_files(sub: &str, jail: &Jail, mut files: Vec<FFile>, stripped: bool, dest: u8, rank: u64, acc: &mut Acc) {
    // regular entries carry contents of different lengths, the earlier the longer (two entries of one path: the result must be
    // one of the two contents, not a mixture)
    const CONTENTS: [&[u8]; 3] = [b"FIRST-ENTRY-WITH-THE-LONGEST-CONTENT", b"second entry", b"3rd"];
    for (k, f) in files.iter_mut().enumerate() {
        if f.mode & 0o170000 == 0o100000 {
            f.content = CONTENTS[k.min(2)].to_vec();
        }
    }
    acc.evals += 1;
    jail.reset();
    let order: Vec<usize> = (0..files.len()).collect();
    // stripped entries address header files by index, so two header files of the same path are both processed
    let x = if stripped {
        foreign::package("hostile", &files, foreign::stripped_archive(&files, &order), None, true).join().0
    } else {
        foreign::package("hostile", &files, foreign::newc_archive(&files, &order), None, false).join().0
    };
    let describe = || json!({"entries": files.iter().map(|f| json!({"dirname": f.dir, "basename": f.base.replace(&jail.outside_dir(), "<jail>/outside-dir"), "mode": format!("{:o}", f.mode), "linkto": f.linkto.replace(&jail.outside_dir(), "<jail>/outside-dir")})).collect::<Vec<_>>(),
                             "archive": if stripped { "stripped entries (by file index)" } else { "newc entries (by name)" },
                             "extract_destination": Jail::dest_name(dest),
                             "jail": "<jail>/{cwd (process cwd), t/ (parent of the target 't/target'), alias -> t, outside.txt, outside-dir/{keep, f -> keep, l -> keep, s.txt -> keep}}"});
    let p = match parse_pkg(&x) {
        Ok(Ok(p)) => p,
        _ => {
            acc.count("package rejected by the parser");
            return;
        }
    };
    jail.prepare(dest);
    let before = jail.snapshot();
    let r = catch(|| p.extract(jail.target_arg(dest)));
    let after = jail.snapshot();
    acc.nontrivial += 1;
    match &r {
        Err(pn) => acc.viol(panic_violation(sub, pn, describe()).sig("mechanism", if files.iter().any(|f| ![0o100000, 0o040000, 0o120000].contains(&(f.mode & 0o170000))) { "special-file-type" } else { "other" }).rank(rank)),
        Ok(Ok(())) => acc.count("extract: Ok"),
        Ok(Err(_)) => acc.count("extract: Err"),
    }
    if before != after {
        let mut diff = vec![];
        for (k, v) in &after {
            match before.get(k) {
                None => diff.push(format!("created {}", k)),
                Some(b) if b != v => diff.push(format!("modified {} ({:?} → {:?})", k, (b.0, b.1, String::from_utf8_lossy(&b.2)), (v.0, v.1, String::from_utf8_lossy(&v.2)))),
                _ => {}
            }
        }
        for k in before.keys() {
            if !after.contains_key(k) {
                diff.push(format!("removed {}", k));
            }
        }
        acc.viol(
            Violation::new(sub, format!("extraction changed the file system outside the target: {}", diff.join("; ")), describe())
                .sig("clause", "outside-target-touched")
                .sig("mechanism", mechanism(&files))
                .rank(rank),
        );
    }
    // inside the target: a regular file at a path that entries of the package name holds the content of one of them
    if let Ok(Ok(())) = &r {
        let t = jail.target();
        for f in &files {
            if f.mode & 0o170000 != 0o100000 {
                continue;
            }
            let p = f.path();
            if p.split('/').any(|c| c == "..") || p.contains(&jail.outside_dir()) {
                continue;
            }
            let at = t.join(p.trim_start_matches('/'));
            if let Ok(md) = std::fs::symlink_metadata(&at) {
                if md.is_file() {
                    let got = std::fs::read(&at).unwrap_or_default();
                    // (archive entries are paired with header entries by name, so the data of any entry of that path may end up there)
                    let candidates: Vec<&FFile> = files.iter().filter(|g| g.path().trim_start_matches('/') == p.trim_start_matches('/')).collect();
                    if !candidates.iter().any(|g| g.archive_data() == got || (g.mode & 0o170000 == 0o040000 && got.is_empty())) {
                        acc.viol(
                            Violation::new(sub, format!("{} holds {:?} after extraction, which is the content of none of the package's entries for that path", p, String::from_utf8_lossy(&got)), describe())
                                .sig("clause", "content")
                                .sig("mechanism", "duplicate-path")
                                .rank(rank),
                        );
                    }
                }
            }
        }
    }
    if rank % 499 == 0 {
        acc.sample(rank, describe);
    }
}

// ------------------------------------------------------------------ benign subset: file-system model

/// What a package says must exist under the target, from an independent decoding.
pub fn model(x: &[u8]) -> Option<Vec<(String, u16, Vec<u8>, String)>> {
    let (_, _, hdr, l) = scan(x)?;
    let get = |tag: u32| hdr.entries.iter().skip(1).find(|e| e.tag == tag).and_then(|e| value(e, &hdr.store).ok());
    let strs = |v: Option<Val>| match v {
        Some(Val::StrArray(a)) => a.iter().map(|s| String::from_utf8_lossy(s).to_string()).collect::<Vec<_>>(),
        _ => vec![],
    };
    let base = strs(get(1117));
    let dirs = strs(get(1118));
    let idx = match get(1116) {
        Some(Val::Int32(v)) => v,
        _ => vec![],
    };
    let modes = match get(1030) {
        Some(Val::Int16(v)) => v,
        _ => vec![],
    };
    let links = strs(get(1036));
    let sizes: Vec<u64> = match (get(5008), get(1028)) {
        (Some(Val::Int64(v)), _) => v,
        (_, Some(Val::Int32(v))) => v.iter().map(|x| *x as u64).collect(),
        _ => vec![],
    };
    let comp = match get(1125) {
        Some(Val::Str(s)) => Some(String::from_utf8_lossy(&s).to_string()),
        _ => None,
    };
    let arch = decompress(comp.as_deref(), &x[l.payload_off..]).ok()?;
    let (ents, _) = read_archive(&arch, &sizes).ok()?;
    let paths: Vec<String> = (0..base.len()).map(|i| format!("{}{}", dirs.get(idx[i] as usize).cloned().unwrap_or_default(), base[i])).collect();
    let mut out = vec![];
    for e in ents {
        let (i, data) = match e {
            Ent::Stripped { index, data } => (index as usize, data),
            Ent::Newc(c) => {
                let name = String::from_utf8_lossy(&c.name).to_string();
                // compare component by component: redundant '/' and '.' components do not name another file
                let comps = |s: &str| s.split('/').filter(|c| !c.is_empty() && *c != ".").map(|c| c.to_string()).collect::<Vec<_>>();
                let n = comps(&name);
                (paths.iter().position(|p| comps(p) == n)?, c.data)
            }
        };
        out.push((paths[i].clone(), modes[i], data, links[i].clone()));
    }
    Some(out)
}

fn benign_case(sub: &str, jail: &Jail, x: &[u8], umask: u32, dest: u8, rank: u64, case: &dyn Fn() -> Value, acc: &mut Acc) {
    acc.evals += 1;
    jail.reset();
    let Some(want) = model(x) else {
        acc.count("model cannot decode the package (not judged)");
        return;
    };
    let Ok(Ok(p)) = parse_pkg(x) else { return };
    let before = jail.snapshot();
    // the process-wide umask is safe to change: C12 workers are single-threaded
    let old = unsafe { libc::umask(umask as libc::mode_t) };
    let r = catch(|| p.extract(jail.target_arg(dest)));
    unsafe { libc::umask(old) };
    let mut bad = |clause: &str, what: String| {
        acc.viol(Violation::new(sub, what, case()).sig("clause", clause).rank(rank));
    };
    match r {
        Err(pn) => return bad("no-panic", format!("extract panics at {}", pn.at)),
        Ok(Err(e)) => return bad("benign-extraction-fails", format!("extraction of a well-formed package fails: {}", e)),
        Ok(Ok(())) => {}
    }
    if jail.snapshot() != before {
        bad("outside-target-touched", "extraction of a benign package changed something outside the target".into());
    }
    let t = jail.target();
    for (path, mode, data, link) in &want {
        let at = t.join(path.trim_start_matches('/'));
        let md = match std::fs::symlink_metadata(&at) {
            Ok(m) => m,
            Err(_) => {
                bad("entry-missing", format!("{} is in the package but not at {}", path, at.display()));
                continue;
            }
        };
        match mode & 0o170000 {
            0o100000 => {
                if !md.is_file() || std::fs::read(&at).ok().as_deref() != Some(&data[..]) {
                    bad("content", format!("{}: content differs from the archived content", path));
                }
                if md.permissions().mode() & 0o7777 != (*mode as u32 & 0o7777) {
                    bad("permissions", format!("{}: mode {:o}, package says {:o}", path, md.permissions().mode() & 0o7777, mode & 0o7777));
                }
            }
            0o040000 => {
                if !md.is_dir() {
                    bad("kind", format!("{} should be a directory", path));
                } else if md.permissions().mode() & 0o7777 != (*mode as u32 & 0o7777) {
                    bad("permissions", format!("{}: mode {:o}, package says {:o}", path, md.permissions().mode() & 0o7777, mode & 0o7777));
                }
            }
            0o120000 => {
                if !md.file_type().is_symlink() || std::fs::read_link(&at).ok().map(|l| l.to_string_lossy().to_string()).as_deref() != Some(link.as_str()) {
                    bad("link-target", format!("{} should be a symbolic link to {:?}", path, link));
                }
            }
            _ => {}
        }
    }
    acc.nontrivial += 1;
    acc.count(&format!("{} entries checked", want.len().min(9)));
}

fn benign_specs() -> Vec<BuildSpec> {
    let mut v = vec![crate::corpus::rich(), crate::corpus::sizes(), crate::corpus::one_file()];
    let mut g = crate::corpus::rich();
    g.compression = Comp::Gzip(6);
    v.push(g);
    let mut l = crate::corpus::rich();
    l.large_files = true;
    v.push(l);
    // all permission bits
    for perm in [0o0u16, 0o600, 0o644, 0o755, 0o1777, 0o2755, 0o4755, 0o7777] {
        let mut s = BuildSpec::minimal();
        s.name = format!("perm{:o}", perm);
        let mut f = FileSpec::new("/p/file", Content::Bytes(b"perm".to_vec()));
        f.mode = ModeSpec::Regular(perm);
        let mut d = FileSpec::new("/p/dir", Content::Bytes(vec![]));
        d.mode = ModeSpec::Dir(perm | 0o700);
        // an explicitly packaged directory that holds other packaged files (so its path is also one of the directory names)
        let mut holder = FileSpec::new("/p/holder", Content::Bytes(vec![]));
        holder.mode = ModeSpec::Dir(perm | 0o700);
        let inner = FileSpec::new("/p/holder/inner", Content::Bytes(b"inner".to_vec()));
        let mut sub = FileSpec::new("/p/holder/sub", Content::Bytes(vec![]));
        sub.mode = ModeSpec::Dir((perm & 0o777) | 0o710);
        let subfile = FileSpec::new("/p/holder/sub/x", Content::Bytes(b"x".to_vec()));
        let mut deep = FileSpec::new("/p/a/b/c/deep", Content::Text(10));
        deep.mode = ModeSpec::Inherit(0o644);
        let mut ln = FileSpec::new("/p/ln", Content::Bytes(vec![]));
        ln.mode = ModeSpec::Symlink(0o777);
        ln.symlink = Some("a/b/c/deep".into());
        let mut dangling = FileSpec::new("/p/dangling", Content::Bytes(vec![]));
        dangling.mode = ModeSpec::Symlink(0o777);
        dangling.symlink = Some("/nonexistent/target".into());
        let top = FileSpec::new("/top-level", Content::Bytes(b"t".to_vec()));
        let tmp = FileSpec::new("/p/settings.tmp", Content::Bytes(b"tmp".to_vec()));
        let toml = FileSpec::new("/p/settings.toml", Content::Bytes(b"toml".to_vec()));
        let bak = FileSpec::new("/p/settings.toml.bak", Content::Bytes(b"bak".to_vec()));
        // hidden names next to their plain twins, at the top level and below
        let hidden: Vec<FileSpec> = ["/.config/settings", "/config/settings", "/.hidden", "/hidden", "/p/.hidden", "/p/hidden", "/..data/x", "/.data/x"]
            .iter()
            .map(|p| FileSpec::new(p, Content::Bytes(format!("content of {}", p).into_bytes())))
            .collect();
        s.files = vec![f, d, holder, inner, sub, subfile, deep, ln, dangling, top, tmp, toml, bak];
        s.files.extend(hidden);
        // destinations that are not in their shortest form
        for (p, dirmode) in [("/ns/demo//bin/tool.py", false), ("/ns/./demo/lib/x", false), ("/ns/demo/data/", true), ("//ns2/y", false)] {
            let mut f = FileSpec::new(p, Content::Bytes(if dirmode { vec![] } else { format!("content of {}", p).into_bytes() }));
            if dirmode {
                f.mode = ModeSpec::Dir(0o750);
            }
            s.files.push(f);
        }
        // paths that are tails / prefixes of one another, the relative './' spelling, names that differ in case
        for p in ["/opt/app/share/doc/README", "/share/doc/README", "/README", "./.rel/.hidden/x", "/rel/hidden/x", "/q/File", "/q/file", "/lib/x", "/lib-1.0/y", "/lib.d/z"] {
            s.files.push(FileSpec::new(p, Content::Bytes(format!("content of {}", p).into_bytes())));
        }
        v.push(s);
    }
    v
}

pub fn sweeps(ctx: &Ctx) -> Vec<Sweep> {
    let mut v = vec![];
    let full = alphabet(true);
    let reduced = alphabet(false);
    // singles over the full alphabet
    {
        let a = full.clone();
        let n = a.len() as u64 * 8;
        v.push(Sweep::new("hostile-1", format!("every single entry of the alphabet: dirname ∈ {:?} × basename ∈ {{f, l, .., ../f, \"\", absolute path inside the jail, l/f, l/s/f, s.tmp, s.txt}} × kind ∈ {{regular, directory, symlink → f | .. | ../.. | ../../outside.txt | ../../outside-dir | absolute jail path | ../../dangling (not existing), fifo}} ({} extractions: each as a newc archive and as stripped index-addressed entries, into an absolute destination, a relative one, an absolute one that leads through a symbolic link above the target, and a target that exists already and holds links leading out of it); snapshot of everything outside the target before/after extract; no panic", DIRS, n), n, {
            let jail = Jail::new("h1");
            move |i, acc| hostile_case("hostile-1", &jail, &[&a[(i / 8) as usize]], i % 2 == 1, (i % 8 / 2) as u8, i, acc)
        }));
    }
    // ordered pairs
    {
        let a = if ctx.thorough() { full.clone() } else { reduced.clone() };
        let m = a.len() as u64;
        v.push(Sweep::new("hostile-2", format!("every ordered pair of entries over the {} alphabet ({} entries → {} packages): e.g. a symbolic link followed by a file of the same path or below it, duplicate paths, '..' in directory and base names, names that differ only in their extension; each as newc and as stripped archive, into an absolute and into a relative destination", if ctx.thorough() { "full" } else { "reduced" }, m, m * m), m * m * 4, {
            let jail = Jail::new("h2");
            move |j, acc| {
                let (i, stripped, dest) = (j / 4, j % 2 == 1, (j % 4 / 2) as u8);
                hostile_case("hostile-2", &jail, &[&a[(i / m) as usize], &a[(i % m) as usize]], stripped, dest, j, acc)
            }
        }));
    }
    if ctx.thorough() {
        // ordered triples: the whole reduced alphabet as newc archives, a designed core in both layouts
        let a = reduced.clone();
        let m = a.len() as u64;
        v.push(Sweep::new("hostile-3", format!("every ordered triple of entries over the reduced {}-entry alphabet ({} packages, newc archives)", m, m * m * m), m * m * m, {
            let jail = Jail::new("h3");
            move |i, acc| hostile_case("hostile-3", &jail, &[&a[(i / m / m) as usize], &a[(i / m % m) as usize], &a[(i % m) as usize]], false, 0, i, acc)
        }));
        let core: Vec<Shape> = full.iter().filter(|s| ["/", "/l/"].contains(&s.dir) && [0u8, 1, 4, 6, 8, 9].contains(&s.base) && [0u8, 1, 5, 6, 9].contains(&s.kind)).cloned().collect();
        let c = core.len() as u64;
        v.push(Sweep::new("hostile-3-core", format!("every ordered triple over a {}-entry core (directories / and /l/ × names f, l, \"\", l/f, s.tmp, s.txt × regular, directory, links to an outside file, an outside directory, a dangling name) as stripped archive and, into a relative destination, as newc archive ({} extractions)", c, c * c * c * 2), c * c * c * 2, {
            let jail = Jail::new("h3c");
            move |j, acc| {
                let (i, second) = (j / 2, j % 2 == 1);
                hostile_case("hostile-3-core", &jail, &[&core[(i / c / c) as usize], &core[(i / c % c) as usize], &core[(i % c) as usize]], !second, second as u8, j, acc)
            }
        }));
    }
    // packages whose per-file arrays disagree in length (in the main header and in the signature header): no panic, nothing outside
    {
        use vlib::refhdr::Val;
        let env = Env::new(&ctx.repo, "c12m");
        let mut bases: Vec<(String, Vec<u8>)> = vec![];
        for (n, s) in [("boundary sizes (11 files)", crate::corpus::sizes()), ("rich configuration", crate::corpus::rich())] {
            let mut s = s;
            s.compression = Comp::None;
            bases.push((n.to_string(), s.build_bytes(&env).unwrap_or_else(|e| crate::ctx::machinery(&format!("c12 metadata base: {}", e))).1));
        }
        bases.push(("asset with IMA file signatures".to_string(), std::fs::read(ctx.asset("test_assets/ima_signed.rpm")).unwrap_or_else(|e| crate::ctx::machinery(&format!("ima_signed.rpm: {}", e)))));
        // (in the signature header?, tag, kind: 0 = string array, 1 = INT32, 2 = INT16, 3 = INT64)
        const TAGS: [(bool, u32, u8); 20] = [
            (false, 1028, 1), (false, 1030, 2), (false, 1033, 2), (false, 1034, 1), (false, 1035, 0), (false, 1036, 0), (false, 1037, 1), (false, 1039, 0), (false, 1040, 0), (false, 1045, 1),
            (false, 1095, 1), (false, 1096, 1), (false, 1097, 1), (false, 1098, 1), (false, 1116, 1), (false, 1117, 0), (false, 5008, 3), (false, 5010, 0), (true, 274, 0), (false, 1118, 0),
        ];
        let lens = |n: usize| [0usize, 1, n.saturating_sub(1), n + 1, 2 * n + 3];
        let n = (bases.len() * TAGS.len() * 5) as u64;
        v.push(Sweep::new("hostile-metadata", format!("3 packages (two built ones, the asset with per-file IMA signatures) × each of 20 per-file tags (sizes, modes, devices, times, digests, link targets, flags, owners, verify flags, colours, classes, dependency indexes, directory indexes, base names, 64-bit sizes, capabilities, directory names; the file signatures of the signature header) × replaced by an array of 0 (tag absent), 1, n−1, n+1, 2n+3 items: extraction ends with Ok or Err, never a panic, and changes nothing outside the target ({} packages)", n), n, {
            let jail = Jail::new("hm");
            move |i, acc| {
                let (bi, ti, li) = ((i / 100) as usize, (i / 5 % 20) as usize, (i % 5) as usize);
                let (bname, bytes) = &bases[bi];
                let (in_sig, tag, kind) = TAGS[ti];
                acc.evals += 1;
                let Some(mut parts) = crate::pkgtool::split(bytes) else { return acc.count("base cannot be split") };
                let nfiles = match crate::pkgtool::get(&parts.main, 1117) {
                    Some(Val::StrArray(a)) => a.len(),
                    _ => 0,
                };
                let k = lens(nfiles)[li];
                let val = if k == 0 {
                    None
                } else {
                    Some(match kind {
                        0 => Val::StrArray((0..k).map(|j| format!("v{}", j).into_bytes()).collect()),
                        1 => Val::Int32((0..k as u32).map(|j| j % 2).collect()),
                        2 => Val::Int16((0..k).map(|_| 0o100644).collect()),
                        _ => Val::Int64((0..k as u64).collect()),
                    })
                };
                crate::pkgtool::set(if in_sig { &mut parts.sig } else { &mut parts.main }, tag, val);
                let x = parts.join().0;
                let case = || json!({"package": bname, "files": nfiles, "tag": tag, "in": if in_sig { "signature header" } else { "main header" }, "items": k});
                let Ok(Ok(p)) = parse_pkg(&x) else { return acc.count("package rejected by the parser") };
                jail.reset();
                let before = jail.snapshot();
                let r = catch(|| p.extract(jail.target_arg(0)));
                let after = jail.snapshot();
                acc.nontrivial += 1;
                match &r {
                    Err(pn) => acc.viol(panic_violation("hostile-metadata", pn, case()).sig("mechanism", "per-file-array-length").rank(i)),
                    Ok(Ok(())) => acc.count("extract: Ok"),
                    Ok(Err(_)) => acc.count("extract: Err"),
                }
                if before != after {
                    acc.viol(Violation::new("hostile-metadata", "extraction changed the file system outside the target".to_string(), case()).sig("clause", "outside-target-touched").sig("mechanism", "per-file-array-length").rank(i));
                }
                if i % 37 == 0 {
                    acc.sample(i, case);
                }
            }
        }));
    }
    // benign subset
    {
        let env = Env::new(&ctx.repo, "c12");
        let mut pkgs: Vec<(Value, Vec<u8>)> = vec![];
        for s in benign_specs() {
            match s.build_bytes(&env) {
                Ok((_, b)) => pkgs.push((json!({"spec": s.to_json()}), b)),
                Err(e) => crate::ctx::machinery(&format!("benign package does not build: {}", e)),
            }
        }
        for rel in ASSETS {
            pkgs.push((json!({"asset": rel}), std::fs::read(ctx.asset(rel)).unwrap_or_else(|e| crate::ctx::machinery(&format!("{}: {}", rel, e)))));
        }
        // hand-encoded benign packages incl. a %ghost file that is not archived
        let files = foreign::sample_files();
        let order: Vec<usize> = (0..files.len()).collect();
        pkgs.push((json!({"hand-encoded": "sample files"}), foreign::package("hand", &files, foreign::newc_archive(&files, &order), None, false).join().0));
        const UMASKS: [u32; 3] = [0o022, 0o077, 0o000];
        let n = pkgs.len() as u64 * 9;
        v.push(Sweep::new("benign", format!("{} extractions = umask ∈ {{022, 077, 000}} × destination {{absolute, relative to the working directory, absolute through a symbolic link above the target}} × benign packages (library-built: rich configuration plain / gzip / large-file layout, boundary sizes, every class of permission bits incl. setuid / setgid / sticky, packaged directories that hold other packaged files and directories, nested directories, relative and dangling symbolic links, a top-level file; the six assets; a hand-encoded package): extraction succeeds and every regular file, directory and symbolic link the package lists exists at target+path with the archived content, permission bits and link target; nothing outside the target changes", n), n, {
            let jail = Jail::new("bn");
            move |i, acc| {
                let (d, x) = &pkgs[(i / 9) as usize];
                let (um, rel) = (UMASKS[(i % 3) as usize], (i % 9 / 3) as u8);
                let case = || json!({"package": d, "umask": format!("{:03o}", um), "extract_destination": Jail::dest_name(rel)});
                benign_case("benign", &jail, x, um, rel, i, &case, acc);
                acc.sample(i, case);
            }
        }));
    }
    v
}

pub fn run(ctx: &Ctx) -> i32 {
    let mut subs: Vec<SubReport> = vec![];
    for s in sweeps(ctx) {
        let (mut sub, events) = run_sweep(ctx, &s);
        for e in &events {
            sub.acc.viol(
                Violation::new(&s.name, format!("worker {} on case {}: {}", e.kind, e.index, e.stderr_tail.lines().last().unwrap_or("")), json!({"sweep": s.name, "index": e.index}))
                    .sig("clause", if e.kind == "hang" { "no-hang" } else { "no-abort" })
                    .rank(e.index),
            );
        }
        subs.push(sub);
    }
    for s in &subs {
        if s.acc.nontrivial == 0 && s.acc.viols.is_empty() {
            crate::ctx::machinery(&format!("sub-check {} judged nothing: vacuous", s.name));
        }
    }
    ctx.finish(
        "exploration",
        subs,
        &[
            "escapes that would leave the jail are excluded from the alphabet by construction (they cannot be observed safely): every escape shape is represented by a jail-internal instance (≤ 2 levels up, jail-internal absolute paths)",
            "Linux file-system semantics; the checks run as the invoking user (root in this sandbox), single-threaded per jail",
            "permission bits and contents of the entries the package lists are compared, not those of parent directories created on the way",
        ],
        vec![],
    )
}

/// Re-runs one hostile case from its entry list in a fresh jail (a plain, explorer-free reproduction).
pub fn replay(_ctx: &Ctx, v: &Value) -> i32 {
    let c = &v["case"];
    let Some(entries) = c["entries"].as_array() else {
        println!("not a hostile entry list (benign cases: re-run ./check C12):\n{}", serde_json::to_string_pretty(c).unwrap_or_default());
        return 0;
    };
    let jail = Jail::new("replay");
    let sub_out = |t: &str| t.replace("<jail>/outside-dir", &jail.outside_dir());
    let mut files = vec![];
    for e in entries {
        let dir = e["dirname"].as_str().unwrap_or("/");
        let base = sub_out(e["basename"].as_str().unwrap_or(""));
        let mode = u16::from_str_radix(e["mode"].as_str().unwrap_or("100644"), 8).unwrap_or(0o100644);
        let f = match mode & 0o170000 {
            0o120000 => FFile::symlink(dir, &base, &sub_out(e["linkto"].as_str().unwrap_or(""))),
            0o040000 => FFile::dir(dir, &base, mode & 0o7777),
            _ => {
                let mut f = FFile::regular(dir, &base, b"DATA");
                f.mode = mode;
                f
            }
        };
        files.push(f);
    }
    let stripped = c["archive"].as_str().map(|a| a.starts_with("stripped")).unwrap_or(false);
    let relative = c["extract_destination"].as_str().map(|a| if a.starts_with("../") { 1u8 } else if a.contains("alias") { 2 } else if a.contains("exists already") { 3 } else { 0 }).unwrap_or(0);
    let mut acc = Acc::new();
    hostile_files("replay", &jail, files, stripped, relative, 0, &mut acc);
    for (k, n) in &acc.hist {
        println!("{}: {}", k, n);
    }
    for v in acc.viols.values() {
        println!("REPRODUCED {}: {}", v.key(), v.what);
    }
    if acc.viols.is_empty() {
        println!("not reproduced: nothing outside the target changed and extract did not panic");
        0
    } else {
        1
    }
}
