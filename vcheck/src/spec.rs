//! A plain description of a builder configuration: the reference model of
//! "what was given to the builder" (C06), and the generator for the package
//! corpus shared by C01/C07/C08/C09/C10/C11/C16.
#![allow(dead_code)]
use crate::keys::Key;
use rpm::{CompressionWithLevel, Dependency, FileMode, FileOptions, Package, PackageBuilder, Scriptlet, ScriptletFlags};
use serde_json::{json, Value};
use std::collections::{BTreeMap, HashMap};
use std::path::{Path, PathBuf};
use std::sync::Mutex;

#[derive(Clone, Debug, PartialEq, Eq, Hash)]
pub enum Content {
    Bytes(Vec<u8>),
    /// `len` bytes of a fixed pseudo-random stream (incompressible)
    Noise(usize),
    /// `len` bytes of a short repeating text (compressible)
    Text(usize),
    /// a kernel-backed source (`/proc/sys/kernel/ostype`): stat reports size 0, reading yields "Linux\n";
    /// mode 0444, modification time decided by the kernel (later than any source date used here)
    Kernel,
    /// the generated file reached through a symbolic link
    Linked(Box<Content>),
    /// the generated file named by a path relative to the process's working directory
    Relative(Box<Content>),
}

pub const KERNEL_SOURCE: &str = "/proc/sys/kernel/ostype";

impl Content {
    pub fn materialize(&self) -> Vec<u8> {
        match self {
            Content::Bytes(b) => b.clone(),
            Content::Noise(n) => {
                let mut x: u64 = 0x243F6A8885A308D3 ^ (*n as u64);
                let mut out = Vec::with_capacity(*n);
                while out.len() < *n {
                    x ^= x << 13;
                    x ^= x >> 7;
                    x ^= x << 17;
                    let w = x.to_le_bytes();
                    let k = (*n - out.len()).min(8);
                    out.extend_from_slice(&w[..k]);
                }
                out
            }
            Content::Text(n) => b"the quick brown fox jumps over the lazy dog\n".iter().cycle().take(*n).copied().collect(),
            Content::Kernel => std::fs::read(KERNEL_SOURCE).unwrap_or_else(|e| crate::ctx::machinery(&format!("{}: {}", KERNEL_SOURCE, e))),
            Content::Linked(c) | Content::Relative(c) => c.materialize(),
        }
    }
    /// false if the source's modification time is not under the harness's control
    pub fn mtime_known(&self) -> bool {
        !matches!(self, Content::Kernel)
    }
    pub fn len(&self) -> usize {
        match self {
            Content::Bytes(b) => b.len(),
            Content::Noise(n) | Content::Text(n) => *n,
            Content::Kernel => self.materialize().len(),
            Content::Linked(c) | Content::Relative(c) => c.len(),
        }
    }
    pub fn to_json(&self) -> Value {
        match self {
            Content::Bytes(b) if b.len() <= 64 => json!({"bytes_hex": vlib::hex(b)}),
            Content::Bytes(b) => json!({"bytes_len": b.len(), "sha256": crate::oracles::sha256_hex(b)}),
            Content::Noise(n) => json!({"noise": n}),
            Content::Text(n) => json!({"text": n}),
            Content::Kernel => json!({"kernel_file": KERNEL_SOURCE}),
            Content::Linked(c) => json!({"through_symlink": c.to_json()}),
            Content::Relative(c) => json!({"relative_source_path": c.to_json()}),
        }
    }
}

#[derive(Clone, Debug, PartialEq, Eq)]
pub enum ModeSpec {
    /// inherit from a source file that has these permission bits
    Inherit(u32),
    Regular(u16),
    Dir(u16),
    Symlink(u16),
    /// FileOptions::mode(<integer>) as given (e.g. permission bits without type bits)
    Raw(i32),
}

impl ModeSpec {
    /// the 16-bit mode word the header and the cpio entry must carry
    pub fn expected_word(&self) -> u16 {
        match self {
            ModeSpec::Inherit(p) => 0o100000 | (*p as u16 & 0o7777),
            ModeSpec::Regular(p) => 0o100000 | (p & 0o7777),
            ModeSpec::Dir(p) => 0o040000 | (p & 0o7777),
            ModeSpec::Symlink(p) => 0o120000 | (p & 0o7777),
            ModeSpec::Raw(m) => *m as u16,
        }
    }
}

#[derive(Clone, Debug)]
pub struct FileSpec {
    pub dest: String,
    pub content: Content,
    pub mode: ModeSpec,
    pub user: Option<String>,
    pub group: Option<String>,
    /// subset of config, noreplace, doc, ghost, license, readme
    pub flags: Vec<&'static str>,
    pub caps: Option<String>,
    pub symlink: Option<String>,
    pub mtime: u32,
    /// Some(bits): FileOptions::verify is called with these %verify flags (default: not called = all flags)
    pub verify: Option<u32>,
}

impl FileSpec {
    pub fn new(dest: &str, content: Content) -> Self {
        FileSpec {
            dest: dest.into(),
            content,
            mode: ModeSpec::Inherit(0o644),
            user: None,
            group: None,
            flags: vec![],
            caps: None,
            symlink: None,
            verify: None,
            mtime: 1_500_000_000,
        }
    }
    pub fn expected_flags(&self) -> u32 {
        let mut f = 0u32;
        for x in &self.flags {
            f |= match *x {
                "config" => 1,
                "doc" => 1 << 1,
                "noreplace" => 1 | (1 << 4),
                "ghost" => 1 << 6,
                "license" => 1 << 7,
                "readme" => 1 << 8,
                _ => 0,
            };
        }
        f
    }
    /// the absolute path the header must report
    pub fn expected_path(&self) -> String {
        if let Some(r) = self.dest.strip_prefix('.') {
            r.to_string()
        } else {
            self.dest.clone()
        }
    }
    pub fn to_json(&self) -> Value {
        json!({"dest": self.dest, "content": self.content.to_json(), "mode": format!("{:?}", self.mode), "user": self.user, "group": self.group,
               "flags": self.flags, "caps": self.caps, "symlink": self.symlink, "mtime": self.mtime, "verify_flags": self.verify})
    }
}

#[derive(Clone, Debug, PartialEq)]
pub struct ScriptSpec {
    pub script: String,
    pub flags: Option<u32>,
    pub prog: Option<Vec<String>>,
}

impl ScriptSpec {
    fn make(&self) -> Scriptlet {
        let mut s = Scriptlet::new(self.script.clone());
        if let Some(f) = self.flags {
            s = s.flags(ScriptletFlags::from_bits_retain(f));
        }
        if let Some(p) = &self.prog {
            s = s.prog(p.clone());
        }
        s
    }
}

pub const SCRIPT_KINDS: [&str; 9] = ["pre_install", "post_install", "pre_uninstall", "post_uninstall", "pre_trans", "post_trans", "pre_untrans", "post_untrans", "verify"];
pub const DEP_KINDS: [&str; 8] = ["provides", "requires", "conflicts", "obsoletes", "recommends", "suggests", "enhances", "supplements"];

#[derive(Clone, Debug, PartialEq)]
pub struct DepSpec {
    pub ctor: &'static str,
    pub name: String,
    pub version: String,
}

impl DepSpec {
    /// a dependency written as a struct literal with the given flag bits: the constructor name is "literal:<bits>"
    pub fn literal(bits: u32, name: &str, version: &str) -> DepSpec {
        DepSpec { ctor: Box::leak(format!("literal:{}", bits).into_boxed_str()), name: name.to_string(), version: version.to_string() }
    }
    fn literal_bits(&self) -> Option<u32> {
        self.ctor.strip_prefix("literal:").and_then(|b| b.parse().ok())
    }
    pub fn make(&self) -> Dependency {
        if let Some(bits) = self.literal_bits() {
            return Dependency { name: self.name.clone(), flags: rpm::DependencyFlags::from_bits_retain(bits), version: self.version.clone() };
        }
        match self.ctor {
            "any" => Dependency::any(self.name.clone()),
            "eq" => Dependency::eq(self.name.clone(), self.version.clone()),
            "less" => Dependency::less(self.name.clone(), self.version.clone()),
            "less_eq" => Dependency::less_eq(self.name.clone(), self.version.clone()),
            "greater" => Dependency::greater(self.name.clone(), self.version.clone()),
            "greater_eq" => Dependency::greater_eq(self.name.clone(), self.version.clone()),
            "script_pre" => Dependency::script_pre(self.name.clone()),
            "script_post" => Dependency::script_post(self.name.clone()),
            "script_preun" => Dependency::script_preun(self.name.clone()),
            "script_postun" => Dependency::script_postun(self.name.clone()),
            "rpmlib" => Dependency::rpmlib(self.name.clone(), self.version.clone()),
            "config" => Dependency::config(&self.name, self.version.clone()),
            "user" => Dependency::user(&self.name),
            "group" => Dependency::group(&self.name),
            other => crate::ctx::machinery(&format!("unknown dependency constructor {}", other)),
        }
    }
    /// (name, flag bits, version) as documented for each constructor
    pub fn expected(&self) -> (String, u32, String) {
        if let Some(bits) = self.literal_bits() {
            return (self.name.clone(), bits, self.version.clone());
        }
        let (l, g, e) = (1u32 << 1, 1u32 << 2, 1u32 << 3);
        match self.ctor {
            "any" => (self.name.clone(), 0, String::new()),
            "eq" => (self.name.clone(), e, self.version.clone()),
            "less" => (self.name.clone(), l, self.version.clone()),
            "less_eq" => (self.name.clone(), l | e, self.version.clone()),
            "greater" => (self.name.clone(), g, self.version.clone()),
            "greater_eq" => (self.name.clone(), g | e, self.version.clone()),
            "script_pre" => (self.name.clone(), 1 << 9, String::new()),
            "script_post" => (self.name.clone(), 1 << 10, String::new()),
            "script_preun" => (self.name.clone(), 1 << 11, String::new()),
            "script_postun" => (self.name.clone(), 1 << 12, String::new()),
            "rpmlib" => (format!("rpmlib({})", self.name), (1 << 24) | e, self.version.clone()),
            "config" => (format!("config({})", self.name), (1 << 28) | e, self.version.clone()),
            "user" => (format!("user({})", self.name), (1 << 9) | (1 << 12), String::new()),
            "group" => (format!("group({})", self.name), (1 << 9) | (1 << 12), String::new()),
            _ => (self.name.clone(), 0, String::new()),
        }
    }
}

#[derive(Clone, Copy, Debug, PartialEq, Eq)]
pub enum Comp {
    Default,
    None,
    Gzip(u32),
    Zstd(i32),
    Xz(u32),
}

impl Comp {
    pub fn name(&self) -> Option<&'static str> {
        match self {
            Comp::None => None,
            Comp::Gzip(_) => Some("gzip"),
            Comp::Zstd(_) | Comp::Default => Some("zstd"),
            Comp::Xz(_) => Some("xz"),
        }
    }
}

#[derive(Clone, Debug)]
pub struct BuildSpec {
    pub name: String,
    pub version: String,
    pub license: String,
    pub arch: String,
    pub summary: String,
    pub release: Option<String>,
    pub epoch: Option<u32>,
    pub description: Option<String>,
    pub vendor: Option<String>,
    pub packager: Option<String>,
    pub group: Option<String>,
    pub url: Option<String>,
    pub vcs: Option<String>,
    pub cookie: Option<String>,
    pub build_host: Option<String>,
    pub scripts: BTreeMap<&'static str, ScriptSpec>,
    pub deps: BTreeMap<&'static str, Vec<DepSpec>>,
    pub changelog: Vec<(String, String, u32)>,
    pub files: Vec<FileSpec>,
    pub compression: Comp,
    pub source_date: Option<u32>,
    pub sign: Option<Key>,
    pub large_files: bool,
    /// Some(seconds east): changelog times and the source date are handed over as
    /// chrono::DateTime<FixedOffset> values in that zone (the same instants)
    pub chrono_offset: Option<i32>,
    /// values given to a setter earlier and overwritten by a later call of the same setter: the real
    /// builder is driven through the same sequence of calls (the earlier value must leave no trace)
    pub overwritten: Vec<Overwritten>,
    /// the builder is started with `PackageBuilder::default()` instead of `new(..)` (the five required texts are then empty)
    pub from_default: bool,
}

#[derive(Clone, Debug)]
pub enum Overwritten {
    Text(&'static str, String),
    Epoch(u32),
    Script(&'static str, ScriptSpec),
    Compression(Comp),
}

impl BuildSpec {
    pub fn minimal() -> Self {
        BuildSpec {
            name: "pkg".into(),
            version: "1.0".into(),
            license: "MIT".into(),
            arch: "noarch".into(),
            summary: "sum".into(),
            release: None,
            epoch: None,
            description: None,
            vendor: None,
            packager: None,
            group: None,
            url: None,
            vcs: None,
            cookie: None,
            build_host: None,
            scripts: BTreeMap::new(),
            deps: BTreeMap::new(),
            changelog: vec![],
            files: vec![],
            compression: Comp::None,
            source_date: Some(1_600_000_000),
            sign: None,
            large_files: false,
            chrono_offset: None,
            overwritten: vec![],
            from_default: false,
        }
    }

    pub fn to_json(&self) -> Value {
        // very long texts are described, not repeated
        let long = |t: &Option<String>| match t {
            Some(x) if x.len() > 200_000 => json!({"chars": x.chars().count(), "bytes": x.len(), "first": x.chars().take(12).collect::<String>(), "sha256": hex::encode(<sha2::Sha256 as sha2::Digest>::digest(x.as_bytes()))}),
            other => json!(other),
        };
        json!({
            "name": self.name, "version": self.version, "license": self.license, "arch": self.arch, "summary": self.summary,
            "release": self.release, "epoch": self.epoch, "description": long(&self.description), "vendor": self.vendor,
            "packager": self.packager, "group": self.group, "url": self.url, "vcs": self.vcs, "cookie": self.cookie,
            "build_host": self.build_host,
            "scripts": self.scripts.iter().map(|(k, s)| (k.to_string(), json!({"script": s.script, "flags": s.flags, "prog": s.prog}))).collect::<BTreeMap<_, _>>(),
            "deps": self.deps.iter().map(|(k, v)| (k.to_string(), v.iter().map(|d| json!([d.ctor, d.name, d.version])).collect::<Vec<_>>())).collect::<BTreeMap<_, _>>(),
            "changelog": self.changelog,
            "files": self.files.iter().map(|f| f.to_json()).collect::<Vec<_>>(),
            "compression": format!("{:?}", self.compression),
            "source_date": self.source_date,
            "sign": self.sign.map(|k| k.name()),
            "large_files": self.large_files,
            "timestamps_as_chrono_with_offset": self.chrono_offset,
            "started_from_Default": self.from_default,
            "earlier_setter_calls_overwritten_later": self.overwritten.iter().map(|o| format!("{:?}", o)).collect::<Vec<_>>(),
        })
    }

    /// Drive the real builder with exactly this configuration.
    pub fn build(&self, env: &Env) -> Result<Package, rpm::Error> {
        let b = self.builder(env)?;
        crate::hooks::set_force_large_files(self.large_files);
        let r = match self.sign {
            None => b.build(),
            Some(k) => b.build_and_sign(env.signer(k)),
        };
        crate::hooks::set_force_large_files(false);
        r
    }

    /// The configured builder, just before `build` / `build_and_sign`.
    pub fn builder(&self, env: &Env) -> Result<PackageBuilder, rpm::Error> {
        let mut b = if self.from_default { PackageBuilder::default() } else { PackageBuilder::new(&self.name, &self.version, &self.license, &self.arch, &self.summary) };
        // earlier calls of setters that are called again below
        for o in &self.overwritten {
            b = match o {
                Overwritten::Text(f, v) => match *f {
                    "release" => b.release(v.clone()),
                    "description" => b.description(v.clone()),
                    "vendor" => b.vendor(v.clone()),
                    "packager" => b.packager(v.clone()),
                    "group" => b.group(v.clone()),
                    "url" => b.url(v.clone()),
                    "vcs" => b.vcs(v.clone()),
                    "cookie" => b.cookie(v),
                    "build_host" => b.build_host(v),
                    other => crate::ctx::machinery(&format!("unknown overwritten field {}", other)),
                },
                Overwritten::Epoch(e) => b.epoch(*e),
                Overwritten::Script(k, sc) => script_call(b, k, sc.make()),
                Overwritten::Compression(c) => compression_call(b, *c),
            };
        }
        if let Some(v) = &self.release {
            b = b.release(v.clone());
        }
        if let Some(v) = self.epoch {
            b = b.epoch(v);
        }
        if let Some(v) = &self.description {
            b = b.description(v.clone());
        }
        if let Some(v) = &self.vendor {
            b = b.vendor(v.clone());
        }
        if let Some(v) = &self.packager {
            b = b.packager(v.clone());
        }
        if let Some(v) = &self.group {
            b = b.group(v.clone());
        }
        if let Some(v) = &self.url {
            b = b.url(v.clone());
        }
        if let Some(v) = &self.vcs {
            b = b.vcs(v.clone());
        }
        if let Some(v) = &self.cookie {
            b = b.cookie(v);
        }
        if let Some(v) = &self.build_host {
            b = b.build_host(v);
        }
        for (k, s) in &self.scripts {
            b = script_call(b, k, s.make());
        }
        for (k, v) in &self.deps {
            for d in v {
                let dep = d.make();
                b = match *k {
                    "provides" => b.provides(dep),
                    "requires" => b.requires(dep),
                    "conflicts" => b.conflicts(dep),
                    "obsoletes" => b.obsoletes(dep),
                    "recommends" => b.recommends(dep),
                    "suggests" => b.suggests(dep),
                    "enhances" => b.enhances(dep),
                    "supplements" => b.supplements(dep),
                    _ => b,
                };
            }
        }
        let zoned = |secs: u32, off: i32| {
            use rpm::chrono::TimeZone;
            rpm::chrono::FixedOffset::east_opt(off).expect("offset").timestamp_opt(secs as i64, 0).single().expect("instant")
        };
        for (n, t, ts) in &self.changelog {
            b = match self.chrono_offset {
                Some(off) => b.add_changelog_entry(n, t, zoned(*ts, off)),
                None => b.add_changelog_entry(n, t, *ts),
            };
        }
        for f in &self.files {
            let perms = match f.mode {
                ModeSpec::Inherit(p) => p,
                _ => 0o600,
            };
            let src = env.source(&f.content, perms, f.mtime);
            let mut o = FileOptions::new(f.dest.clone());
            if let Some(u) = &f.user {
                o = o.user(u.clone());
            }
            if let Some(g) = &f.group {
                o = o.group(g.clone());
            }
            if let Some(s) = &f.symlink {
                o = o.symlink(s.clone());
            }
            match f.mode {
                ModeSpec::Inherit(_) => {}
                ModeSpec::Regular(p) => o = o.mode(FileMode::regular(p)),
                ModeSpec::Dir(p) => o = o.mode(FileMode::dir(p)),
                ModeSpec::Symlink(p) => o = o.mode(FileMode::symbolic_link(p)),
                ModeSpec::Raw(m) => o = o.mode(m),
            }
            if let Some(c) = &f.caps {
                o = o.caps(c.clone())?;
            }
            if let Some(bits) = f.verify {
                o = o.verify(rpm::FileVerifyFlags::from_bits_retain(bits));
            }
            for x in &f.flags {
                o = match *x {
                    "config" => o.is_config(),
                    "doc" => o.is_doc(),
                    "noreplace" => o.is_config_noreplace(),
                    "ghost" => o.is_ghost(),
                    "license" => o.is_license(),
                    "readme" => o.is_readme(),
                    _ => o,
                };
            }
            b = b.with_file(&src, o)?;
        }
        b = compression_call(b, self.compression);
        if let Some(sd) = self.source_date {
            b = match self.chrono_offset {
                Some(off) => b.source_date(zoned(sd, off)),
                None => b.source_date(sd),
            };
        }
        Ok(b)
    }

    pub fn build_bytes(&self, env: &Env) -> Result<(Package, Vec<u8>), String> {
        let p = self.build(env).map_err(|e| e.to_string())?;
        let mut o = vec![];
        p.write(&mut o).map_err(|e| e.to_string())?;
        Ok((p, o))
    }
}

pub fn script_call(b: PackageBuilder, kind: &str, sc: Scriptlet) -> PackageBuilder {
    match kind {
        "pre_install" => b.pre_install_script(sc),
        "post_install" => b.post_install_script(sc),
        "pre_uninstall" => b.pre_uninstall_script(sc),
        "post_uninstall" => b.post_uninstall_script(sc),
        "pre_trans" => b.pre_trans_script(sc),
        "post_trans" => b.post_trans_script(sc),
        "pre_untrans" => b.pre_untrans_script(sc),
        "post_untrans" => b.post_untrans_script(sc),
        "verify" => b.verify_script(sc),
        other => crate::ctx::machinery(&format!("unknown scriptlet kind {}", other)),
    }
}

fn compression_call(b: PackageBuilder, c: Comp) -> PackageBuilder {
    match c {
        Comp::Default => b,
        Comp::None => b.compression(CompressionWithLevel::None),
        Comp::Gzip(l) => b.compression(CompressionWithLevel::Gzip(l)),
        Comp::Zstd(l) => b.compression(CompressionWithLevel::Zstd(l)),
        Comp::Xz(l) => b.compression(CompressionWithLevel::Xz(l)),
    }
}

/// Source files on disk (content, permission bits, mtime) shared by all threads, and loaded keys.
pub struct Env {
    dir: PathBuf,
    files: Mutex<HashMap<(Content, u32, u32), PathBuf>>,
    signers: Mutex<HashMap<&'static str, rpm::signature::pgp::Signer>>,
    pub repo: PathBuf,
}

impl Env {
    pub fn new(repo: &Path, tag: &str) -> Self {
        let dir = crate::ctx::run_dir().join(format!("env-{}-{}", tag, std::process::id()));
        let _ = std::fs::remove_dir_all(&dir);
        std::fs::create_dir_all(&dir).unwrap_or_else(|e| crate::ctx::machinery(&format!("temp dir: {}", e)));
        Env {
            dir,
            files: Mutex::new(HashMap::new()),
            signers: Mutex::new(HashMap::new()),
            repo: repo.to_path_buf(),
        }
    }
    pub fn dir(&self) -> &Path {
        &self.dir
    }
    pub fn source(&self, c: &Content, perms: u32, mtime: u32) -> PathBuf {
        use std::os::unix::fs::PermissionsExt;
        if let Content::Kernel = c {
            return PathBuf::from(KERNEL_SOURCE);
        }
        if let Content::Relative(inner) = c {
            let real = self.source(inner, perms, mtime);
            let cwd = std::env::current_dir().unwrap_or_else(|_| PathBuf::from("/"));
            let mut rel = PathBuf::new();
            for _ in cwd.components().filter(|x| matches!(x, std::path::Component::Normal(_))) {
                rel.push("..");
            }
            rel.push(real.strip_prefix("/").unwrap_or(&real));
            return rel;
        }
        if let Content::Linked(inner) = c {
            let real = self.source(inner, perms, mtime);
            let mut g = self.files.lock().unwrap();
            if let Some(p) = g.get(&(c.clone(), perms, mtime)) {
                return p.clone();
            }
            let p = self.dir.join(format!("src-{}-link", g.len()));
            std::os::unix::fs::symlink(&real, &p).unwrap_or_else(|e| crate::ctx::machinery(&format!("symlink source: {}", e)));
            g.insert((c.clone(), perms, mtime), p.clone());
            return p;
        }
        let mut g = self.files.lock().unwrap();
        if let Some(p) = g.get(&(c.clone(), perms, mtime)) {
            return p.clone();
        }
        let p = self.dir.join(format!("src-{}", g.len()));
        std::fs::write(&p, c.materialize()).unwrap_or_else(|e| crate::ctx::machinery(&format!("write source: {}", e)));
        std::fs::set_permissions(&p, std::fs::Permissions::from_mode(perms)).expect("chmod");
        let f = std::fs::OpenOptions::new().write(true).open(&p);
        let st = std::time::UNIX_EPOCH + std::time::Duration::from_secs(mtime as u64);
        match f {
            Ok(f) => f.set_modified(st).expect("set mtime"),
            Err(_) => {
                // not writable by mode: set mtime through a temporary chmod
                std::fs::set_permissions(&p, std::fs::Permissions::from_mode(0o600)).expect("chmod");
                std::fs::OpenOptions::new().write(true).open(&p).expect("open").set_modified(st).expect("set mtime");
                std::fs::set_permissions(&p, std::fs::Permissions::from_mode(perms)).expect("chmod");
            }
        }
        g.insert((c.clone(), perms, mtime), p.clone());
        p
    }
    pub fn signer(&self, k: Key) -> rpm::signature::pgp::Signer {
        let mut g = self.signers.lock().unwrap();
        g.entry(k.name()).or_insert_with(|| k.signer(&self.repo)).clone()
    }
}

impl Drop for Env {
    fn drop(&mut self) {
        let _ = std::fs::remove_dir_all(&self.dir);
    }
}
