//! Violations, accumulators, known findings, replay files and evidence JSON.
use serde_json::{json, Map, Value};
use std::cell::RefCell;
use std::collections::BTreeMap;
use std::path::{Path, PathBuf};

#[derive(Clone, Debug)]
pub struct Violation {
    pub subcheck: String,
    /// Normalised cause: the fields a known-findings entry matches on.
    pub sig: BTreeMap<String, String>,
    pub what: String,
    /// Self-contained description of the failing case (input bytes, op list, script …).
    pub case: Value,
    pub count: u64,
    /// Lower rank = simpler case; on collision of cause keys the simplest case is kept.
    pub rank: u64,
}

impl Violation {
    pub fn new(subcheck: &str, what: impl Into<String>, case: Value) -> Self {
        Violation {
            subcheck: subcheck.to_string(),
            sig: BTreeMap::new(),
            what: what.into(),
            case,
            count: 1,
            rank: u64::MAX,
        }
    }
    pub fn rank(mut self, r: u64) -> Self {
        self.rank = r;
        self
    }
    pub fn sig(mut self, k: &str, v: impl Into<String>) -> Self {
        self.sig.insert(k.to_string(), v.into());
        self
    }
    pub fn key(&self) -> String {
        let mut s = self.subcheck.clone();
        for (k, v) in &self.sig {
            s.push('|');
            s.push_str(k);
            s.push('=');
            s.push_str(v);
        }
        s
    }
}

/// Per-thread accumulator used by all engines.
#[derive(Default)]
pub struct Acc {
    pub evals: u64,
    pub nontrivial: u64,
    pub hist: BTreeMap<String, u64>,
    pub viols: BTreeMap<String, Violation>,
    pub samples: Vec<(u64, Value)>,
    pub max_samples: usize,
}

impl Acc {
    pub fn new() -> Self {
        Acc {
            max_samples: 4,
            ..Default::default()
        }
    }
    pub fn count(&mut self, k: &str) {
        *self.hist.entry(k.to_string()).or_insert(0) += 1;
    }
    pub fn count_n(&mut self, k: &str, n: u64) {
        *self.hist.entry(k.to_string()).or_insert(0) += n;
    }
    pub fn viol(&mut self, v: Violation) {
        let k = v.key();
        match self.viols.get_mut(&k) {
            Some(e) => {
                let total = e.count + v.count;
                if v.rank < e.rank {
                    *e = v;
                }
                e.count = total;
            }
            None => {
                self.viols.insert(k, v);
            }
        }
    }
    /// Keep the samples with the lowest priority value (deterministic whatever the sharding).
    pub fn sample(&mut self, prio: u64, v: impl FnOnce() -> Value) {
        if self.samples.len() < self.max_samples
            || self.samples.last().map(|(p, _)| prio < *p).unwrap_or(true)
        {
            self.samples.push((prio, v()));
            self.samples.sort_by_key(|(p, _)| *p);
            self.samples.truncate(self.max_samples);
        }
    }
    pub fn merge(&mut self, o: Acc) {
        self.evals += o.evals;
        self.nontrivial += o.nontrivial;
        for (k, v) in o.hist {
            *self.hist.entry(k).or_insert(0) += v;
        }
        for (_, v) in o.viols {
            self.viol(v);
        }
        for (p, s) in o.samples {
            self.samples.push((p, s));
        }
        self.samples.sort_by_key(|(p, _)| *p);
        self.samples.truncate(self.max_samples.max(4));
    }
    pub fn merge_all(v: Vec<Acc>) -> Acc {
        let mut a = Acc::new();
        for x in v {
            a.merge(x);
        }
        a
    }
}

// ---------------------------------------------------------------- panics

thread_local! {
    static LAST_PANIC: RefCell<Option<String>> = const { RefCell::new(None) };
    static QUIET: std::cell::Cell<bool> = const { std::cell::Cell::new(false) };
}

/// Install a panic hook that records `file:line: message` in a thread-local and
/// stays silent while `catch` is active on that thread.
pub fn install_panic_hook() {
    let prev = std::panic::take_hook();
    std::panic::set_hook(Box::new(move |info| {
        let loc = info
            .location()
            .map(|l| format!("{}:{}", l.file(), l.line()))
            .unwrap_or_else(|| "?".into());
        let msg = if let Some(s) = info.payload().downcast_ref::<&str>() {
            s.to_string()
        } else if let Some(s) = info.payload().downcast_ref::<String>() {
            s.clone()
        } else {
            "<non-string panic>".into()
        };
        let quiet = QUIET.try_with(|q| q.get()).unwrap_or(false);
        let _ = LAST_PANIC.try_with(|p| *p.borrow_mut() = Some(format!("{}: {}", loc, msg)));
        if !quiet {
            prev(info);
        }
    }));
}

#[derive(Debug, Clone)]
pub struct Panic {
    pub at: String,
}

impl Panic {
    /// `path:line` with the checkout prefix stripped – stable cause key.
    pub fn location(&self) -> String {
        let loc = self.at.split(": ").next().unwrap_or("?");
        let loc = loc.strip_prefix("/repo/").unwrap_or(loc);
        // registry paths: keep crate-relative tail
        if let Some(i) = loc.find("/registry/src/") {
            let tail = &loc[i + 14..];
            return tail.splitn(2, '/').nth(1).unwrap_or(tail).to_string();
        }
        loc.to_string()
    }
    /// File without line number (line numbers move when the repo is edited).
    pub fn file(&self) -> String {
        let l = self.location();
        l.rsplitn(2, ':').nth(1).unwrap_or(&l).to_string()
    }
}

/// Run `f`, catching a panic and returning where it happened.
pub fn catch<T>(f: impl FnOnce() -> T) -> Result<T, Panic> {
    let was = QUIET.with(|q| q.replace(true));
    let r = std::panic::catch_unwind(std::panic::AssertUnwindSafe(f));
    QUIET.with(|q| q.set(was));
    match r {
        Ok(v) => Ok(v),
        Err(_) => {
            let at = LAST_PANIC
                .with(|p| p.borrow_mut().take())
                .unwrap_or_else(|| "?: ?".into());
            Err(Panic { at })
        }
    }
}

// ---------------------------------------------------------------- known findings

#[derive(Clone, Debug)]
pub struct Known {
    pub status: String, // "known" | "fixed"
    pub property: String,
    pub subcheck: Option<String>,
    pub matcher: BTreeMap<String, String>,
    pub what: String,
    pub commit: Option<String>,
}

pub fn load_known(path: &Path) -> Vec<Known> {
    let Ok(txt) = std::fs::read_to_string(path) else {
        return vec![];
    };
    let v: Value = serde_json::from_str(&txt).expect("known_findings.json is not valid JSON");
    let mut out = vec![];
    for e in v["findings"].as_array().cloned().unwrap_or_default() {
        let mut matcher = BTreeMap::new();
        if let Some(m) = e["match"].as_object() {
            for (k, v) in m {
                matcher.insert(k.clone(), v.as_str().unwrap_or("").to_string());
            }
        }
        out.push(Known {
            status: e["status"].as_str().unwrap_or("").to_string(),
            property: e["property"].as_str().unwrap_or("").to_string(),
            subcheck: e["subcheck"].as_str().map(|s| s.to_string()),
            matcher,
            what: e["what"].as_str().unwrap_or("").to_string(),
            commit: e["commit"].as_str().map(|s| s.to_string()),
        });
    }
    out
}

impl Known {
    /// Only `known` entries suppress; `fixed` entries are documentation.
    pub fn matches(&self, property: &str, v: &Violation) -> bool {
        if self.status != "known" || self.property != property {
            return false;
        }
        if let Some(s) = &self.subcheck {
            if s != &v.subcheck {
                return false;
            }
        }
        if self.matcher.is_empty() {
            return false; // a blanket entry would hide new violations
        }
        self.matcher
            .iter()
            .all(|(k, want)| v.sig.get(k).map(|have| have == want).unwrap_or(false))
    }
}

// ---------------------------------------------------------------- evidence

pub struct Evidence {
    pub property: String,
    pub tier: String,
    pub seed: u64,
    pub level: String,
    pub coverage: Map<String, Value>,
    pub assumptions: Vec<String>,
    pub start: std::time::Instant,
}

impl Evidence {
    pub fn new(property: &str, tier: &str, seed: u64, level: &str) -> Self {
        Evidence {
            property: property.into(),
            tier: tier.into(),
            seed,
            level: level.into(),
            coverage: Map::new(),
            assumptions: vec![],
            start: std::time::Instant::now(),
        }
    }
    pub fn set(&mut self, k: &str, v: Value) {
        self.coverage.insert(k.to_string(), v);
    }
    pub fn assume(&mut self, s: &str) {
        self.assumptions.push(s.to_string());
    }
    pub fn write(&self, dir: &Path, violations: u64) -> std::io::Result<PathBuf> {
        std::fs::create_dir_all(dir)?;
        let p = dir.join(format!("{}.json", self.property));
        let v = json!({
            "property_id": self.property,
            "tier": self.tier,
            "seed": self.seed,
            "level": self.level,
            "coverage": Value::Object(self.coverage.clone()),
            "assumptions": self.assumptions,
            "wall_s": (self.start.elapsed().as_secs_f64() * 1000.0).round() / 1000.0,
            "violations": violations,
        });
        let tmp = dir.join(format!(".{}.json.tmp", self.property));
        std::fs::write(&tmp, serde_json::to_string_pretty(&v).unwrap() + "\n")?;
        std::fs::rename(&tmp, &p)?;
        Ok(p)
    }
}

/// One sub-check's contribution to the evidence.
pub struct SubReport {
    pub name: String,
    pub engine: &'static str,

    pub rule: String,
    pub acc: Acc,
    pub exhaustive: bool,
    pub extra: Map<String, Value>,
}

impl SubReport {
    pub fn new(name: &str, engine: &'static str, rule: &str, acc: Acc) -> Self {
        SubReport {
            name: name.into(),
            engine,
            rule: rule.into(),
            acc,
            exhaustive: true,
            extra: Map::new(),
        }
    }
    pub fn extra(mut self, k: &str, v: Value) -> Self {
        self.extra.insert(k.into(), v);
        self
    }
    pub fn not_exhaustive(mut self) -> Self {
        self.exhaustive = false;
        self
    }
    pub fn to_json(&self) -> Value {
        let mut m = Map::new();
        m.insert("engine".into(), json!(self.engine));
        m.insert("rule".into(), json!(self.rule));
        m.insert("evaluations".into(), json!(self.acc.evals));
        m.insert("distinct_nontrivial".into(), json!(self.acc.nontrivial));
        m.insert("exhaustive".into(), json!(self.exhaustive));
        m.insert("outcomes".into(), json!(self.acc.hist));
        m.insert("distinct_outcomes".into(), json!(self.acc.hist.len()));
        for (k, v) in &self.extra {
            m.insert(k.clone(), v.clone());
        }
        Value::Object(m)
    }
}

pub fn write_replay(dir: &Path, property: &str, n: usize, tier: &str, v: &Violation) -> PathBuf {
    let _ = std::fs::create_dir_all(dir);
    let p = dir.join(format!("{}-{}-{}.json", property, v.subcheck.replace('/', "_"), n));
    let j = json!({
        "property": property,
        "subcheck": v.subcheck,
        "tier": tier,
        "signature": v.sig,
        "what": v.what,
        "occurrences": v.count,
        "case": v.case,
    });
    let _ = std::fs::write(&p, serde_json::to_string_pretty(&j).unwrap() + "\n");
    p
}
