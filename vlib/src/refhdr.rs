//! Independent codec for the rpm lead and header (index + store) format,
//! written from the rpm file-format documentation. Reference model for
//! C01/C02/C03/C04/C05/C09/C16. Never calls the library under test.

pub const HEADER_MAGIC: [u8; 3] = [0x8e, 0xad, 0xe8];
pub const LEAD_MAGIC: [u8; 4] = [0xed, 0xab, 0xee, 0xdb];

#[derive(Clone, Debug, PartialEq, Eq)]
pub struct RawEntry {
    pub tag: u32,
    pub ty: u32,
    pub offset: i32,
    pub count: u32,
}

#[derive(Clone, Debug, PartialEq, Eq)]
pub struct RawHeader {
    pub magic: [u8; 3],
    pub version: u8,
    pub reserved: [u8; 4],
    /// Declared values (normally entries.len() / store.len(), but can lie).
    pub nindex: u32,
    pub hsize: u32,
    pub entries: Vec<RawEntry>,
    pub store: Vec<u8>,
}

#[derive(Clone, Debug, PartialEq, Eq)]
pub enum Val {
    Null,
    Char(Vec<u8>),
    Int8(Vec<u8>),
    Int16(Vec<u16>),
    Int32(Vec<u32>),
    Int64(Vec<u64>),
    Str(Vec<u8>),
    Bin(Vec<u8>),
    StrArray(Vec<Vec<u8>>),
    I18n(Vec<Vec<u8>>),
}

impl Val {
    pub fn ty(&self) -> u32 {
        match self {
            Val::Null => 0,
            Val::Char(_) => 1,
            Val::Int8(_) => 2,
            Val::Int16(_) => 3,
            Val::Int32(_) => 4,
            Val::Int64(_) => 5,
            Val::Str(_) => 6,
            Val::Bin(_) => 7,
            Val::StrArray(_) => 8,
            Val::I18n(_) => 9,
        }
    }
    pub fn count(&self) -> u32 {
        match self {
            Val::Null => 0,
            Val::Char(v) | Val::Int8(v) | Val::Bin(v) => v.len() as u32,
            Val::Int16(v) => v.len() as u32,
            Val::Int32(v) => v.len() as u32,
            Val::Int64(v) => v.len() as u32,
            Val::Str(_) => 1,
            Val::StrArray(v) | Val::I18n(v) => v.len() as u32,
        }
    }
    pub fn align(&self) -> usize {
        match self {
            Val::Int16(_) => 2,
            Val::Int32(_) => 4,
            Val::Int64(_) => 8,
            _ => 1,
        }
    }
    pub fn bytes(&self) -> Vec<u8> {
        let mut o = vec![];
        match self {
            Val::Null => {}
            Val::Char(v) | Val::Int8(v) | Val::Bin(v) => o.extend_from_slice(v),
            Val::Int16(v) => v.iter().for_each(|x| o.extend_from_slice(&x.to_be_bytes())),
            Val::Int32(v) => v.iter().for_each(|x| o.extend_from_slice(&x.to_be_bytes())),
            Val::Int64(v) => v.iter().for_each(|x| o.extend_from_slice(&x.to_be_bytes())),
            Val::Str(s) => {
                o.extend_from_slice(s);
                o.push(0)
            }
            Val::StrArray(v) | Val::I18n(v) => {
                for s in v {
                    o.extend_from_slice(s);
                    o.push(0);
                }
            }
        }
        o
    }
    pub fn str(s: &str) -> Val {
        Val::Str(s.as_bytes().to_vec())
    }
    pub fn strs(v: &[&str]) -> Val {
        Val::StrArray(v.iter().map(|s| s.as_bytes().to_vec()).collect())
    }
    pub fn i18n(v: &[&str]) -> Val {
        Val::I18n(v.iter().map(|s| s.as_bytes().to_vec()).collect())
    }
}

pub fn type_align(ty: u32) -> usize {
    match ty {
        3 => 2,
        4 => 4,
        5 => 8,
        _ => 1,
    }
}

impl RawHeader {
    /// Header with exactly these entries and store; declared sizes are truthful.
    pub fn new(entries: Vec<RawEntry>, store: Vec<u8>) -> Self {
        RawHeader {
            magic: HEADER_MAGIC,
            version: 1,
            reserved: [0; 4],
            nindex: entries.len() as u32,
            hsize: store.len() as u32,
            entries,
            store,
        }
    }

    /// Writes exactly what it is given: no sorting, no alignment, no validation.
    pub fn encode(&self) -> Vec<u8> {
        let mut o = Vec::with_capacity(16 + 16 * self.entries.len() + self.store.len());
        o.extend_from_slice(&self.magic);
        o.push(self.version);
        o.extend_from_slice(&self.reserved);
        o.extend_from_slice(&self.nindex.to_be_bytes());
        o.extend_from_slice(&self.hsize.to_be_bytes());
        for e in &self.entries {
            o.extend_from_slice(&e.tag.to_be_bytes());
            o.extend_from_slice(&e.ty.to_be_bytes());
            o.extend_from_slice(&e.offset.to_be_bytes());
            o.extend_from_slice(&e.count.to_be_bytes());
        }
        o.extend_from_slice(&self.store);
        o
    }

    /// Lay records out in the given order with type alignment (well-formed front end).
    pub fn layout(records: &[(u32, Val)]) -> Self {
        let mut entries = vec![];
        let mut store = vec![];
        for (tag, v) in records {
            while store.len() % v.align() != 0 {
                store.push(0);
            }
            entries.push(RawEntry {
                tag: *tag,
                ty: v.ty(),
                offset: store.len() as i32,
                count: v.count(),
            });
            store.extend_from_slice(&v.bytes());
        }
        RawHeader::new(entries, store)
    }

    /// Like rpm: records sorted by tag, preceded by a region entry whose 16-byte
    /// trailer sits at the end of the store.
    pub fn layout_region(region_tag: u32, records: &[(u32, Val)]) -> Self {
        let mut recs: Vec<(u32, Val)> = records.to_vec();
        recs.sort_by_key(|(t, _)| *t);
        let mut h = RawHeader::layout(&recs);
        let il = (recs.len() + 1) as i32;
        let off = h.store.len() as i32;
        h.store.extend_from_slice(&region_tag.to_be_bytes());
        h.store.extend_from_slice(&7u32.to_be_bytes());
        h.store.extend_from_slice(&(-16 * il).to_be_bytes());
        h.store.extend_from_slice(&16u32.to_be_bytes());
        h.entries.insert(
            0,
            RawEntry {
                tag: region_tag,
                ty: 7,
                offset: off,
                count: 16,
            },
        );
        h.nindex = h.entries.len() as u32;
        h.hsize = h.store.len() as u32;
        h
    }

    /// Like `layout_region`, followed by `extra` records *behind* the immutable region (the trailer
    /// counts only the region's entries): what rpm does when it appends tags to an existing header.
    pub fn layout_region_dribble(region_tag: u32, records: &[(u32, Val)], extra: &[(u32, Val)]) -> Self {
        let mut h = RawHeader::layout_region(region_tag, records);
        for (tag, v) in extra {
            while h.store.len() % v.align() != 0 {
                h.store.push(0);
            }
            h.entries.push(RawEntry { tag: *tag, ty: v.ty(), offset: h.store.len() as i32, count: v.count() });
            h.store.extend_from_slice(&v.bytes());
        }
        h.nindex = h.entries.len() as u32;
        h.hsize = h.store.len() as u32;
        h
    }

    /// Permute the index entries without touching the store (the format does not prescribe an
    /// order; rpm and this library's builder happen to sort by tag). A leading region entry
    /// stays first. kind 0 = as is, 1 = reversed, 2 = first entry moved to the end.
    pub fn reorder(&mut self, kind: u8) {
        let start = if self.entries.first().map(|e| (e.tag == 62 || e.tag == 63) && e.ty == 7 && e.count == 16).unwrap_or(false) { 1 } else { 0 };
        if self.entries.len() <= start + 1 {
            return;
        }
        match kind {
            1 => self.entries[start..].reverse(),
            2 => self.entries[start..].rotate_left(1),
            _ => {}
        }
    }

    pub fn encoded_len(&self) -> usize {
        16 + 16 * self.entries.len() + self.store.len()
    }

    pub fn find(&self, tag: u32) -> Option<&RawEntry> {
        self.entries.iter().find(|e| e.tag == tag)
    }
}

#[derive(Debug, Clone, PartialEq, Eq)]
pub enum DecodeErr {
    Short,
    Magic,
    Version,
}

/// Decode one header from the front of `b`; returns it and the bytes consumed.
pub fn decode(b: &[u8]) -> Result<(RawHeader, usize), DecodeErr> {
    decode_opts(b, true)
}

/// `strict = false` follows the declared sizes whatever the magic/version bytes say
/// (used to locate the reserved/padding bytes of inputs a lenient parser accepted).
pub fn decode_opts(b: &[u8], strict: bool) -> Result<(RawHeader, usize), DecodeErr> {
    if b.len() < 16 {
        return Err(DecodeErr::Short);
    }
    let magic = [b[0], b[1], b[2]];
    if strict && magic != HEADER_MAGIC {
        return Err(DecodeErr::Magic);
    }
    if strict && b[3] != 1 {
        return Err(DecodeErr::Version);
    }
    let reserved = [b[4], b[5], b[6], b[7]];
    let nindex = u32::from_be_bytes([b[8], b[9], b[10], b[11]]);
    let hsize = u32::from_be_bytes([b[12], b[13], b[14], b[15]]);
    let total = 16u64 + 16 * nindex as u64 + hsize as u64;
    if (b.len() as u64) < total {
        return Err(DecodeErr::Short);
    }
    let mut entries = Vec::with_capacity(nindex as usize);
    let mut p = 16usize;
    for _ in 0..nindex {
        let w = |i: usize| u32::from_be_bytes([b[p + i], b[p + i + 1], b[p + i + 2], b[p + i + 3]]);
        entries.push(RawEntry {
            tag: w(0),
            ty: w(4),
            offset: w(8) as i32,
            count: w(12),
        });
        p += 16;
    }
    let store = b[p..p + hsize as usize].to_vec();
    Ok((
        RawHeader {
            magic,
            version: b[3],
            reserved,
            nindex,
            hsize,
            entries,
            store,
        },
        total as usize,
    ))
}

#[derive(Debug, Clone, PartialEq, Eq)]
pub enum Why {
    BadType,
    OffsetOutside,
    RunsPast,
    Unterminated,
}

/// The typed value an entry denotes, per the on-disk format.
pub fn value(e: &RawEntry, store: &[u8]) -> Result<Val, Why> {
    if e.ty > 9 {
        return Err(Why::BadType);
    }
    if e.ty == 0 {
        return Ok(Val::Null);
    }
    if e.offset < 0 || e.offset as usize > store.len() {
        return Err(Why::OffsetOutside);
    }
    let d = &store[e.offset as usize..];
    let n = e.count as usize;
    let need = |sz: usize| -> Result<(), Why> {
        if (n as u64) * (sz as u64) > d.len() as u64 {
            Err(Why::RunsPast)
        } else {
            Ok(())
        }
    };
    fn cstr(d: &[u8]) -> Result<(&[u8], &[u8]), Why> {
        match d.iter().position(|b| *b == 0) {
            Some(i) => Ok((&d[..i], &d[i + 1..])),
            None => Err(Why::Unterminated),
        }
    }
    Ok(match e.ty {
        1 => {
            need(1)?;
            Val::Char(d[..n].to_vec())
        }
        2 => {
            need(1)?;
            Val::Int8(d[..n].to_vec())
        }
        7 => {
            need(1)?;
            Val::Bin(d[..n].to_vec())
        }
        3 => {
            need(2)?;
            Val::Int16((0..n).map(|i| u16::from_be_bytes([d[2 * i], d[2 * i + 1]])).collect())
        }
        4 => {
            need(4)?;
            Val::Int32(
                (0..n)
                    .map(|i| u32::from_be_bytes(d[4 * i..4 * i + 4].try_into().unwrap()))
                    .collect(),
            )
        }
        5 => {
            need(8)?;
            Val::Int64(
                (0..n)
                    .map(|i| u64::from_be_bytes(d[8 * i..8 * i + 8].try_into().unwrap()))
                    .collect(),
            )
        }
        6 => Val::Str(cstr(d)?.0.to_vec()),
        8 | 9 => {
            let mut rest = d;
            let mut v = vec![];
            for _ in 0..n {
                let (s, r) = cstr(rest)?;
                v.push(s.to_vec());
                rest = r;
            }
            if e.ty == 8 {
                Val::StrArray(v)
            } else {
                Val::I18n(v)
            }
        }
        _ => unreachable!(),
    })
}

/// Byte length of the data an entry denotes (for overlap/ordering rules).
pub fn data_len(e: &RawEntry, store: &[u8]) -> Result<usize, Why> {
    Ok(value(e, store)?.bytes().len())
}

#[derive(Clone, Debug, PartialEq, Eq)]
pub struct RawLead {
    pub magic: [u8; 4],
    pub major: u8,
    pub minor: u8,
    pub ptype: u16,
    pub arch: u16,
    pub name: [u8; 66],
    pub os: u16,
    pub sigtype: u16,
    pub reserved: [u8; 16],
}

impl RawLead {
    pub fn new(name: &str) -> Self {
        let mut n = [0u8; 66];
        let l = name.len().min(65);
        n[..l].copy_from_slice(&name.as_bytes()[..l]);
        RawLead {
            magic: LEAD_MAGIC,
            major: 3,
            minor: 0,
            ptype: 0,
            arch: 1,
            name: n,
            os: 1,
            sigtype: 5,
            reserved: [0; 16],
        }
    }
    pub fn encode(&self) -> Vec<u8> {
        let mut o = Vec::with_capacity(96);
        o.extend_from_slice(&self.magic);
        o.push(self.major);
        o.push(self.minor);
        o.extend_from_slice(&self.ptype.to_be_bytes());
        o.extend_from_slice(&self.arch.to_be_bytes());
        o.extend_from_slice(&self.name);
        o.extend_from_slice(&self.os.to_be_bytes());
        o.extend_from_slice(&self.sigtype.to_be_bytes());
        o.extend_from_slice(&self.reserved);
        assert_eq!(o.len(), 96);
        o
    }
    pub fn decode(b: &[u8]) -> Option<Self> {
        if b.len() < 96 {
            return None;
        }
        Some(RawLead {
            magic: b[0..4].try_into().unwrap(),
            major: b[4],
            minor: b[5],
            ptype: u16::from_be_bytes([b[6], b[7]]),
            arch: u16::from_be_bytes([b[8], b[9]]),
            name: b[10..76].try_into().unwrap(),
            os: u16::from_be_bytes([b[76], b[77]]),
            sigtype: u16::from_be_bytes([b[78], b[79]]),
            reserved: b[80..96].try_into().unwrap(),
        })
    }
}

/// Layout knowledge of an assembled package.
#[derive(Clone, Debug)]
pub struct Layout {
    pub sig_off: usize,
    pub sig_len: usize,
    pub pad_off: usize,
    pub pad_len: usize,
    pub hdr_off: usize,
    pub hdr_len: usize,
    pub payload_off: usize,
}

pub fn sig_pad_len(sig_store_len: usize) -> usize {
    (8 - sig_store_len % 8) % 8
}

/// lead ‖ signature header ‖ pad ‖ main header ‖ payload. `pad_fill` is the byte
/// used for the alignment padding (rpm writes zeros; a hostile input need not).
pub fn assemble(lead: &RawLead, sig: &RawHeader, pad_fill: u8, hdr: &RawHeader, payload: &[u8]) -> (Vec<u8>, Layout) {
    let mut o = lead.encode();
    let sig_off = o.len();
    let s = sig.encode();
    o.extend_from_slice(&s);
    let pad_off = o.len();
    // the parser computes padding from the *declared* hsize
    let pad_len = sig_pad_len(sig.hsize as usize);
    o.extend(std::iter::repeat(pad_fill).take(pad_len));
    let hdr_off = o.len();
    let h = hdr.encode();
    o.extend_from_slice(&h);
    let payload_off = o.len();
    o.extend_from_slice(payload);
    (
        o,
        Layout {
            sig_off,
            sig_len: s.len(),
            pad_off,
            pad_len,
            hdr_off,
            hdr_len: h.len(),
            payload_off,
        },
    )
}

/// Independent scan of a complete package: returns its layout, or None if the
/// structure cannot be followed.
pub fn scan(b: &[u8]) -> Option<(RawLead, RawHeader, RawHeader, Layout)> {
    scan_opts(b, true)
}

pub fn scan_opts(b: &[u8], strict: bool) -> Option<(RawLead, RawHeader, RawHeader, Layout)> {
    let lead = RawLead::decode(b)?;
    if strict && lead.magic != LEAD_MAGIC {
        return None;
    }
    let (sig, sl) = decode_opts(&b[96..], strict).ok()?;
    let pad_len = sig_pad_len(sig.hsize as usize);
    let hdr_off = 96 + sl + pad_len;
    if b.len() < hdr_off {
        return None;
    }
    let (hdr, hl) = decode_opts(&b[hdr_off..], strict).ok()?;
    Some((
        lead,
        sig,
        hdr,
        Layout {
            sig_off: 96,
            sig_len: sl,
            pad_off: 96 + sl,
            pad_len,
            hdr_off,
            hdr_len: hl,
            payload_off: hdr_off + hl,
        },
    ))
}

#[cfg(test)]
mod t {
    use super::*;
    #[test]
    fn roundtrip() {
        let h = RawHeader::layout_region(
            63,
            &[
                (1000, Val::str("n")),
                (1003, Val::Int32(vec![7])),
                (5009, Val::Int64(vec![1 << 40])),
                (1004, Val::i18n(&["a", "b"])),
            ],
        );
        let b = h.encode();
        let (d, n) = decode(&b).unwrap();
        assert_eq!(n, b.len());
        assert_eq!(d, h);
        assert_eq!(value(d.find(1004).unwrap(), &d.store).unwrap(), Val::i18n(&["a", "b"]));
        assert_eq!(value(d.find(5009).unwrap(), &d.store).unwrap(), Val::Int64(vec![1 << 40]));
        assert_eq!(d.find(5009).unwrap().offset % 8, 0);
    }
}
