//! Engine A: exhaustive enumeration of a finite index range, sharded over threads.
//!
//! The domain is always a *complete* finite product (or base+deviation list)
//! addressed by an index in `0..n`; every index is visited exactly once, so
//! "distinct" is a property of the enumeration. Work is handed out in small
//! chunks from an atomic counter (dynamic load balancing); per-thread
//! accumulators are merged at the end in thread order, and every accumulator
//! operation we use is commutative, so the result does not depend on scheduling.
use std::sync::atomic::{AtomicU64, Ordering};

pub fn threads() -> usize {
    std::env::var("VERIF_THREADS")
        .ok()
        .and_then(|s| s.parse().ok())
        .unwrap_or_else(|| {
            std::thread::available_parallelism()
                .map(|n| n.get())
                .unwrap_or(4)
                .min(16)
        })
}

/// Visit every index of `0..n` exactly once. `init` makes a per-thread accumulator.
pub fn par_fold<A, I, F>(n: u64, init: I, f: F) -> Vec<A>
where
    A: Send,
    I: Fn() -> A + Sync,
    F: Fn(u64, &mut A) + Sync,
{
    let t = threads().max(1);
    if n == 0 {
        return vec![init()];
    }
    let chunk = (n / (t as u64 * 16)).clamp(1, 8192);
    let next = AtomicU64::new(0);
    let mut out = Vec::new();
    std::thread::scope(|s| {
        let mut hs = Vec::new();
        for _ in 0..t {
            hs.push(s.spawn(|| {
                let mut acc = init();
                loop {
                    let start = next.fetch_add(chunk, Ordering::Relaxed);
                    if start >= n {
                        break;
                    }
                    let end = (start + chunk).min(n);
                    for i in start..end {
                        f(i, &mut acc);
                    }
                }
                acc
            }));
        }
        for h in hs {
            out.push(h.join().expect("enumeration thread panicked (machinery error)"));
        }
    });
    out
}

/// Mixed-radix odometer: decode `idx` into one digit per axis (axis 0 fastest).
pub fn decode(mut idx: u64, radices: &[u64]) -> Vec<u64> {
    let mut d = Vec::with_capacity(radices.len());
    for &r in radices {
        d.push(idx % r);
        idx /= r;
    }
    d
}

pub fn product(radices: &[u64]) -> u64 {
    radices.iter().product()
}

/// All strings of length 0..=max_len over `alphabet` (tokens), shortest first.
/// Returns count; `nth` materialises one.
pub fn strings_count(alpha: usize, max_len: usize) -> u64 {
    let mut total = 0u64;
    let mut p = 1u64;
    for _ in 0..=max_len {
        total += p;
        p *= alpha as u64;
    }
    total
}

/// The idx-th token sequence in shortlex order over an alphabet of size `alpha`.
pub fn strings_nth(mut idx: u64, alpha: usize, out: &mut Vec<usize>) {
    out.clear();
    let a = alpha as u64;
    let mut len = 0usize;
    let mut p = 1u64;
    while idx >= p {
        idx -= p;
        p *= a;
        len += 1;
    }
    for _ in 0..len {
        out.push((idx % a) as usize);
        idx /= a;
    }
    out.reverse();
}

#[cfg(test)]
mod t {
    use super::*;
    #[test]
    fn shortlex() {
        let mut v = Vec::new();
        let mut seen = std::collections::BTreeSet::new();
        let n = strings_count(3, 3);
        assert_eq!(n, 1 + 3 + 9 + 27);
        for i in 0..n {
            strings_nth(i, 3, &mut v);
            assert!(seen.insert(v.clone()));
        }
    }
    #[test]
    fn fold_visits_all() {
        let r = par_fold(100_003, || 0u64, |i, a| *a += i);
        assert_eq!(r.iter().sum::<u64>(), 100_003 * 100_002 / 2);
    }
}
