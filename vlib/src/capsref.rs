//! Hand-written recogniser for file-capability text (reference model for C19),
//! following the grammar in the property statement:
//!
//! ```text
//! text    := ws* clause (ws+ clause)* ws*
//! clause  := names? group+          -- names may be omitted only if clause[0] == '='
//! names   := "all" | cap ("," cap)* -- case-insensitive; cap ∈ the Linux capability names
//! group   := op flag*               -- and no op directly follows another op
//! op      := "=" | "+" | "-"        flag := "e" | "i" | "p"
//! ```

/// Linux capability names 0..=40 (linux/capability.h).
pub const CAP_NAMES: [&str; 41] = [
    "cap_chown",
    "cap_dac_override",
    "cap_dac_read_search",
    "cap_fowner",
    "cap_fsetid",
    "cap_kill",
    "cap_setgid",
    "cap_setuid",
    "cap_setpcap",
    "cap_linux_immutable",
    "cap_net_bind_service",
    "cap_net_broadcast",
    "cap_net_admin",
    "cap_net_raw",
    "cap_ipc_lock",
    "cap_ipc_owner",
    "cap_sys_module",
    "cap_sys_rawio",
    "cap_sys_chroot",
    "cap_sys_ptrace",
    "cap_sys_pacct",
    "cap_sys_admin",
    "cap_sys_boot",
    "cap_sys_nice",
    "cap_sys_resource",
    "cap_sys_time",
    "cap_sys_tty_config",
    "cap_mknod",
    "cap_lease",
    "cap_audit_write",
    "cap_audit_control",
    "cap_setfcap",
    "cap_mac_override",
    "cap_mac_admin",
    "cap_syslog",
    "cap_wake_alarm",
    "cap_block_suspend",
    "cap_audit_read",
    "cap_perfmon",
    "cap_bpf",
    "cap_checkpoint_restore",
];

fn is_op(c: u8) -> bool {
    c == b'=' || c == b'+' || c == b'-'
}

fn known_cap(name: &[u8]) -> bool {
    CAP_NAMES
        .iter()
        .any(|c| c.as_bytes().eq_ignore_ascii_case(name))
}

fn clause_ok(c: &[u8]) -> bool {
    // split at the first operator
    let Some(i) = c.iter().position(|b| is_op(*b)) else {
        return false; // no operator/flag group at all
    };
    let (names, groups) = c.split_at(i);
    if names.is_empty() {
        if c[0] != b'=' {
            return false; // only a clause starting with '=' may omit the names
        }
    } else if !names.eq_ignore_ascii_case(b"all") {
        for n in names.split(|b| *b == b',') {
            if !known_cap(n) {
                return false;
            }
        }
    }
    // group+ : op flag*, operators never adjacent
    let mut prev_op = false;
    for (k, &ch) in groups.iter().enumerate() {
        if is_op(ch) {
            if prev_op {
                return false;
            }
            prev_op = true;
        } else if ch == b'e' || ch == b'i' || ch == b'p' {
            if k == 0 {
                return false;
            }
            prev_op = false;
        } else {
            return false;
        }
    }
    true
}

pub fn accepts(text: &str) -> bool {
    let mut any = false;
    for clause in text.split(|c: char| c.is_whitespace()) {
        if clause.is_empty() {
            continue;
        }
        any = true;
        if !clause_ok(clause.as_bytes()) {
            return false;
        }
    }
    any
}

#[cfg(test)]
mod t {
    use super::accepts;
    #[test]
    fn basics() {
        for s in ["cap_chown=p", "cap_chown+ie", "=e cap_chown-e", "=e", "all=e", "CAP_KILL,cap_chown+p-e", "=", "cap_chown="] {
            assert!(accepts(s), "{}", s);
        }
        for s in ["", " ", "cap_chown", "+eip", "-eip", "cap_chown+-p", "cap_chown+y", "cap_x+p", "=e +p", "all,cap_chown=p", ",=p"] {
            assert!(!accepts(s), "{}", s);
        }
    }
}
