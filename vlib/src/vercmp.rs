//! Byte-level transcription of rpm's `rpmvercmp` (lib/rpmvercmp.c, rpm ≥ 4.15,
//! with `~` and `^`). Reference model for C13. ASCII classification only
//! (`risalnum` etc. are locale independent in rpm), so multi-byte UTF-8
//! sequences are separators byte by byte.
use std::cmp::Ordering;

#[inline]
fn is_digit(c: u8) -> bool {
    c.is_ascii_digit()
}
#[inline]
fn is_alpha(c: u8) -> bool {
    c.is_ascii_alphabetic()
}
#[inline]
fn is_alnum(c: u8) -> bool {
    is_digit(c) || is_alpha(c)
}

/// `at(s, i)` is C's `s[i]` with the terminating NUL.
#[inline]
fn at(s: &[u8], i: usize) -> u8 {
    if i < s.len() {
        s[i]
    } else {
        0
    }
}

pub fn rpmvercmp(a: &[u8], b: &[u8]) -> Ordering {
    if a == b {
        return Ordering::Equal;
    }
    let (mut one, mut two) = (0usize, 0usize);
    while at(a, one) != 0 || at(b, two) != 0 {
        while at(a, one) != 0 && !is_alnum(at(a, one)) && at(a, one) != b'~' && at(a, one) != b'^' {
            one += 1;
        }
        while at(b, two) != 0 && !is_alnum(at(b, two)) && at(b, two) != b'~' && at(b, two) != b'^' {
            two += 1;
        }
        // tilde sorts before everything else
        if at(a, one) == b'~' || at(b, two) == b'~' {
            if at(a, one) != b'~' {
                return Ordering::Greater;
            }
            if at(b, two) != b'~' {
                return Ordering::Less;
            }
            one += 1;
            two += 1;
            continue;
        }
        // caret: like tilde, except that a base version that ends is older
        if at(a, one) == b'^' || at(b, two) == b'^' {
            if at(a, one) == 0 {
                return Ordering::Less;
            }
            if at(b, two) == 0 {
                return Ordering::Greater;
            }
            if at(a, one) != b'^' {
                return Ordering::Greater;
            }
            if at(b, two) != b'^' {
                return Ordering::Less;
            }
            one += 1;
            two += 1;
            continue;
        }
        if !(at(a, one) != 0 && at(b, two) != 0) {
            break;
        }
        let (mut s1, mut s2) = (one, two);
        let isnum;
        if is_digit(at(a, s1)) {
            while at(a, s1) != 0 && is_digit(at(a, s1)) {
                s1 += 1;
            }
            while at(b, s2) != 0 && is_digit(at(b, s2)) {
                s2 += 1;
            }
            isnum = true;
        } else {
            while at(a, s1) != 0 && is_alpha(at(a, s1)) {
                s1 += 1;
            }
            while at(b, s2) != 0 && is_alpha(at(b, s2)) {
                s2 += 1;
            }
            isnum = false;
        }
        if one == s1 {
            return Ordering::Less; // "cannot happen"
        }
        if two == s2 {
            return if isnum { Ordering::Greater } else { Ordering::Less };
        }
        let (mut o, mut t) = (one, two);
        if isnum {
            while o < s1 && a[o] == b'0' {
                o += 1;
            }
            while t < s2 && b[t] == b'0' {
                t += 1;
            }
            let (ol, tl) = (s1 - o, s2 - t);
            if ol > tl {
                return Ordering::Greater;
            }
            if tl > ol {
                return Ordering::Less;
            }
        }
        // strcmp on the NUL-terminated segments
        let rc = a[o..s1].cmp(&b[t..s2]);
        if rc != Ordering::Equal {
            return rc;
        }
        one = s1;
        two = s2;
    }
    if at(a, one) == 0 && at(b, two) == 0 {
        return Ordering::Equal;
    }
    if at(a, one) == 0 {
        Ordering::Less
    } else {
        Ordering::Greater
    }
}

/// rpm's EVR comparison: epoch (missing = 0) numerically via rpmvercmp, then
/// version, then release.
pub fn evr_cmp(e1: &[u8], v1: &[u8], r1: &[u8], e2: &[u8], v2: &[u8], r2: &[u8]) -> Ordering {
    let e1 = if e1.is_empty() { b"0".as_ref() } else { e1 };
    let e2 = if e2.is_empty() { b"0".as_ref() } else { e2 };
    rpmvercmp(e1, e2)
        .then_with(|| rpmvercmp(v1, v2))
        .then_with(|| rpmvercmp(r1, r2))
}

#[cfg(test)]
mod t {
    use super::*;
    use Ordering::*;
    #[test]
    fn samples_from_rpm_testsuite() {
        // from rpm's tests/rpmvercmp.at
        for (a, b, w) in [
            ("1.0", "1.0", Equal),
            ("1.0", "2.0", Less),
            ("2.0.1", "2.0", Greater),
            ("5.5p1", "5.5p2", Less),
            ("5.5p10", "5.5p1", Greater),
            ("10xyz", "10.1xyz", Less),
            ("xyz10", "xyz10.1", Less),
            ("xyz.4", "8", Less),
            ("xyz.4", "2", Less),
            ("5.5p2", "5.6p1", Less),
            ("6.0.rc1", "6.0", Greater),
            ("10b2", "10a1", Greater),
            ("1.0aa", "1.0a", Greater),
            ("10.0001", "10.1", Equal),
            ("10.0001", "10.0039", Less),
            ("4.999.9", "5.0", Less),
            ("20101121", "20101122", Less),
            ("2_0", "2.0", Equal),
            ("a", "a", Equal),
            ("a+", "a_", Equal),
            ("+", "_", Equal),
            ("1.0~rc1", "1.0", Less),
            ("1.0~rc1", "1.0~rc2", Less),
            ("1.0~rc1~git123", "1.0~rc1", Less),
            ("1.0^", "1.0", Greater),
            ("1.0^git1", "1.0", Greater),
            ("1.0^git1", "1.0^git2", Less),
            ("1.0^git1", "1.01", Less),
            ("1.0^20160101", "1.0.1", Less),
            ("1.0^20160101^git1", "1.0^20160102", Less),
            ("1.0~rc1^git1", "1.0~rc1", Greater),
            ("1.0^git1~pre", "1.0^git1", Less),
            ("1.0^git1", "1.0^git1~pre", Greater),
        ] {
            assert_eq!(rpmvercmp(a.as_bytes(), b.as_bytes()), w, "{} vs {}", a, b);
        }
    }
}
