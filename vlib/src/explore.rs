//! Engine C: stateless choice-point explorer (CHESS-style iterative deviation bounding).
//!
//! Environment objects handed to the code under test ask the `Chooser` at every
//! call which answer to give. Alternative 0 is the default answer; any other
//! alternative is a *deviation*. `explore` runs the real code to completion for
//! every choice sequence with at most `bound` deviations: it replays a recorded
//! prefix (a divergence while replaying is a hard machinery error), takes the
//! default afterwards, records the points met and recurses over every
//! alternative at every later point while the deviation budget lasts.
use std::cell::RefCell;
use std::rc::Rc;
use std::sync::atomic::{AtomicUsize, Ordering};
use std::sync::Mutex;

#[derive(Clone, Debug, PartialEq, Eq)]
pub struct Point {
    pub kind: u32,
    pub n: u32,
    pub chosen: u32,
}

#[derive(Default)]
pub struct Chooser {
    prefix: Vec<u32>,
    pub trace: Vec<Point>,
}

pub type Ch = Rc<RefCell<Chooser>>;

impl Chooser {
    pub fn new(prefix: Vec<u32>) -> Ch {
        Rc::new(RefCell::new(Chooser {
            prefix,
            trace: vec![],
        }))
    }
    /// Ask for one of `n` alternatives at a point of the given kind.
    pub fn choose(&mut self, kind: u32, n: u32) -> u32 {
        assert!(n >= 1);
        let i = self.trace.len();
        let c = if i < self.prefix.len() {
            let c = self.prefix[i];
            if c >= n {
                // Out-of-range choice while replaying: the execution diverged from the
                // one that recorded the prefix. Never a verdict.
                eprintln!(
                    "MACHINERY: replay divergence at point {} (choice {} of {})",
                    i, c, n
                );
                std::process::exit(2);
            }
            c
        } else {
            0
        };
        self.trace.push(Point { kind, n, chosen: c });
        c
    }
    pub fn choices(&self) -> Vec<u32> {
        self.trace.iter().map(|p| p.chosen).collect()
    }
}

pub fn pick(ch: &Ch, kind: u32, n: u32) -> u32 {
    ch.borrow_mut().choose(kind, n)
}

#[derive(Default, Debug, Clone)]
pub struct Stats {
    pub executions: u64,
    pub max_points: usize,
    /// executions by number of deviations (index = deviations)
    pub by_deviations: Vec<u64>,
    pub bound: usize,
}

/// Explore every choice sequence with ≤ `bound` deviations. `run` executes the real
/// code once with the given chooser and returns an observation; `check` judges it.
/// `A` is a per-thread accumulator. Runs on `threads` OS threads sharing a work stack.
pub fn explore<O, A, R, C, I>(bound: usize, threads: usize, init: I, run: R, check: C) -> (Stats, Vec<A>)
where
    A: Send,
    I: Fn() -> A + Sync,
    R: Fn(&Ch) -> O + Sync,
    C: Fn(&[Point], O, &mut A) + Sync,
{
    let stack: Mutex<Vec<Vec<u32>>> = Mutex::new(vec![vec![]]);
    let active = AtomicUsize::new(0);
    let stats = Mutex::new(Stats {
        bound,
        ..Default::default()
    });
    let mut accs = Vec::new();
    std::thread::scope(|s| {
        let mut hs = vec![];
        for _ in 0..threads.max(1) {
            hs.push(s.spawn(|| {
                let mut acc = init();
                let mut local = Stats::default();
                loop {
                    let job = {
                        let mut st = stack.lock().unwrap();
                        let j = st.pop();
                        if j.is_some() {
                            active.fetch_add(1, Ordering::SeqCst);
                        }
                        j
                    };
                    let Some(prefix) = job else {
                        if active.load(Ordering::SeqCst) == 0 {
                            // re-check under the lock to avoid a race with a pusher
                            let st = stack.lock().unwrap();
                            if st.is_empty() && active.load(Ordering::SeqCst) == 0 {
                                break;
                            }
                        }
                        std::thread::yield_now();
                        continue;
                    };
                    let ch = Chooser::new(prefix.clone());
                    let obs = run(&ch);
                    let trace = std::mem::take(&mut ch.borrow_mut().trace);
                    assert!(
                        trace.len() >= prefix.len(),
                        "MACHINERY: execution ended before its prefix was consumed"
                    );
                    let devs = trace.iter().filter(|p| p.chosen != 0).count();
                    local.executions += 1;
                    local.max_points = local.max_points.max(trace.len());
                    if local.by_deviations.len() <= devs {
                        local.by_deviations.resize(devs + 1, 0);
                    }
                    local.by_deviations[devs] += 1;
                    // children
                    let mut kids = vec![];
                    let mut cost = prefix.iter().filter(|c| **c != 0).count();
                    for i in prefix.len()..trace.len() {
                        // choices before i after the prefix are all defaults → cost unchanged
                        if cost + 1 <= bound {
                            for alt in 1..trace[i].n {
                                let mut p: Vec<u32> = trace[..i].iter().map(|x| x.chosen).collect();
                                p.push(alt);
                                kids.push(p);
                            }
                        }
                        if trace[i].chosen != 0 {
                            cost += 1;
                        }
                    }
                    check(&trace, obs, &mut acc);
                    {
                        let mut st = stack.lock().unwrap();
                        st.extend(kids);
                        active.fetch_sub(1, Ordering::SeqCst);
                    }
                }
                let mut g = stats.lock().unwrap();
                g.executions += local.executions;
                g.max_points = g.max_points.max(local.max_points);
                if g.by_deviations.len() < local.by_deviations.len() {
                    g.by_deviations.resize(local.by_deviations.len(), 0);
                }
                for (i, v) in local.by_deviations.iter().enumerate() {
                    g.by_deviations[i] += v;
                }
                acc
            }));
        }
        for h in hs {
            accs.push(h.join().expect("explorer thread panicked (machinery error)"));
        }
    });
    (stats.into_inner().unwrap(), accs)
}

/// Sequential variant (no threads): same exploration order-independent coverage.
pub fn explore_seq<O>(bound: usize, run: impl Fn(&Ch) -> O, mut check: impl FnMut(&[Point], O)) -> Stats {
    let mut stats = Stats {
        bound,
        ..Default::default()
    };
    let mut stack: Vec<Vec<u32>> = vec![vec![]];
    while let Some(prefix) = stack.pop() {
        let ch = Chooser::new(prefix.clone());
        let obs = run(&ch);
        let trace = std::mem::take(&mut ch.borrow_mut().trace);
        assert!(trace.len() >= prefix.len(), "MACHINERY: execution ended before its prefix was consumed");
        let devs = trace.iter().filter(|p| p.chosen != 0).count();
        stats.executions += 1;
        stats.max_points = stats.max_points.max(trace.len());
        if stats.by_deviations.len() <= devs {
            stats.by_deviations.resize(devs + 1, 0);
        }
        stats.by_deviations[devs] += 1;
        let cost = prefix.iter().filter(|c| **c != 0).count();
        if cost + 1 <= bound {
            for i in prefix.len()..trace.len() {
                for alt in 1..trace[i].n {
                    let mut p: Vec<u32> = trace[..i].iter().map(|x| x.chosen).collect();
                    p.push(alt);
                    stack.push(p);
                }
            }
        }
        check(&trace, obs);
    }
    stats
}

#[cfg(test)]
mod t {
    use super::*;
    #[test]
    fn counts() {
        // 3 points with 3 alternatives each: bound 0 → 1, bound 1 → 1+3*2, bound 2 → +C(3,2)*4
        for (b, want) in [(0usize, 1u64), (1, 7), (2, 19), (3, 27), (9, 27)] {
            let (st, _) = explore(
                b,
                4,
                || (),
                |ch| {
                    for _ in 0..3 {
                        pick(ch, 0, 3);
                    }
                },
                |_, _, _| {},
            );
            assert_eq!(st.executions, want, "bound {}", b);
            let st2 = explore_seq(b, |ch| { for _ in 0..3 { pick(ch, 0, 3); } }, |_, _| {});
            assert_eq!(st2.executions, want, "seq bound {}", b);
        }
    }
}
