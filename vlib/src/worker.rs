//! Worker-process pool: sweeps over untrusted input run in child processes so
//! that aborts (allocation failure, stack overflow, SIGSEGV) and hangs are
//! attributed to the case that was announced, and the sweep resumes after it.
//!
//! Protocol on the worker's stdout (one line each, written unbuffered):
//!   `S <index>`   before each case
//!   `V <json>`    a violation found by the in-process oracle
//!   `P <json>`    partial accumulator (flushed every ≤ 2048 cases, then reset)
//!   `D <json>`    final accumulator; the worker then exits 0
//! Anything else, death by signal, a non-zero exit, or silence for `stall`
//! is a crash / hang of the last announced case.
use crate::report::{Acc, Violation};
use serde_json::{json, Value};
use std::io::{BufRead, BufReader};
use std::process::{Command, Stdio};
use std::sync::atomic::{AtomicI32, AtomicU64, Ordering};
use std::sync::{Arc, Mutex};
use std::time::{Duration, Instant};

// ------------------------------------------------------------ worker side

fn raw_write(s: &str) {
    let b = s.as_bytes();
    let mut off = 0;
    while off < b.len() {
        let n = unsafe { libc::write(1, b[off..].as_ptr() as *const _, b.len() - off) };
        if n <= 0 {
            std::process::exit(3);
        }
        off += n as usize;
    }
}

pub fn announce(idx: u64) {
    raw_write(&format!("S {}\n", idx));
}

pub fn viol_to_json(v: &Violation) -> Value {
    json!({"subcheck": v.subcheck, "sig": v.sig, "what": v.what, "case": v.case, "count": v.count, "rank": v.rank})
}

pub fn viol_from_json(v: &Value) -> Violation {
    let mut x = Violation::new(
        v["subcheck"].as_str().unwrap_or(""),
        v["what"].as_str().unwrap_or(""),
        v["case"].clone(),
    );
    if let Some(m) = v["sig"].as_object() {
        for (k, s) in m {
            x.sig.insert(k.clone(), s.as_str().unwrap_or("").to_string());
        }
    }
    x.count = v["count"].as_u64().unwrap_or(1);
    x.rank = v["rank"].as_u64().unwrap_or(u64::MAX);
    x
}

pub fn acc_to_json(a: &Acc) -> Value {
    json!({
        "evals": a.evals, "nontrivial": a.nontrivial, "hist": a.hist,
        "samples": a.samples.iter().map(|(p, v)| json!([p, v])).collect::<Vec<_>>(),
        "viols": a.viols.values().map(viol_to_json).collect::<Vec<_>>(),
    })
}

pub fn acc_from_json(v: &Value) -> Acc {
    let mut a = Acc::new();
    a.evals = v["evals"].as_u64().unwrap_or(0);
    a.nontrivial = v["nontrivial"].as_u64().unwrap_or(0);
    if let Some(m) = v["hist"].as_object() {
        for (k, n) in m {
            a.hist.insert(k.clone(), n.as_u64().unwrap_or(0));
        }
    }
    for s in v["samples"].as_array().cloned().unwrap_or_default() {
        a.samples.push((s[0].as_u64().unwrap_or(0), s[1].clone()));
    }
    for x in v["viols"].as_array().cloned().unwrap_or_default() {
        a.viol(viol_from_json(&x));
    }
    a
}

/// Worker main loop: runs cases `start, start+stride, …  < end`.
pub fn worker_loop(start: u64, stride: u64, end: u64, mut case: impl FnMut(u64, &mut Acc)) -> ! {
    let mut acc = Acc::new();
    let mut i = start;
    let mut since = 0u32;
    let mut last_flush = std::time::Instant::now();
    while i < end {
        announce(i);
        case(i, &mut acc);
        // violations leave the process at once: a later crash must not lose them
        if !acc.viols.is_empty() {
            for v in std::mem::take(&mut acc.viols).into_values() {
                raw_write(&format!("V {}\n", viol_to_json(&v)));
            }
        }
        i += stride;
        since += 1;
        // flush partial results so that a later crash loses little
        if since >= 1024 || (since >= 32 && last_flush.elapsed().as_millis() > 100) {
            raw_write(&format!("P {}\n", acc_to_json(&acc)));
            acc = Acc::new();
            since = 0;
            last_flush = std::time::Instant::now();
        }
    }
    raw_write(&format!("D {}\n", acc_to_json(&acc)));
    std::process::exit(0);
}

// ------------------------------------------------------------ parent side

#[derive(Debug, Clone)]
pub struct Event {
    pub index: u64,
    /// "hang" | "signal:<n>" | "exit:<code>" | "protocol"
    pub kind: String,
    pub stderr_tail: String,
}

pub struct PoolResult {
    pub acc: Acc,
    pub events: Vec<Event>,
    pub restarts: u64,
    /// cases never run because a worker slot exceeded its death budget
    pub abandoned: u64,
}

/// Death budget per worker slot: a crash storm must not turn a check into an hours-long run.
pub const MAX_DEATHS_PER_SLOT: u32 = 48;
pub const MAX_HANGS_PER_SLOT: u32 = 2;

fn now_ms(t0: Instant) -> u64 {
    t0.elapsed().as_millis() as u64
}

/// Run `exe args… <start> <stride> <end>` in `workers` processes over `0..n`.
pub fn run_pool(exe: &std::path::Path, args: &[String], n: u64, workers: usize, stall: Duration) -> PoolResult {
    let workers = workers.max(1).min(n.max(1) as usize);
    let t0 = Instant::now();
    let result = Arc::new(Mutex::new((Acc::new(), Vec::<Event>::new(), 0u64, 0u64)));
    let progress: Vec<Arc<AtomicU64>> = (0..workers).map(|_| Arc::new(AtomicU64::new(0))).collect();
    let pids: Vec<Arc<AtomicI32>> = (0..workers).map(|_| Arc::new(AtomicI32::new(0))).collect();
    let killed: Vec<Arc<AtomicI32>> = (0..workers).map(|_| Arc::new(AtomicI32::new(0))).collect();
    let done = Arc::new(AtomicU64::new(0));

    // watchdog
    let wd = {
        let progress = progress.clone();
        let pids = pids.clone();
        let killed = killed.clone();
        let done = done.clone();
        std::thread::spawn(move || {
            while done.load(Ordering::SeqCst) < workers as u64 {
                std::thread::sleep(Duration::from_millis(200));
                let now = now_ms(t0);
                for w in 0..workers {
                    let pid = pids[w].load(Ordering::SeqCst);
                    if pid > 0 && now.saturating_sub(progress[w].load(Ordering::SeqCst)) > stall.as_millis() as u64 {
                        killed[w].store(pid, Ordering::SeqCst);
                        unsafe {
                            libc::kill(pid, libc::SIGKILL);
                        }
                        progress[w].store(now, Ordering::SeqCst);
                    }
                }
            }
        })
    };

    let mut hs = vec![];
    for w in 0..workers {
        let exe = exe.to_path_buf();
        let args = args.to_vec();
        let result = result.clone();
        let progress = progress[w].clone();
        let pidslot = pids[w].clone();
        let killed = killed[w].clone();
        let done = done.clone();
        hs.push(std::thread::spawn(move || {
            let mut start = w as u64;
            let stride = workers as u64;
            let (mut deaths, mut hangs) = (0u32, 0u32);
            let errpath = std::env::temp_dir().join(format!("vcheck-worker-{}-{}.err", std::process::id(), w));
            while start < n {
                let errf = std::fs::File::create(&errpath).expect("stderr file");
                let mut child = Command::new(&exe)
                    .args(&args)
                    .arg(start.to_string())
                    .arg(stride.to_string())
                    .arg(n.to_string())
                    .stdin(Stdio::null())
                    .stdout(Stdio::piped())
                    .stderr(Stdio::from(errf))
                    .spawn()
                    .expect("MACHINERY: cannot spawn worker");
                progress.store(now_ms(t0), Ordering::SeqCst);
                pidslot.store(child.id() as i32, Ordering::SeqCst);
                let out = child.stdout.take().unwrap();
                let mut last: Option<u64> = None;
                let mut finished = false;
                let mut flushed_evals = 0u64;
                let _ = &flushed_evals;
                let mut protocol_err = false;
                let mut local_v: Vec<Violation> = vec![];
                let mut local_acc: Option<Acc> = None;
                for line in BufReader::new(out).lines() {
                    let Ok(line) = line else { break };
                    progress.store(now_ms(t0), Ordering::SeqCst);
                    if let Some(r) = line.strip_prefix("S ") {
                        last = r.trim().parse().ok();
                    } else if let Some(r) = line.strip_prefix("V ") {
                        if let Ok(v) = serde_json::from_str::<Value>(r) {
                            local_v.push(viol_from_json(&v));
                        }
                    } else if let Some(r) = line.strip_prefix("P ") {
                        if let Ok(v) = serde_json::from_str::<Value>(r) {
                            let a = acc_from_json(&v);
                            flushed_evals += a.evals;
                            result.lock().unwrap().0.merge(a);
                        }
                    } else if let Some(r) = line.strip_prefix("D ") {
                        if let Ok(v) = serde_json::from_str::<Value>(r) {
                            local_acc = Some(acc_from_json(&v));
                            finished = true;
                        }
                    } else if !line.is_empty() {
                        protocol_err = true;
                    }
                }
                let status = child.wait().expect("wait");
                pidslot.store(0, Ordering::SeqCst);
                let was_killed = killed.swap(0, Ordering::SeqCst) != 0;
                let mut g = result.lock().unwrap();
                for v in local_v {
                    g.0.viol(v);
                }
                if finished && status.success() {
                    if let Some(a) = local_acc {
                        g.0.merge(a);
                    }
                    break;
                }
                // abnormal end: attribute to the last announced case
                use std::os::unix::process::ExitStatusExt;
                let kind = if was_killed {
                    "hang".to_string()
                } else if let Some(s) = status.signal() {
                    format!("signal:{}", s)
                } else if protocol_err {
                    "protocol".to_string()
                } else {
                    format!("exit:{}", status.code().unwrap_or(-1))
                };
                let tail = std::fs::read_to_string(&errpath).unwrap_or_default();
                let refused = tail.lines().find(|l| l.starts_with("VCHECK-REFUSED")).unwrap_or("").to_string();
                let tail: String = tail.chars().rev().take(600).collect::<String>().chars().rev().collect();
                let tail = if refused.is_empty() { tail } else { format!("{}\n{}", refused, tail) };
                let idx = last.unwrap_or(start);
                g.1.push(Event {
                    index: idx,
                    kind,
                    stderr_tail: tail,
                });
                g.2 += 1;
                // results since the last partial flush are lost with the dead worker (≤ 2048 cases)
                g.0.evals += 1;
                g.0.count("(case on which a worker died)");
                deaths += 1;
                if was_killed {
                    hangs += 1;
                }
                start = idx + stride;
                if (deaths >= MAX_DEATHS_PER_SLOT || hangs >= MAX_HANGS_PER_SLOT) && start < n {
                    g.3 += (n - start + stride - 1) / stride;
                    g.0.count_n("(cases abandoned: worker death budget exhausted)", (n - start + stride - 1) / stride);
                    break;
                }
                drop(g);
            }
            let _ = std::fs::remove_file(&errpath);
            done.fetch_add(1, Ordering::SeqCst);
        }));
    }
    for h in hs {
        h.join().expect("pool thread");
    }
    let _ = wd.join();
    let (acc, events, restarts, abandoned) = Arc::try_unwrap(result).ok().expect("arc").into_inner().unwrap();
    PoolResult { acc, events, restarts, abandoned }
}
