//! Independent newc / rpm-stripped cpio codec (reference model for C07/C09/C12).
//! Strict reader: every rule rpm's own cpio reader relies on is checked.

#[derive(Clone, Debug, PartialEq, Eq)]
pub struct Newc {
    pub name: Vec<u8>,
    pub ino: u32,
    pub mode: u32,
    pub uid: u32,
    pub gid: u32,
    pub nlink: u32,
    pub mtime: u32,
    pub devmajor: u32,
    pub devminor: u32,
    pub rdevmajor: u32,
    pub rdevminor: u32,
    pub check: u32,
    pub data: Vec<u8>,
}

impl Newc {
    pub fn file(name: &str, mode: u32, ino: u32, data: &[u8]) -> Self {
        Newc {
            name: name.as_bytes().to_vec(),
            ino,
            mode,
            uid: 0,
            gid: 0,
            nlink: 1,
            mtime: 0,
            devmajor: 0,
            devminor: 0,
            rdevmajor: 0,
            rdevminor: 0,
            check: 0,
            data: data.to_vec(),
        }
    }
}

#[derive(Clone, Debug, PartialEq, Eq)]
pub enum Ent {
    Newc(Newc),
    Stripped { index: u32, data: Vec<u8> },
}

fn pad4(o: &mut Vec<u8>) {
    while o.len() % 4 != 0 {
        o.push(0);
    }
}

/// Raw header with explicit (possibly lying) size and name-length fields.
pub fn newc_header_raw(e: &Newc, filesize: u32, namesize: u32) -> Vec<u8> {
    let mut o = Vec::new();
    o.extend_from_slice(b"070701");
    for v in [
        e.ino, e.mode, e.uid, e.gid, e.nlink, e.mtime, filesize, e.devmajor, e.devminor, e.rdevmajor, e.rdevminor,
        namesize, e.check,
    ] {
        o.extend_from_slice(format!("{:08x}", v).as_bytes());
    }
    o
}

/// Append one well-formed newc entry to `o` (which must be 4-aligned).
pub fn write_newc(o: &mut Vec<u8>, e: &Newc) {
    debug_assert!(o.len() % 4 == 0);
    o.extend_from_slice(&newc_header_raw(e, e.data.len() as u32, e.name.len() as u32 + 1));
    o.extend_from_slice(&e.name);
    o.push(0);
    pad4(o);
    o.extend_from_slice(&e.data);
    pad4(o);
}

pub fn write_trailer(o: &mut Vec<u8>) {
    let mut t = Newc::file("TRAILER!!!", 0, 0, &[]);
    t.nlink = 1;
    write_newc(o, &t);
}

/// rpm's stripped entry: "07070X" + 8 hex digits of the file index, padded to 4,
/// then the data, padded to 4.
pub fn write_stripped(o: &mut Vec<u8>, index: u32, data: &[u8]) {
    debug_assert!(o.len() % 4 == 0);
    o.extend_from_slice(b"07070X");
    o.extend_from_slice(format!("{:08x}", index).as_bytes());
    pad4(o);
    o.extend_from_slice(data);
    pad4(o);
}

fn hex8(b: &[u8]) -> Result<u32, String> {
    let s = std::str::from_utf8(b).map_err(|_| "PAY-2 non-ascii hex field".to_string())?;
    if !s.bytes().all(|c| c.is_ascii_hexdigit()) {
        return Err("PAY-2 bad hex field".into());
    }
    u32::from_str_radix(s, 16).map_err(|_| "PAY-2 bad hex field".to_string())
}

/// Strict reader. `stripped_sizes[i]` is the size of header file `i` (needed to
/// delimit stripped entries). Returns the entries before the trailer and the
/// number of bytes after the trailer.
pub fn read_archive(b: &[u8], stripped_sizes: &[u64]) -> Result<(Vec<Ent>, usize), String> {
    let mut p = 0usize;
    let mut out = vec![];
    loop {
        if p % 4 != 0 {
            return Err("PAY-2 entry not 4-byte aligned".into());
        }
        if b.len() < p + 6 {
            return Err("PAY-4 archive ends without TRAILER!!!".into());
        }
        let magic = &b[p..p + 6];
        if magic == b"070701" || magic == b"070702" {
            if b.len() < p + 110 {
                return Err("PAY-2 truncated newc header".into());
            }
            let f = |i: usize| hex8(&b[p + 6 + 8 * i..p + 14 + 8 * i]);
            let (ino, mode, uid, gid, nlink, mtime, size) = (f(0)?, f(1)?, f(2)?, f(3)?, f(4)?, f(5)?, f(6)?);
            let (dma, dmi, rma, rmi, nsz, chk) = (f(7)?, f(8)?, f(9)?, f(10)?, f(11)?, f(12)?);
            if nsz == 0 || nsz > 4096 {
                return Err("PAY-2 bad name size".into());
            }
            let ns = p + 110;
            let ne = ns + nsz as usize;
            if b.len() < ne {
                return Err("PAY-2 truncated name".into());
            }
            if b[ne - 1] != 0 {
                return Err("PAY-2 name not NUL-terminated".into());
            }
            let name = b[ns..ne - 1].to_vec();
            if name.contains(&0) {
                return Err("PAY-2 NUL inside name".into());
            }
            let mut q = ne;
            while q % 4 != 0 {
                if q >= b.len() || b[q] != 0 {
                    return Err("PAY-2 bad name padding".into());
                }
                q += 1;
            }
            let de = q + size as usize;
            if b.len() < de {
                return Err("PAY-2 truncated data".into());
            }
            let data = b[q..de].to_vec();
            let mut r = de;
            while r % 4 != 0 {
                if r >= b.len() || b[r] != 0 {
                    return Err("PAY-2 bad data padding".into());
                }
                r += 1;
            }
            p = r;
            if name == b"TRAILER!!!" {
                return Ok((out, b.len() - p));
            }
            out.push(Ent::Newc(Newc {
                name,
                ino,
                mode,
                uid,
                gid,
                nlink,
                mtime,
                devmajor: dma,
                devminor: dmi,
                rdevmajor: rma,
                rdevminor: rmi,
                check: chk,
                data,
            }));
        } else if magic == b"07070X" {
            if b.len() < p + 16 {
                return Err("PAY-2 truncated stripped header".into());
            }
            let idx = hex8(&b[p + 6..p + 14])?;
            if b[p + 14] != 0 || b[p + 15] != 0 {
                return Err("PAY-2 stripped header not padded to 4".into());
            }
            let Some(sz) = stripped_sizes.get(idx as usize) else {
                return Err("PAY-2 stripped index out of range".into());
            };
            let q = p + 16;
            let de = q + *sz as usize;
            if b.len() < de {
                return Err("PAY-2 truncated stripped data".into());
            }
            let data = b[q..de].to_vec();
            let mut r = de;
            while r % 4 != 0 {
                if r >= b.len() || b[r] != 0 {
                    return Err("PAY-2 stripped data not padded to 4".into());
                }
                r += 1;
            }
            p = r;
            out.push(Ent::Stripped { index: idx, data });
        } else {
            return Err(format!("PAY-2 bad magic at offset {}", p));
        }
    }
}

#[cfg(test)]
mod t {
    use super::*;
    #[test]
    fn rt() {
        let mut o = vec![];
        write_newc(&mut o, &Newc::file("./a", 0o100644, 1, b"hello"));
        write_newc(&mut o, &Newc::file("./bb", 0o100644, 2, b""));
        write_trailer(&mut o);
        let (e, rest) = read_archive(&o, &[]).unwrap();
        assert_eq!(rest, 0);
        assert_eq!(e.len(), 2);
        let mut s = vec![];
        write_stripped(&mut s, 0, b"abc");
        write_stripped(&mut s, 1, b"");
        write_trailer(&mut s);
        let (e, _) = read_archive(&s, &[3, 0]).unwrap();
        assert_eq!(e[0], Ent::Stripped { index: 0, data: b"abc".to_vec() });
    }
}
