//! Engine B: explicit-state breadth-first search whose transition function is the
//! real API. States are deduplicated by a caller-supplied canonical key (we use
//! the full byte image of the real object, so no two states with different
//! futures are merged). The invariant is evaluated once in every discovered
//! state. Level-synchronous, so the result is independent of thread scheduling.
use crate::par::par_fold;
use std::collections::BTreeSet;
use std::sync::Mutex;

pub struct Node<S> {
    pub state: S,
    pub path: Vec<String>,
    pub depth: usize,
}

#[derive(Debug, Default, Clone)]
pub struct BfsStats {
    pub states: u64,
    pub transitions: u64,
    pub depth_reached: usize,
    pub closed: bool,
    pub max_depth: usize,
    pub states_per_depth: Vec<u64>,
    /// the search stopped because more than `max_states` states were discovered (a state space that does not close)
    pub capped: bool,
}

/// Upper bound on the number of states of one search; 0 = none. Set by the caller before `bfs` (thread-local).
thread_local! {
    pub static MAX_STATES: std::cell::Cell<u64> = const { std::cell::Cell::new(0) };
}

pub fn bfs<S, A, K, E, V, I>(
    inits: Vec<(String, S)>,
    max_depth: usize,
    key: K,
    expand: E,
    invariant: V,
    init_acc: I,
) -> (BfsStats, Vec<A>)
where
    S: Send + Sync,
    A: Send,
    K: Fn(&S) -> Vec<u8> + Sync,
    E: Fn(&Node<S>, &mut A) -> Vec<(String, S)> + Sync,
    V: Fn(&Node<S>, &mut A) + Sync,
    I: Fn() -> A + Sync,
{
    let mut stats = BfsStats {
        max_depth,
        ..Default::default()
    };
    let mut seen: BTreeSet<Vec<u8>> = BTreeSet::new();
    let mut frontier: Vec<Node<S>> = vec![];
    for (label, s) in inits {
        let k = key(&s);
        if seen.insert(k) {
            frontier.push(Node {
                state: s,
                path: vec![label],
                depth: 0,
            });
        }
    }
    let mut accs: Vec<A> = vec![];
    let mut depth = 0usize;
    loop {
        stats.states += frontier.len() as u64;
        stats.states_per_depth.push(frontier.len() as u64);
        stats.depth_reached = depth;
        // invariant in every newly discovered state
        let fr = &frontier;
        accs.extend(par_fold(fr.len() as u64, &init_acc, |i, a| {
            invariant(&fr[i as usize], a)
        }));
        if depth >= max_depth {
            stats.closed = false;
            break;
        }
        // expand
        let succ: Mutex<Vec<(usize, Vec<(String, S)>)>> = Mutex::new(vec![]);
        accs.extend(par_fold(fr.len() as u64, &init_acc, |i, a| {
            let out = expand(&fr[i as usize], a);
            succ.lock().unwrap().push((i as usize, out));
        }));
        let mut succ = succ.into_inner().unwrap();
        succ.sort_by_key(|(i, _)| *i);
        let mut next: Vec<Node<S>> = vec![];
        for (i, outs) in succ {
            for (label, s) in outs {
                stats.transitions += 1;
                let k = key(&s);
                if seen.insert(k) {
                    let mut path = frontier[i].path.clone();
                    path.push(label);
                    next.push(Node {
                        state: s,
                        path,
                        depth: depth + 1,
                    });
                }
            }
        }
        if next.is_empty() {
            stats.closed = true;
            break;
        }
        let cap = MAX_STATES.with(|c| c.get());
        if cap > 0 && stats.states + next.len() as u64 > cap {
            stats.closed = false;
            stats.capped = true;
            break;
        }
        frontier = next;
        depth += 1;
    }
    (stats, accs)
}
