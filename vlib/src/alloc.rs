//! Counting global allocator: the memory oracle of C04.
//!
//! Per *thread* it tracks live bytes, their peak and the largest single request
//! since the last `reset`. Requests above a configurable limit are refused (null),
//! which makes infallible allocation abort the process – the worker pool
//! attributes that abort to the case that was announced.
use std::alloc::{GlobalAlloc, Layout, System};
use std::cell::Cell;

/// Requests above this many bytes are refused. Unlimited unless a sweep over untrusted
/// input (C04 workers) lowers it with `set_refuse_above`.
static REFUSE_ABOVE: std::sync::atomic::AtomicUsize = std::sync::atomic::AtomicUsize::new(usize::MAX);

pub fn set_refuse_above(n: usize) {
    REFUSE_ABOVE.store(n, std::sync::atomic::Ordering::Relaxed);
}

#[inline]
fn limit() -> usize {
    REFUSE_ABOVE.load(std::sync::atomic::Ordering::Relaxed)
}

/// Requests above this many bytes get their call site recorded (innermost `rpm::` frame of a backtrace).
static TRACE_ABOVE: std::sync::atomic::AtomicUsize = std::sync::atomic::AtomicUsize::new(usize::MAX);

pub fn set_trace_above(n: usize) {
    TRACE_ABOVE.store(n, std::sync::atomic::Ordering::Relaxed);
}

thread_local! {
    static IN_TRACE: Cell<bool> = const { Cell::new(false) };
    static BIG_SITE: Cell<Option<Box<str>>> = const { Cell::new(None) };
}

/// Innermost frame of the crate under test (and the innermost foreign frame below it) for a large request.
fn trace_big(size: usize, refused: bool) {
    if size <= TRACE_ABOVE.load(std::sync::atomic::Ordering::Relaxed) {
        return;
    }
    let already = IN_TRACE.try_with(|t| t.replace(true)).unwrap_or(true);
    if already {
        return;
    }
    let bt = std::backtrace::Backtrace::force_capture().to_string();
    let mut site = String::new();
    let mut callee = String::new();
    for line in bt.lines() {
        let l = line.trim_start();
        // frame lines look like "12: path::to::function"
        let Some((n, f)) = l.split_once(": ") else { continue };
        if n.parse::<u32>().is_err() {
            continue;
        }
        if f.starts_with("rpm::") || f.starts_with("<rpm::") {
            site = f.to_string();
            break;
        }
        if !(f.starts_with("std::") || f.starts_with("core::") || f.starts_with("alloc::") || f.starts_with("<alloc::") || f.starts_with("vlib::") || f.starts_with("<vlib::") || f.starts_with("__rust") || f.starts_with("__rdl") || f.starts_with("__rg")) {
            callee = f.to_string();
        }
    }
    let desc = format!("{} (allocating in {})", if site.is_empty() { "?" } else { &site }, if callee.is_empty() { "the crate itself" } else { &callee });
    if refused {
        let msg = format!("VCHECK-REFUSED {} {}\n", size, desc);
        unsafe {
            libc::write(2, msg.as_ptr() as *const _, msg.len());
        }
    }
    let _ = BIG_SITE.try_with(|b| b.set(Some(desc.into_boxed_str())));
    let _ = IN_TRACE.try_with(|t| t.set(false));
}

/// Call site of the last large request on this thread since `reset`.
pub fn big_site() -> Option<String> {
    BIG_SITE.try_with(|b| {
        let v = b.take();
        let r = v.as_ref().map(|s| s.to_string());
        b.set(v);
        r
    }).ok().flatten()
}

thread_local! {
    static LIVE: Cell<i64> = const { Cell::new(0) };
    static PEAK: Cell<i64> = const { Cell::new(0) };
    static MAXREQ: Cell<usize> = const { Cell::new(0) };
    static REFUSED: Cell<usize> = const { Cell::new(0) };
}

pub struct Counting;

#[inline]
fn on_alloc(sz: usize) {
    let _ = LIVE.try_with(|l| {
        let v = l.get() + sz as i64;
        l.set(v);
        let _ = PEAK.try_with(|p| {
            if v > p.get() {
                p.set(v)
            }
        });
    });
    let _ = MAXREQ.try_with(|m| {
        if sz > m.get() {
            m.set(sz)
        }
    });
}

#[inline]
fn on_free(sz: usize) {
    let _ = LIVE.try_with(|l| l.set(l.get() - sz as i64));
}

unsafe impl GlobalAlloc for Counting {
    unsafe fn alloc(&self, l: Layout) -> *mut u8 {
        trace_big(l.size(), l.size() > limit());
        if l.size() > limit() {
            let _ = REFUSED.try_with(|r| r.set(r.get().max(l.size())));
            let _ = MAXREQ.try_with(|m| m.set(m.get().max(l.size())));
            return std::ptr::null_mut();
        }
        let p = System.alloc(l);
        if !p.is_null() {
            on_alloc(l.size());
        }
        p
    }
    unsafe fn alloc_zeroed(&self, l: Layout) -> *mut u8 {
        trace_big(l.size(), l.size() > limit());
        if l.size() > limit() {
            let _ = REFUSED.try_with(|r| r.set(r.get().max(l.size())));
            let _ = MAXREQ.try_with(|m| m.set(m.get().max(l.size())));
            return std::ptr::null_mut();
        }
        let p = System.alloc_zeroed(l);
        if !p.is_null() {
            on_alloc(l.size());
        }
        p
    }
    unsafe fn dealloc(&self, p: *mut u8, l: Layout) {
        on_free(l.size());
        System.dealloc(p, l)
    }
    unsafe fn realloc(&self, p: *mut u8, l: Layout, new: usize) -> *mut u8 {
        trace_big(new, new > limit());
        if new > limit() {
            let _ = REFUSED.try_with(|r| r.set(r.get().max(new)));
            let _ = MAXREQ.try_with(|m| m.set(m.get().max(new)));
            return std::ptr::null_mut();
        }
        let q = System.realloc(p, l, new);
        if !q.is_null() {
            on_free(l.size());
            on_alloc(new);
        }
        q
    }
}

#[derive(Debug, Clone, Copy)]
pub struct Usage {
    /// peak of (live bytes − live bytes at reset)
    pub peak: u64,
    pub max_request: u64,
    pub refused: u64,
}

/// Start measuring on this thread.
pub fn reset() -> i64 {
    let base = LIVE.with(|l| l.get());
    PEAK.with(|p| p.set(base));
    MAXREQ.with(|m| m.set(0));
    REFUSED.with(|r| r.set(0));
    let _ = BIG_SITE.try_with(|b| b.set(None));
    base
}

pub fn usage(base: i64) -> Usage {
    Usage {
        peak: (PEAK.with(|p| p.get()) - base).max(0) as u64,
        max_request: MAXREQ.with(|m| m.get()) as u64,
        refused: REFUSED.with(|r| r.get()) as u64,
    }
}
