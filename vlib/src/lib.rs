//! Generic machinery shared by all property checks. Does not depend on `rpm`.
//!
//! * `par`      – engine A: exhaustive product enumeration, sharded over threads
//! * `explore`  – engine C: stateless choice-point explorer with deviation bound
//! * `bfs`      – engine B: explicit-state breadth-first search
//! * `report`   – violations, replay files, known-findings, evidence JSON
//! * `refhdr`   – independent rpm header / lead codec (reference model)
//! * `refcpio`  – independent newc / stripped cpio codec (reference model)
//! * `vercmp`   – byte-level port of rpm's rpmvercmp (reference model)
//! * `capsref`  – hand-written recogniser for capability text (reference model)
//! * `alloc`    – counting global allocator (memory oracle)
//! * `worker`   – crash/hang isolating worker-process pool
pub mod alloc;
pub mod bfs;
pub mod capsref;
pub mod explore;
pub mod par;
pub mod refcpio;
pub mod refhdr;
pub mod report;
pub mod vercmp;
pub mod worker;

pub fn hex(b: &[u8]) -> String {
    let mut s = String::with_capacity(b.len() * 2);
    for x in b {
        s.push_str(&format!("{:02x}", x));
    }
    s
}

pub fn unhex(s: &str) -> Option<Vec<u8>> {
    if s.len() % 2 != 0 {
        return None;
    }
    let b = s.as_bytes();
    let mut out = Vec::with_capacity(s.len() / 2);
    for i in (0..b.len()).step_by(2) {
        let h = (b[i] as char).to_digit(16)?;
        let l = (b[i + 1] as char).to_digit(16)?;
        out.push((h * 16 + l) as u8);
    }
    Some(out)
}
